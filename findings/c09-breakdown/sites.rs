// Exact (Lanczos-type) breakdowns of the iterative solvers in src/sparse.rs.
//
// Every input: A strictly row diagonally dominant ( |a_ii| > sum_{j != i} |a_ij| , checked by `sdd` ),
// order <= 4, small integer entries, x0 = 0, tol = 1e-8, max_iter = 100.
// Every test calls the REAL solver and asserts that it does NOT return Ok; where the site can be
// re-derived through the public API ( multiply / transpose_multiply / dot / norm_2 ) the vanishing scalar is
// recomputed and asserted to be exactly 0.0, so the test also documents WHICH scalar broke down.
//
// Drop this file into tests/ ( e.g. tests/bd_sites.rs ) and run
//   CARGO_NET_OFFLINE=true cargo test --offline --test bd_sites -- --nocapture

use ohsl::vector::Vector;
use ohsl::sparse::Sparse;

const TOL: f64 = 1e-8;
const MAX_ITER: usize = 100;

fn sdd( n: usize, a: &[f64] ) -> bool {
    (0..n).all( |i| {
        let off: f64 = (0..n).filter( |&j| j != i ).map( |j| a[ i * n + j ].abs() ).sum();
        a[ i * n + i ].abs() > off
    } )
}

/// Row-major dense description -> Sparse through from_triplets; asserts strict diagonal dominance
fn mk( n: usize, a: &[f64] ) -> Sparse<f64> {
    assert!( sdd( n, a ), "matrix is not strictly row diagonally dominant" );
    let mut t = Vec::new();
    for i in 0..n { for j in 0..n { if a[ i * n + j ] != 0.0 { t.push( ( i, j, a[ i * n + j ] ) ); } } }
    Sparse::<f64>::from_triplets( n, n, &mut t )
}

fn vecf( v: &[f64] ) -> Vector<f64> { Vector::<f64>::create( v.to_vec() ) }
fn zeros( n: usize ) -> Vector<f64> { Vector::<f64>::new( n, 0.0 ) }
fn to_vec( v: &Vector<f64> ) -> Vec<f64> { (0..v.size()).map( |i| v[ i ] ).collect() }
/// || b - A x || / || b ||
fn true_resid( a: &Sparse<f64>, b: &Vector<f64>, x: &Vector<f64> ) -> f64 { ( b.clone() - a.multiply( x ) ).norm_2() / b.norm_2() }

// ------------------------------------------------------------------------------------------------
// 1. solve_bicg: rho_1 = z.dot(&rr) == 0   ( unguarded: alpha = 0/0 or beta = 0/0 -> NaN )
// ------------------------------------------------------------------------------------------------

/// A = [[2,0],[1,3]], b = (1,0); exact solution (1/2, -1/6).
/// Iteration 1: alpha = 1/2, x = (1/2,0), r = (0,-1/2), rr = (0,0).  Iteration 2: rho_1 = r.rr = 0.
/// ( here rr itself is 0, so pp = 0 and z.dot(&pp) = 0 as well: alpha = 0/0 = NaN at iteration 2 )
#[test]
fn site_1_bicg_rho_1_zero_known_2x2() {
    let a = mk( 2, &[ 2., 0.,  1., 3. ] );
    let b = vecf( &[ 1., 0. ] );
    for itol in [ 1, 2 ] {
        // one iteration is fine and finite
        let mut x1 = zeros( 2 );
        let res1 = a.solve_bicg( &b, &mut x1, 1, TOL, itol );
        assert_eq!( to_vec( &x1 ), vec![ 0.5, 0.0 ] );
        assert_eq!( res1, Err( 0.5 ) );
        // rr after iteration 1 is exactly zero => rho_1 = 0 at iteration 2
        let alpha = b.dot( &b ) / a.multiply( &b ).dot( &b );
        let r1 = b.clone() - a.multiply( &b ) * alpha;
        let rr1 = b.clone() - a.transpose_multiply( &b ) * alpha;
        assert_eq!( r1.dot( &rr1 ), 0.0 );
        assert!( r1.norm_2() / b.norm_2() > 0.1 );
        // the real solver
        let mut x = zeros( 2 );
        let res = a.solve_bicg( &b, &mut x, MAX_ITER, TOL, itol );
        println!( "site 1  bicg itol={} : {:?}  x = {:?}", itol, res, to_vec( &x ) );
        assert!( res.is_err() );
        assert!( res.unwrap_err().is_nan() && x[ 0 ].is_nan() );
    }
}

/// "Pure" rho_1 breakdown ( z.dot(&pp) != 0 at the same iteration ):
/// A = [[4,1,0],[0,4,1],[1,0,4]], b = e_1; exact solution (16, 1, -4)/65.  All arithmetic dyadic.
/// Iteration 1: alpha = 1/4, x = (1/4,0,0), r = (0,0,-1/4), rr = (0,-1/4,0).
/// Iteration 2: rho_1 = r.rr = 0, z.pp = 1/16, alpha = 0: x and r do not move, rho_2 = 0.
/// Iteration 3: beta = 0/0 = NaN.
#[test]
fn site_1b_bicg_rho_1_zero_pure_3x3() {
    let a = mk( 3, &[ 4., 1., 0.,  0., 4., 1.,  1., 0., 4. ] );
    let b = vecf( &[ 1., 0., 0. ] );
    for itol in [ 1, 2 ] {
        let mut x1 = zeros( 3 );
        let res1 = a.solve_bicg( &b, &mut x1, 1, TOL, itol );
        let mut x2 = zeros( 3 );
        let res2 = a.solve_bicg( &b, &mut x2, 2, TOL, itol );
        // iteration 2 is a finite no-op: alpha = rho_1 / z.pp = 0 / (1/16)
        assert_eq!( to_vec( &x1 ), vec![ 0.25, 0.0, 0.0 ] );
        assert_eq!( to_vec( &x2 ), vec![ 0.25, 0.0, 0.0 ] );
        assert_eq!( res1, Err( 0.25 ) );
        assert_eq!( res2, Err( 0.25 ) );
        let r1 = b.clone() - a.multiply( &b ) * 0.25;
        let rr1 = b.clone() - a.transpose_multiply( &b ) * 0.25;
        assert_eq!( r1.dot( &rr1 ), 0.0 );                       // rho_1 at iteration 2
        assert_eq!( a.multiply( &r1 ).dot( &rr1 ), 0.0625 );     // z.dot(&pp) at iteration 2 ( p = r1, pp = rr1 )
        let mut x = zeros( 3 );
        let res = a.solve_bicg( &b, &mut x, MAX_ITER, TOL, itol );
        println!( "site 1b bicg itol={} : {:?}  x = {:?}", itol, res, to_vec( &x ) );
        assert!( res.is_err() );
        assert!( res.unwrap_err().is_nan() && x[ 0 ].is_nan() );
    }
}

// ------------------------------------------------------------------------------------------------
// 2. solve_bicg: z.dot(&pp) == 0 with rho_1 != 0   ( unguarded: alpha = rho_1/0 = inf )
// ------------------------------------------------------------------------------------------------

/// A = diag(1,-1), b = (1,1); exact solution (1,-1).
/// Iteration 1: rho_1 = 2, p = pp = (1,1), z = A p = (1,-1), z.pp = 0, alpha = inf.
#[test]
fn site_2_bicg_z_dot_pp_zero() {
    let a = mk( 2, &[ 1., 0.,  0., -1. ] );
    let b = vecf( &[ 1., 1. ] );
    assert_eq!( b.dot( &b ), 2.0 );                              // rho_1
    assert_eq!( a.multiply( &b ).dot( &b ), 0.0 );               // z.dot(&pp)
    for itol in [ 1, 2 ] {
        let mut x1 = zeros( 2 );
        let res1 = a.solve_bicg( &b, &mut x1, 1, TOL, itol );
        assert_eq!( to_vec( &x1 ), vec![ f64::INFINITY, f64::INFINITY ] );   // x += p * ( 2 / 0 )
        assert_eq!( res1, Err( f64::INFINITY ) );
        let mut x = zeros( 2 );
        let res = a.solve_bicg( &b, &mut x, MAX_ITER, TOL, itol );
        println!( "site 2  bicg itol={} : {:?}  x = {:?}", itol, res, to_vec( &x ) );
        assert!( res.is_err() );
        assert!( res.unwrap_err().is_nan() && x[ 0 ].is_nan() );
    }
}

// ------------------------------------------------------------------------------------------------
// 3. solve_bicgstab: rho_1 = rtilde.dot(&r) == 0 at the top of an iteration ( guarded: Err( ||r||/||b|| ) )
// ------------------------------------------------------------------------------------------------

/// A = [[2,0,0],[1,3,0],[0,1,4]], b = e_1; exact solution (1/2, -1/6, 1/24).
/// Iteration 1: alpha = 1/2, s = (0,-1/2,0), t = (0,-3/2,-1/2), omega = 0.3, x = (0.5,-0.15,0),
/// r = (0, -0.05, 0.15).  Iteration 2: rtilde = e_1, so rho_1 = r[0] = 0 exactly -> Err( 0.158.. ).
#[test]
fn site_3_bicgstab_rho_1_zero_known_3x3() {
    let a = mk( 3, &[ 2., 0., 0.,  1., 3., 0.,  0., 1., 4. ] );
    let b = vecf( &[ 1., 0., 0. ] );
    let mut x = zeros( 3 );
    let res = a.solve_bicgstab( &b, &mut x, MAX_ITER, TOL );
    println!( "site 3  bicgstab : {:?}  x = {:?}", res, to_vec( &x ) );
    assert!( res.is_err() );
    // the exit is the one at `if rho_1 == 0.0` of iteration 2: x is the iterate after exactly one iteration
    let mut x1 = zeros( 3 );
    let res1 = a.solve_bicgstab( &b, &mut x1, 1, TOL );
    assert_eq!( to_vec( &x ), to_vec( &x1 ) );
    assert_eq!( res, res1 );
    assert_eq!( x[ 0 ], 0.5 );
    assert_eq!( ( b.clone() - a.multiply( &x ) )[ 0 ], 0.0 );    // rtilde.dot(&r) = r[0]
    let err = res.unwrap_err();
    assert!( err > 0.15 && err < 0.16 && true_resid( &a, &b, &x ) > 0.15 );
}

/// Fully dyadic variant: A = [[2,0,0],[1,2,0],[0,2,4]], b = e_1; exact solution (1/2, -1/4, 1/8).
/// Iteration 1: alpha = 1/2, s = (0,-1/2,0), t = (0,-1,-1), omega = 1/4, x = (1/2,-1/8,0), r = (0,-1/4,1/4).
/// Iteration 2: rho_1 = rtilde.r = 0 -> Err( sqrt(1/8) ).
#[test]
fn site_3b_bicgstab_rho_1_zero_dyadic_3x3() {
    let a = mk( 3, &[ 2., 0., 0.,  1., 2., 0.,  0., 2., 4. ] );
    let b = vecf( &[ 1., 0., 0. ] );
    let mut x = zeros( 3 );
    let res = a.solve_bicgstab( &b, &mut x, MAX_ITER, TOL );
    println!( "site 3b bicgstab : {:?}  x = {:?}", res, to_vec( &x ) );
    assert!( res.is_err() );
    assert_eq!( to_vec( &x ), vec![ 0.5, -0.125, 0.0 ] );
    let r = b.clone() - a.multiply( &x );
    assert_eq!( to_vec( &r ), vec![ 0.0, -0.25, 0.25 ] );
    assert_eq!( b.dot( &r ), 0.0 );                              // rho_1 = rtilde.dot(&r), rtilde = b
    assert_eq!( res, Err( r.norm_2() / b.norm_2() ) );
}

// ------------------------------------------------------------------------------------------------
// 4. solve_bicgstab: rtilde.dot(&v) == 0   ( unguarded: alpha = rho_1/0 = inf )
// ------------------------------------------------------------------------------------------------

/// A = diag(1,-1), b = (1,1); exact solution (1,-1).
/// Iteration 1: rho_1 = 2, p = (1,1), v = (1,-1), rtilde.v = 0, alpha = inf, s = (-inf,inf), t.s = NaN.
#[test]
fn site_4_bicgstab_rtilde_dot_v_zero() {
    let a = mk( 2, &[ 1., 0.,  0., -1. ] );
    let b = vecf( &[ 1., 1. ] );
    assert_eq!( b.dot( &b ), 2.0 );                              // rho_1
    assert_eq!( b.dot( &a.multiply( &b ) ), 0.0 );               // rtilde.dot(&v)
    let mut x = zeros( 2 );
    let res = a.solve_bicgstab( &b, &mut x, MAX_ITER, TOL );
    println!( "site 4  bicgstab : {:?}  x = {:?}", res, to_vec( &x ) );
    assert!( res.is_err() );
    assert!( res.unwrap_err().is_nan() && x[ 0 ].is_nan() );
}

// ------------------------------------------------------------------------------------------------
// 5. solve_bicgstab: t.dot(&s) == 0 => omega == 0 => Err at `if omega == 0.0`, residual above tol
// ------------------------------------------------------------------------------------------------

/// A = [[3,0],[-2,-5]], b = (1,1); exact solution (1/3,-1/3).  All arithmetic dyadic.
/// Iteration 1: rho_1 = 2, v = A b = (3,-7), rtilde.v = -4, alpha = -1/2, s = (5/2,-5/2), x = (-1/2,-1/2),
/// t = A s = (15/2,15/2), t.s = 0, t.t = 225/2, omega = 0, r = s, resid = 2.5 -> Err( 2.5 ).
#[test]
fn site_5_bicgstab_t_dot_s_zero_omega_zero() {
    let a = mk( 2, &[ 3., 0.,  -2., -5. ] );
    let b = vecf( &[ 1., 1. ] );
    let v = a.multiply( &b );
    let alpha = b.dot( &b ) / b.dot( &v );
    assert_eq!( alpha, -0.5 );
    let s = b.clone() - v * alpha;
    let t = a.multiply( &s );
    assert_eq!( to_vec( &s ), vec![ 2.5, -2.5 ] );
    assert_eq!( to_vec( &t ), vec![ 7.5, 7.5 ] );
    assert_eq!( t.dot( &s ), 0.0 );                              // => omega = 0 / 112.5 = 0
    let mut x = zeros( 2 );
    let res = a.solve_bicgstab( &b, &mut x, MAX_ITER, TOL );
    println!( "site 5  bicgstab : {:?}  x = {:?}", res, to_vec( &x ) );
    assert!( res.is_err() );
    assert_eq!( to_vec( &x ), vec![ -0.5, -0.5 ] );             // alpha * p only, omega * s added nothing
    assert_eq!( res, Err( s.norm_2() / b.norm_2() ) );           // 2.5: the residual GREW ( it was 1 for x0 = 0 )
    assert!( true_resid( &a, &b, &x ) > 2.0 );
}

// ------------------------------------------------------------------------------------------------
// 6. solve_qmr: delta = z.dot(&y) == 0 with rho != 0 and xi != 0
// ------------------------------------------------------------------------------------------------

/// A = [[4,1,0],[0,4,1],[1,0,4]], b = e_1; exact solution (16, 1, -4)/65.
/// Iteration 1: rho = xi = 1, v = w = e_1, delta = 1, p_tld = A e_1 = (4,0,1), ep = beta = 4,
/// v_tld = (0,0,1), w_tld = A^T e_1 - 4 e_1 = (0,1,0), rho = xi = 1, x = (4/17,0,0), resid = 0.2425..
/// Iteration 2: y = (0,0,1), z = (0,1,0), delta = 0 -> Err( 0.2425.. ).
#[test]
fn site_6_qmr_delta_zero() {
    let a = mk( 3, &[ 4., 1., 0.,  0., 4., 1.,  1., 0., 4. ] );
    let b = vecf( &[ 1., 0., 0. ] );
    // the Lanczos vectors of iteration 2, through the public API ( v = w = p = q = b, ||b|| = 1 )
    let p_tld = a.multiply( &b );
    let beta = b.dot( &p_tld );
    assert_eq!( beta, 4.0 );
    let v_tld = p_tld - b.clone() * beta;
    let w_tld = a.transpose_multiply( &b ) - b.clone() * beta;
    assert_eq!( v_tld.norm_2(), 1.0 );                           // rho
    assert_eq!( w_tld.norm_2(), 1.0 );                           // xi
    assert_eq!( w_tld.dot( &v_tld ), 0.0 );                      // delta
    let mut x = zeros( 3 );
    let res = a.solve_qmr( &b, &mut x, MAX_ITER, TOL );
    println!( "site 6  qmr : {:?}  x = {:?}", res, to_vec( &x ) );
    assert!( res.is_err() );
    // exit in iteration 2 before x is touched: same state as after exactly one iteration
    let mut x1 = zeros( 3 );
    let res1 = a.solve_qmr( &b, &mut x1, 1, TOL );
    assert_eq!( to_vec( &x ), to_vec( &x1 ) );
    assert_eq!( res, res1 );
    assert!( x[ 0 ] != 0.0 && x[ 1 ] == 0.0 && x[ 2 ] == 0.0 );
    assert!( res.unwrap_err() > 0.2 && true_resid( &a, &b, &x ) > 0.2 );
}

// ------------------------------------------------------------------------------------------------
// 7. solve_qmr: ep = q.dot(&p_tld) == 0
// ------------------------------------------------------------------------------------------------

/// A = diag(1,-1), b = (1,1); exact solution (1,-1).
/// Iteration 1: rho = xi = sqrt 2, p = q = (c,c) with c = 1/sqrt 2 rounded, p_tld = (c,-c),
/// ep = c*c + c*(-c) = 0 exactly -> Err( 1.0 ), x untouched.
#[test]
fn site_7_qmr_ep_zero() {
    let a = mk( 2, &[ 1., 0.,  0., -1. ] );
    let b = vecf( &[ 1., 1. ] );
    let q = b.clone() / b.norm_2();
    assert!( q.dot( &q ) != 0.0 );                               // delta
    assert_eq!( q.dot( &a.multiply( &q ) ), 0.0 );               // ep
    let mut x = zeros( 2 );
    let res = a.solve_qmr( &b, &mut x, MAX_ITER, TOL );
    println!( "site 7  qmr : {:?}  x = {:?}", res, to_vec( &x ) );
    assert!( res.is_err() );
    assert_eq!( res, Err( 1.0 ) );
    assert_eq!( to_vec( &x ), vec![ 0.0, 0.0 ] );
}

/// Variant in which the normalisation is exact too ( ||b|| = 2 ): A = diag(1,1,-1,-1), b = (1,1,1,1);
/// exact solution (1,1,-1,-1).  Iteration 1: p = q = (1/2,..), delta = 1, p_tld = (1/2,1/2,-1/2,-1/2), ep = 0.
#[test]
fn site_7b_qmr_ep_zero_dyadic_4x4() {
    let a = mk( 4, &[ 1., 0., 0., 0.,  0., 1., 0., 0.,  0., 0., -1., 0.,  0., 0., 0., -1. ] );
    let b = vecf( &[ 1., 1., 1., 1. ] );
    assert_eq!( b.norm_2(), 2.0 );
    let q = b.clone() / 2.0;
    assert_eq!( q.dot( &q ), 1.0 );                              // delta
    assert_eq!( q.dot( &a.multiply( &q ) ), 0.0 );               // ep
    let mut x = zeros( 4 );
    let res = a.solve_qmr( &b, &mut x, MAX_ITER, TOL );
    println!( "site 7b qmr : {:?}  x = {:?}", res, to_vec( &x ) );
    assert!( res.is_err() );
    assert_eq!( res, Err( 1.0 ) );
    assert_eq!( to_vec( &x ), vec![ 0.0; 4 ] );
}

// ------------------------------------------------------------------------------------------------
// 8. solve_qmr: xi = z.norm_2() == 0
// ------------------------------------------------------------------------------------------------

/// A = [[2,0],[1,3]], b = (1,0); exact solution (1/2,-1/6).
/// Iteration 1: v = w = e_1, p_tld = A e_1 = (2,1), ep = beta = 2, v_tld = (0,1) ( rho = 1 ),
/// w_tld = A^T e_1 - 2 e_1 = (0,0) ( xi = 0 ), x = (0.4,0), resid = 0.447..
/// Iteration 2: rho = 1 passes, `if xi == 0.0` -> Err( 0.447.. ).
#[test]
fn site_8_qmr_xi_zero() {
    let a = mk( 2, &[ 2., 0.,  1., 3. ] );
    let b = vecf( &[ 1., 0. ] );
    let p_tld = a.multiply( &b );
    let beta = b.dot( &p_tld );
    assert_eq!( beta, 2.0 );
    assert_eq!( ( p_tld - b.clone() * beta ).norm_2(), 1.0 );                       // rho
    assert_eq!( ( a.transpose_multiply( &b ) - b.clone() * beta ).norm_2(), 0.0 );  // xi
    let mut x = zeros( 2 );
    let res = a.solve_qmr( &b, &mut x, MAX_ITER, TOL );
    println!( "site 8  qmr : {:?}  x = {:?}", res, to_vec( &x ) );
    assert!( res.is_err() );
    let mut x1 = zeros( 2 );
    let res1 = a.solve_qmr( &b, &mut x1, 1, TOL );
    assert_eq!( to_vec( &x ), to_vec( &x1 ) );
    assert_eq!( res, res1 );
    assert!( x[ 0 ] > 0.39 && x[ 0 ] < 0.41 && x[ 1 ] == 0.0 );
    assert!( res.unwrap_err() > 0.44 && true_resid( &a, &b, &x ) > 0.44 );
}
