"""Sensitivity self-test: apply each seeded one-construct edit to a scratch copy of the CURRENT /repo tree
(outside /repo and /verif), rebuild the PDB there, re-evaluate the property's rules and record whether the
rule engine reports it.  An undetected seed is a weakness of the checker, never a violation of the property."""
import concurrent.futures
import importlib
import json
import os
import shutil
import subprocess
import sys
import tempfile
import time

HERE = os.path.dirname(os.path.dirname(os.path.abspath(__file__)))
sys.path.insert(0, HERE)
from rules import pdb as pdbmod            # noqa: E402
from rules.report import Report, load_known  # noqa: E402
from selftest.seeds import SEEDS           # noqa: E402


def copy_tree(dst, repo="/repo"):
    os.makedirs(dst, exist_ok=True)
    for name in ("src", "Cargo.toml", "Cargo.lock", "examples", "tests"):
        s = os.path.join(repo, name)
        if os.path.isdir(s):
            shutil.copytree(s, os.path.join(dst, name))
        elif os.path.exists(s):
            shutil.copy(s, os.path.join(dst, name))


def apply_seed(root, seed):
    p = os.path.join(root, seed["file"])
    s = open(p).read()
    if s.count(seed["old"]) != 1:
        return False
    open(p, "w").write(s.replace(seed["old"], seed["new"]))
    return True


def run_seed(seed, repo="/repo"):
    tmp = tempfile.mkdtemp(prefix="ohsl-selftest-")
    try:
        root = os.path.join(tmp, "repo")
        copy_tree(root, repo)
        if not apply_seed(root, seed):
            return {"id": seed["id"], "status": "skipped", "detail": "edit no longer applies exactly once"}
        try:
            d, info = pdbmod.build_pdb(repo=root)
        except pdbmod.PdbError as e:
            return {"id": seed["id"], "status": "does-not-compile", "detail": str(e)[-300:]}
        db = pdbmod.Pdb(d)
        rep = Report(seed["prop"])
        mod = importlib.import_module("rules.%s" % seed["prop"].lower())
        mod.run(rep, db, "quick")
        # the same pipeline as ./check: dependency closure and the generic hidden-state / dead-store rules
        if not os.environ.get("VERIF_NO_DEPS"):
            from rules import deps
            deps.run(seed["prop"], rep, db)
        from rules import state
        state.run(seed["prop"], rep, db)
        viol = rep.violations()
        from rules.report import load_known
        known, _ = load_known()
        keys = [r.key for r in viol if not (r.key in known and known[r.key][0] == seed["prop"])]      # recorded open findings are not alarms
        want = seed.get("expect")
        if want == "SILENT":
            # a behaviour-preserving edit: any report is a false alarm of the checker
            return {"id": seed["id"], "status": "false-alarm" if keys else "silent-ok", "keys": keys[:6], "n": len(keys)}
        hit = [k for k in keys if (want is None or want in k)]
        return {"id": seed["id"], "status": "detected" if hit else ("detected-elsewhere" if keys else "missed"),
                "keys": keys[:6], "n": len(keys)}
    finally:
        shutil.rmtree(tmp, ignore_errors=True)


def run_all(prop=None, ids=None, jobs=8):
    seeds = [s for s in SEEDS if (prop is None or s["prop"] == prop) and (ids is None or s["id"] in ids)]
    out = []
    with concurrent.futures.ThreadPoolExecutor(max_workers=jobs) as ex:
        for r in ex.map(run_seed, seeds):
            out.append(r)
    return out


if __name__ == "__main__":
    prop = sys.argv[1] if len(sys.argv) > 1 and sys.argv[1] != "all" else None
    ids = set(sys.argv[2:]) or None
    t0 = time.time()
    res = run_all(prop, ids)
    for r in res:
        print("%-18s %-34s %s" % (r["status"], r["id"], (r.get("keys") or r.get("detail") or "")))
    import collections
    print(collections.Counter(r["status"] for r in res), "%.1fs" % (time.time() - t0))
