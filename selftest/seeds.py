"""Seeded one-construct edits (each compiles; each leaves the 236 tests passing unless noted) used to measure how
sharp the rules are.  'expect' is a substring of the rule-instance key that should report it."""

SEEDS = []


def seed(id, prop, file, old, new, expect=None, note=""):
    SEEDS.append({"id": id, "prop": prop, "file": file, "old": old, "new": new, "expect": expect, "note": note})


OPS = "src/matrix/operations.rs"
ARI = "src/matrix/arithmetic.rs"
FUN = "src/matrix/functions.rs"

# ---------------------------------------------------------------- C03
seed("c03-setcol-rows", "C03", OPS, 'if self.cols <= col { panic!( "Matrix range error in set_col" ); }',
     'if self.rows <= col { panic!( "Matrix range error in set_col" ); }', "index-kinds", "the original defect")
seed("c03-getcol-loop-cols", "C03", OPS, """        let mut result = Vector::<T>::new( self.rows, T::zero() );
        for i in 0..self.rows {
            result[ i ] = self.mat[ i * self.cols + col ];""", """        let mut result = Vector::<T>::new( self.rows, T::zero() );
        for i in 0..self.cols {
            result[ i ] = self.mat[ i * self.cols + col ];""", "accessor/get_col")
seed("c03-sub-plus", "C03", ARI, "result[(i,j)] = self[(i,j)] - minus[(i,j)];", "result[(i,j)] = self[(i,j)] + minus[(i,j)];", "elementwise-polarity")
seed("c03-sub-swapped", "C03", ARI, "result[(i,j)] = self[(i,j)] - minus[(i,j)];", "result[(i,j)] = minus[(i,j)] - self[(i,j)];", "elementwise-polarity")
seed("c03-matmul-shape", "C03", ARI, "let mut result = Matrix::<T>::new( self.rows(), mul.cols(), T::zero() );",
     "let mut result = Matrix::<T>::new( self.rows(), mul.rows(), T::zero() );", "product/matmul")
seed("c03-fillcol-guard-rows", "C03", OPS, 'if self.cols <= col { panic!( "Matrix range error in fill_col" ); }',
     'if self.rows <= col { panic!( "Matrix range error in fill_col" ); }', "index-kinds")
seed("c03-norm1-swapped", "C03", FUN, """        for j in 0..self.cols {
            let mut sum: f64 = 0.0;
            for i in 0..self.rows {
                sum += self[(i,j)].abs();
            }
            result = result.max( sum )
        }
        result
    }

    /// Return the matrix inf-norm""", """        for i in 0..self.rows {
            let mut sum: f64 = 0.0;
            for j in 0..self.cols {
                sum += self[(i,j)].abs();
            }
            result = result.max( sum )
        }
        result
    }

    /// Return the matrix inf-norm""", "norm-orientation/norm_1")
seed("c03-addassign-transposed-index", "C03", ARI, "self[(i,j)] += rhs[(i,j)];", "self[(i,j)] += rhs[(j,i)];", "elementwise-coindex")
seed("c03-divassign-mul", "C03", ARI, "self[(i,j)] /= rhs;", "self[(i,j)] *= rhs;", "elementwise-polarity")
seed("c03-neg-range-short", "C03", ARI, """        for i in 0..result.rows() {
            for j in 0..result.cols() {
                result[(i,j)] = -self[(i,j)];""", """        for i in 0..result.rows() {
            for j in 1..result.cols() {
                result[(i,j)] = -self[(i,j)];""", "elementwise-fullrange")
seed("c03-transpose-row-outer", "C03", OPS, """            for j in 0..self.cols {
                for i in 0..self.rows {
                    temp.push( self[(i,j)] );""", """            for i in 0..self.rows {
                for j in 0..self.cols {
                    temp.push( self[(i,j)] );""", "edit/transpose_in_place")
seed("c03-transpose-no-dimswap", "C03", OPS, "            mem::swap( &mut self.rows, &mut self.cols );\n", "", "edit/transpose_in_place")
seed("c03-swaprows-partial", "C03", OPS, """        for j in 0..self.cols {
            self.swap_elem( row_1, j, row_2, j );""", """        for j in 1..self.cols {
            self.swap_elem( row_1, j, row_2, j );""", "edit/swap_rows")
seed("c03-deleterow-off", "C03", OPS, "self.mat.drain( row * self.cols..(row+1) * self.cols );", "self.mat.drain( row * self.cols..(row+1) * self.cols - 1 );", "edit/delete_row")
seed("c03-resize-guard", "C03", OPS, "if i < temp.rows() && j < temp.cols() {", "if i < temp.rows() && j < temp.rows() {", "shape/resize")
seed("c03-multiply-getcol", "C03", OPS, "result.push( self.get_row( row ).dot( vec ) );", "result.push( self.get_col( row ).dot( vec ) );", "product/multiply")
seed("c03-consuming-sub-swapped", "C03", ARI, "        &self - &minus\n", "        &minus - &self\n", "delegation")
seed("c03-eye-offdiag", "C03", OPS, "identity[(i, i)] = T::one();", "identity[(i, 0)] = T::one();", "shape/eye")
seed("c03-normmax-noabs", "C03", FUN, "result = result.max( self[(i,j)].abs() );", "result = result.max( self[(i,j)] );", "norm-orientation/norm_max")
seed("c03-setrow-index", "C03", OPS, "self.mat[ row * self.cols + j ] = vec[ j ];", "self.mat[ j * self.cols + row ] = vec[ j ];", "accessor/set_row")
seed("c03-scalar-mul-left-sub", "C03", ARI, "result[(i,j)] = matrix[(i,j)] * self.clone();", "result[(i,j)] = matrix[(i,j)] + self.clone();", "elementwise-polarity")

# ---------------------------------------------------------------- C20
seed("c20-vec-add-guard-dropped", "C20", "src/vector/arithmetic.rs", 'if self.size() != plus.size() { panic!( "Vector sizes do not agree (+)." ); }\n', "", "reject/<&vector")
seed("c20-mat-add-cols-guard-lt", "C20", ARI, 'if self.cols != plus.cols { panic!( "Matrix col dimensions do not agree (+)." ); }',
     'if self.cols < plus.cols { panic!( "Matrix col dimensions do not agree (+)." ); }', "reject/<&matrix::Matrix<T> as std::ops::Add")
seed("c20-banded-m2-guard", "C20", "src/banded.rs", 'if self.m2 != plus.m2 { panic!( "Banded matrix m2 dimensions do not agree (+)." ); }',
     'if self.m1 != plus.m2 { panic!( "Banded matrix m2 dimensions do not agree (+)." ); }', "reject/<&banded")
seed("c20-getrow-cols", "C20", OPS, 'if self.rows <= row { panic!( "Matrix range error in get_row" ); }', 'if self.cols <= row { panic!( "Matrix range error in get_row" ); }', "reject/matrix::Matrix<T>::get_row")
seed("c20-consuming-sub", "C20", ARI, "        &self - &minus\n", "        &minus - &self\n", "owned-equals-borrowed")
seed("c20-sparse-mult-guard", "C20", "src/sparse.rs", "if self.cols != x.size() { \n            panic!( \"Sparse matrix multiply: matrix and vector sizes do not agree.\" ); \n        }",
     "if self.cols < x.size() { \n            panic!( \"Sparse matrix multiply: matrix and vector sizes do not agree.\" ); \n        }", "reject/sparse::Sparse<T>::multiply")
seed("c20-clone-drops-field", "C20", "src/matrix/mod.rs", "Matrix { mat: self.mat.clone(), rows: self.rows, cols: self.cols }", "Matrix { mat: self.mat.clone(), rows: self.rows, cols: self.rows }", "clone-independent")
seed("c20-mesh2d-set-guard", "C20", "src/mesh2d.rs", """    pub fn set_nodes_vars(&mut self, nodex: usize, nodey: usize, vec: Vector<T> ) {
        if ( nodex > self.nx - 1 ) || ( nodey > self.ny - 1 ) { """, """    pub fn set_nodes_vars(&mut self, nodex: usize, nodey: usize, vec: Vector<T> ) {
        if ( nodex > self.nx - 1 ) || ( nodey > self.ny ) { """, "reject/mesh2d::Mesh2D<T>::set_nodes_vars")
seed("c20-triplets-guard-after", "C20", "src/sparse.rs", """            if col >= cols { panic!( "Sparse matrix from_triplets: col range error." ); }
            row_index.push( triplet.0 );""", """            row_index.push( triplet.0 );
            if col >= cols { panic!( "Sparse matrix from_triplets: col range error." ); }""", "from_triplets")
seed("c20-solve-basic-guard-after", "C20", "src/matrix/solve.rs", """        if self.rows != self.cols() { 
            panic!( "solve_basic error: matrix is not square" ); }
        let mut x: Vector<T> = b.clone();
        self.gauss_with_pivot( &mut x );""", """        let mut x: Vector<T> = b.clone();
        self.gauss_with_pivot( &mut x );
        if self.rows != self.cols() { 
            panic!( "solve_basic error: matrix is not square" ); }""", "reject/matrix::Matrix<T>::solve_basic")

# ---------------------------------------------------------------- C13
CM = "src/complex/mod.rs"
seed("c13-mulassign-stale", "C13", CM, "        self.imag += a * rhs.imag;\n    }\n}\n\nimpl<T: Clone + Number> DivAssign for", "        self.imag += self.real.clone() * rhs.imag;\n    }\n}\n\nimpl<T: Clone + Number> DivAssign for", "stale-read")
seed("c13-div-imag-sign", "C13", CM, "let imag = self.imag * divisor.real - self.real * divisor.imag;", "let imag = self.real * divisor.imag - self.imag * divisor.real;", "field/")
seed("c13-partialcmp-imag-first", "C13", CM, """        if self.real != other.real {
            self.real.partial_cmp( &other.real )
        } else {
            self.imag.partial_cmp( &other.imag )
        }""", """        if self.imag != other.imag {
            self.imag.partial_cmp( &other.imag )
        } else {
            self.real.partial_cmp( &other.real )
        }""", "eq-ord/partial_cmp")
seed("c13-mul-real-plus", "C13", CM, "let real = self.real.clone() * times.real.clone() - self.imag.clone() * times.imag.clone();", "let real = self.real.clone() * times.real.clone() + self.imag.clone() * times.imag.clone();", "field/")
seed("c13-divassign-no-den", "C13", CM, "        self.imag /= denominator;\n", "        let _ = denominator;\n", "assign-bit-identical")
seed("c13-divassign-reassoc", "C13", CM, """        self.real *= rhs.real.clone();
        self.real += self.imag.clone() * rhs.imag.clone();
        self.real /= denominator.clone();
""", """        self.real *= rhs.real.clone() / denominator.clone();
        self.real += self.imag.clone() * rhs.imag.clone() / denominator.clone();
""", "assign-bit-identical", "field-equal but not bit-identical")
seed("c13-arg-swapped", "C13", CM, "self.imag.atan2(self.real)", "self.real.atan2(self.imag)", "abs-arg/arg")
seed("c13-eq-real-only", "C13", CM, "self.real == other.real && self.imag == other.imag", "self.real == other.real && self.imag == self.imag", "eq-ord/eq")
seed("c13-conj-noneg", "C13", CM, "Self::new(self.real.clone(), -self.imag.clone())", "Self::new(self.real.clone(), self.imag.clone())", "field/")
seed("c13-subT-plus", "C13", CM, "Self::Output::new( self.real - minus, self.imag )", "Self::Output::new( self.real + minus, self.imag )", "field/")
seed("c13-one-imag", "C13", CM, "Self::new(One::one(), Zero::zero())", "Self::new(One::one(), One::one())", "field/")
seed("c13-addassign-imag-minus", "C13", CM, "        self.real += rhs.real;\n        self.imag += rhs.imag;", "        self.real += rhs.real;\n        self.imag -= rhs.imag;", "assign-bit-identical")
seed("c13-divT-mul", "C13", CM, "Self::Output::new( self.real / scalar.clone(), self.imag / scalar )", "Self::Output::new( self.real / scalar.clone(), self.imag * scalar )", "field/")

# ---------------------------------------------------------------- C16
VF = "src/vector/vec_f64.rs"
seed("c16-last-end-chunk", "C16", VF, "let end = if i == num_threads - 1 { self.size() } else { (i + 1) * chunk_size };", "let end = (i + 1) * chunk_size;", "partition")
seed("c16-different-windows", "C16", VF, "let w_slice = &w.vec[start..end];", "let w_slice = &w.vec[start..self.size()];", "same-window")
seed("c16-start-off", "C16", VF, "let start = i * chunk_size;", "let start = i * chunk_size + if i > 0 { 1 } else { 0 };", "partition")
seed("c16-chunk-ceil", "C16", VF, "let chunk_size = self.size() / num_threads;", "let chunk_size = ( self.size() + num_threads - 1 ) / num_threads;", "workers", "ceil chunking overruns when len < T")
seed("c16-threads-cap", "C16", VF, "for i in 0..num_threads {\n                let start", "for i in 0..num_threads.min( 4 ) {\n                let start", "workers")
seed("c16-worker-offset", "C16", VF, "result += self_slice[i] * w_slice[i];", "result += self_slice[i] * w_slice[ w_slice.len() - 1 - i ];", "worker-sum")
seed("c16-lastworker-test", "C16", VF, "if i == num_threads - 1 { self.size() }", "if i == num_threads { self.size() }", "partition")
seed("c16-guard-dropped", "C16", VF, 'if self.size() != w.size() { panic!( "Vector sizes do not agree dot()." ); }\n        let num_threads', 'let num_threads', "guard")

# ---------------------------------------------------------------- C17
NW = "src/newton.rs"
seed("c17-loop-inclusive", "C17", NW, """        let mut current: f64 = self.guess;
        for _ in 0..self.max_iter {""", """        let mut current: f64 = self.guess;
        for _ in 0..=self.max_iter {""", "bounded/loop")
seed("c17-ok-after-loop", "C17", NW, """        Err( current ) 
    }
}

impl Newton<Cmplx> {""", """        Ok( current ) 
    }
}

impl Newton<Cmplx> {""", "ok-tested")
seed("c17-extra-eval", "C17", NW, """            let dx = func(current) / deriv;
            current -= dx;
            if dx.abs() <= self.tol {
                return Ok( current );
            }
        }
        Err( current ) 
    }
}

impl Newton<Cmplx> {""", """            let dx = func(current) / deriv;
            current -= dx;
            if dx.abs() <= self.tol && func(current).abs() < 1.0 {
                return Ok( current );
            }
        }
        Err( current ) 
    }
}

impl Newton<Cmplx> {""", "eval-count")
seed("c17-ok-wrong-test", "C17", NW, """            let dx: Vec64 = j.solve_basic( &f );
            let step = dx.norm_inf();
            current -= dx;
            if step <= self.tol {
                return Ok( current )
            }
        }
        Err( current )
    }

    /// Solve the vector equation via Newton iteration using the exact Jacobian
    #[inline] 
    pub fn solve_jacobian(&self, func: &dyn Fn(Vec64) -> Vec64, """, """            let dx: Vec64 = j.solve_basic( &f );
            let step = dx.norm_inf();
            current -= dx;
            if step <= self.delta {
                return Ok( current )
            }
        }
        Err( current )
    }

    /// Solve the vector equation via Newton iteration using the exact Jacobian
    #[inline] 
    pub fn solve_jacobian(&self, func: &dyn Fn(Vec64) -> Vec64, """, "ok-tested")
seed("c17-residual-criterion", "C17", NW, """            let f: Vec64 = func( current.clone() );
            let mut j = Mat64::jacobian( current.clone(), func, self.delta );
            let dx: Vec64 = j.solve_basic( &f );
            let step = dx.norm_inf();
            current -= dx;
            if step <= self.tol {""", """            let f: Vec64 = func( current.clone() );
            let max_residual = f.norm_inf();
            let mut j = Mat64::jacobian( current.clone(), func, self.delta );
            let dx: Vec64 = j.solve_basic( &f );
            current -= dx;
            if max_residual <= self.tol {""", "criterion/", "the original defect (finding 24)")
seed("c17-step-of-other-vector", "C17", NW, """            let f: Vec64 = func( current.clone() );
            let mut j = Mat64::jacobian( current.clone(), func, self.delta );
            let dx: Vec64 = j.solve_basic( &f );
            let step = dx.norm_inf();
            current -= dx;
""", """            let f: Vec64 = func( current.clone() );
            let mut j = Mat64::jacobian( current.clone(), func, self.delta );
            let dx: Vec64 = j.solve_basic( &f );
            let step = self.guess.norm_inf();
            current -= dx;
""", "criterion/")
seed("n-c17-step-inline", "C17", NW, """            let mut j: Mat64 = jac( current.clone() ); 
            let dx: Vec64 = j.solve_basic( &f );
            let step = dx.norm_inf();
            current -= dx;
            if step <= self.tol {
                return Ok( current )
            }""", """            let mut j: Mat64 = jac( current.clone() ); 
            let dx: Vec64 = j.solve_basic( &f );
            current -= dx.clone();
            if dx.norm_inf() <= self.tol {
                return Ok( current )
            }""", "SILENT", "neutral: the step norm taken after the update from a kept copy")
seed("c17-deriv-forward-diff", "C17", NW, """            let deriv = ( func( current + self.delta ) - 
                          func( current - self.delta ) ) / ( 2.0 * self.delta );
            let dx""", """            let deriv = ( func( current + self.delta ) - 
                          func( current - self.delta ) ) / ( self.delta );
            let dx""", "step")
seed("c17-err-guess", "C17", NW, """                return Ok( current );
            }
        }
        Err( current ) 
    }
}

impl Newton<Cmplx> {""", """                return Ok( current );
            }
        }
        Err( self.guess ) 
    }
}

impl Newton<Cmplx> {""", "failure-carries-iterate")
seed("c17-jacobian-at-guess", "C17", NW, "let mut j = Mat64::jacobian( current.clone(), func, self.delta );", "let mut j = Mat64::jacobian( self.guess.clone(), func, self.delta );", "step")
seed("c17-update-plus", "C17", NW, """            let mut j: Mat64 = jac( current.clone() ); 
            let dx: Vec64 = j.solve_basic( &f );
            let step = dx.norm_inf();
            current -= dx;""", """            let mut j: Mat64 = jac( current.clone() ); 
            let dx: Vec64 = j.solve_basic( &f );
            let step = dx.norm_inf();
            current += dx;""", "ok-tested")


# ---------------------------------------------------------------- C01
SV = "src/matrix/solve.rs"
seed("c01-drop-x-swap", "C01", SV, "        x.swap( pivot, k );\n", "", "exchange-pair")
seed("c01-search-from-k+1", "C01", SV, "self.max_abs_in_column( k, k );", "self.max_abs_in_column( k, k + 1 );", "search-range")
seed("c01-lu-no-abs", "C01", SV, "let abs_a = self[(k,i)].abs();", "let abs_a = self[(k,i)];", "magnitude")
seed("c01-lu-flip-cmp", "C01", SV, "if abs_a > max_a {", "if abs_a < max_a {", "argmax")
seed("c01-forward-incl-diag", "C01", SV, """            for k in 0..i {
                let xk = x[ k ];
                x[ i ] -= self[(i,k)] * xk;""", """            for k in 0..=i {
                let xk = x[ k ];
                x[ i ] -= self[(i,k)] * xk;""", "sweep-order/solve_lu")
seed("c01-drop-permute", "C01", SV, "        x = permutation * x;\n", "        let _p = permutation;\n", "permute-rhs")
seed("c01-maxabs-signed", "C01", SV, """            if max < self[(i,col)].abs() {
                max = self[(i,col)].abs();""", """            if max < self[(i,col)] {
                max = self[(i,col)];""", "magnitude")
seed("c01-elim-x-wrong-mult", "C01", SV, "                x[ i ] -= elem * xk;", "                x[ i ] -= self[(i,k)] * xk;", "row-op-pair/gauss", "reads the eliminated entry instead of the saved multiplier")
seed("c01-backsolve-inner-from-k", "C01", SV, "for j in self.rows-n+1..self.rows {", "for j in self.rows-n..self.rows {", "sweep-order/backsolve")
seed("c01-backsolve-div-wrong", "C01", SV, "            x[ k ] /= self[(k,k)];", "            x[ k ] /= self[(k,last)];", "sweep-order/backsolve")
seed("c01-pivot-transposed-search", "C01", SV, "let abs_a = self[(k,i)].abs();", "let abs_a = self[(i,k)].abs();", "search-range/lu")
seed("c01-lu-perm-swap-other", "C01", SV, "permutation.swap_rows( i, imax );", "permutation.swap_rows( i, i );", "exchange-pair/lu")
seed("c01-gauss-pivot-once", "C01", SV, """        for k in 0..self.rows-1 {
            self.partial_pivot( x, k );""", """        self.partial_pivot( x, 0 );
        for k in 0..self.rows-1 {""", "row-op-pair/gauss")
seed("c01-maxabs-idx-stale", "C01", SV, "                max_index = i;\n", "                max_index = start_row;\n", "argmax")
seed("c01-elim-from-k+1-cols", "C01", SV, "for j in k..self.rows {\n                    let kj", "for j in k+2..self.rows {\n                    let kj", "row-op-pair/gauss")

# ---------------------------------------------------------------- C02
seed("c02-zero-pivot-guard-removed", "C02", SV, "            if max_a == T::zero() { continue; }\n", "", "zero-pivot", "the original defect")
seed("c02-counter-outside-if", "C02", SV, """                self.swap_rows( i, imax );
                pivots += 1;
            } """, """                self.swap_rows( i, imax );
            } 
            pivots += 1;""", "exchange-counter")
seed("c02-parity-swapped", "C02", SV, "if pivots % 2 == 0 { det } else { - det }", "if pivots % 2 == 0 { - det } else { det }", "parity")
seed("c02-det-loop-from-1", "C02", SV, """        for i in 0..self.rows() {
            det *= temp[(i,i)];""", """        for i in 1..self.rows() {
            det *= temp[(i,i)];""", "diag-product")
seed("c02-det-on-self-unfactorised", "C02", SV, "            det *= temp[(i,i)];", "            det *= self[(i,i)];", "diag-product")
seed("c02-inverse-backward-inner", "C02", SV, """                for k in i+1..self.rows() {
                    let inv_kj = inv[(k,j)];""", """                for k in i..self.rows() {
                    let inv_kj = inv[(k,j)];""", "inverse-shape")
seed("c02-inverse-nodiv", "C02", SV, "                inv[(i,j)] /= lu[(i,i)];\n", "", "inverse-shape")
seed("c02-counter-by-two", "C02", SV, "                pivots += 1;", "                pivots += 2;", "exchange-counter")
seed("c02-parity-mod3", "C02", SV, "if pivots % 2 == 0 { det }", "if pivots % 3 == 0 { det }", "parity")
seed("c02-zero-guard-on-wrong-var", "C02", SV, "            if max_a == T::zero() { continue; }", "            if self[(i,i)] == T::one() { continue; }", "zero-pivot")

# ---------------------------------------------------------------- C04
BD = "src/banded.rs"
seed("c04-signed-pivot", "C04", BD, "if au[(j, 0)].abs() > dum {", "if au[(j, 0)] > dum {", "magnitude", "the original defect")
seed("c04-indexmut-transposed", "C04", BD, "        &mut self.compact[ (i, self.m1 + j - i) ]", "        &mut self.compact[ (i, self.m1 + i - j) ]", "index-map")
seed("c04-drop-sign-flip", "C04", BD, "                *d = -*d;\n", "", "exchange-pair")
seed("c04-matvec-upper", "C04", BD, "let tmploop = std::cmp::min( m1 + m2 + 1, n - k );", "let tmploop = std::cmp::min( m1 + m2 + 1, n - k + 1 );", "matvec-window")
seed("c04-matvec-wrong-col", "C04", BD, "result[ i ] += self.compact[ (i, j as usize) ] * vector[ (j + k) as usize ];", "result[ i ] += self.compact[ (i, j as usize) ] * vector[ j as usize ];", "matvec-window")
seed("c04-fillband-guard", "C04", BD, "if band < - (self.m1 as isize) || band > self.m2 as isize { ", "if band < - (self.m2 as isize) || band > self.m2 as isize { ", "fill-band")
seed("c04-new-width", "C04", BD, "compact: Matrix::new( n, m1 + m2 + 1, value ),", "compact: Matrix::new( n, m1 + m2, value ),", "layout/new")
seed("c04-sub-adds", "C04", BD, "compact: &self.compact - &minus.compact,", "compact: &self.compact + &minus.compact,", "operators")
seed("c04-det-skips-first", "C04", BD, """        for i in 0..self.n {
            //dd *= au[ i ][ 0 ];""", """        for i in 1..self.n {
            //dd *= au[ i ][ 0 ];""", "det")
seed("c04-solve-mult-offset", "C04", BD, "x[ j ] -= al[(k, j - k - 1)] * xk;", "x[ j ] -= al[(k, j - k)] * xk;", "solve-replay")
seed("c04-solve-swap-unguarded-wrong", "C04", BD, "if j != k { x.swap( k, j ); }", "if j != k { x.swap( k, j - 1 ); }", "solve-replay")
seed("c04-index-record-inside-if", "C04", BD, """            index[ k ] = i + 1;
            //if dum == T::zero() { au[ k ][ 0 ] = T::zero(); }
            if dum == T::zero() { au[(k, 0)] = T::zero();} 
            if i != k {""", """            //if dum == T::zero() { au[ k ][ 0 ] = T::zero(); }
            if dum == T::zero() { au[(k, 0)] = T::zero();} 
            if i != k {
                index[ k ] = i + 1;""", "exchange-pair")
seed("c04-mulassign-div", "C04", BD, "        self.compact *= scalar;", "        self.compact /= scalar;", "operators")
seed("c04-search-init-noabs", "C04", BD, "let mut dum = au[(k, 0)].abs();", "let mut dum = au[(k, 0)];", "magnitude")

# ---------------------------------------------------------------- C05
TR = "src/tridiagonal.rs"
seed("c05-n1-branch-removed", "C05", TR, """        if self.n == 1 {
            result[ 0 ] = self.main[ 0 ] * vec[ 0 ];
            return result;
        }
""", "", "bounds", "the original defect")
seed("c05-zero-pivot-panic-removed", "C05", TR, '            if beta == T::zero() { panic!( "Tridiagonal error: zero pivot." ); }\n', "", "refuse")
seed("c05-stencil-sup-wrong-col", "C05", TR, "                        + self.sup[ i ] * vec[ i + 1 ];", "                        + self.sup[ i ] * vec[ i ];", "stencil")
seed("c05-convert-sub-above", "C05", TR, "dense[(i,i-1)] = self.sub[i - 1];", "dense[(i-1,i)] = self.sub[i - 1];", "convert")
seed("c05-index-sub-sup-swapped", "C05", TR, """        if i == j + 1 { return &self.sub[j]; }
        if i + 1 == j { return &self.sup[i]; }
        panic!("Tridiagonal error: index out of bounds.");
    }
}

impl<T> IndexMut""", """        if i == j + 1 { return &self.sup[j]; }
        if i + 1 == j { return &self.sub[i]; }
        panic!("Tridiagonal error: index out of bounds.");
    }
}

impl<T> IndexMut""", "storage-map")
seed("c05-transpose-noop-half", "C05", TR, "        self.sup = temp;\n", "        self.sup = self.sub.clone();\n        let _ = temp;\n", "transpose")
seed("c05-det-sign", "C05", TR, "                   - self.sub[ j - 2 ] * self.sup[ j - 2 ] * f[ j - 2 ];", "                   + self.sub[ j - 2 ] * self.sup[ j - 2 ] * f[ j - 2 ];", "det-recurrence")
seed("c05-det-wrong-offdiag", "C05", TR, "                   - self.sub[ j - 2 ] * self.sup[ j - 2 ] * f[ j - 2 ];", "                   - self.sub[ j - 2 ] * self.sub[ j - 2 ] * f[ j - 2 ];", "det-recurrence")
seed("c05-sub-op-adds-main", "C05", TR, "        let main = self.main - minus.main;", "        let main = self.main + minus.main;", "operators")
seed("c05-mulassign-skips-sup", "C05", TR, "        self.sup *= rhs.clone();\n", "        self.sub *= rhs.clone();\n", "operators")
seed("c05-first-pivot-guard-removed", "C05", TR, '        if self.main[0] == T::zero() { panic!( "Tridiagonal error: zero on leading diagonal." ); }\n', "", "refuse")
seed("c05-stencil-last-row", "C05", TR, "        result[ self.n - 1 ] = self.sub[ self.n - 2 ] * vec[ self.n - 2 ]  ", "        result[ self.n - 1 ] = self.sub[ self.n - 2 ] * vec[ self.n - 1 ]  ", "stencil")
seed("c05-with-vecs-guard", "C05", TR, "if sub.len() != n - 1 || sup.len() != n - 1 { ", "if sub.len() != n - 1 || sup.len() != n { ", "invariant")
seed("c05-convert-last-main", "C05", TR, "dense[(self.n - 1, self.n - 1)] = self.main[self.n - 1];", "dense[(self.n - 1, self.n - 1)] = self.main[self.n - 2];", "convert")

# ---------------------------------------------------------------- C06 / C07
SP = "src/sparse.rs"
seed("c06-triplets-misaligned", "C06", SP, "triplets.push( ( self.row_index[ k ], j, self.val[ k ] ) );", "triplets.push( ( self.row_index[ k ], j, self.val[ j ] ) );", "csc-walk/to_triplets")
seed("c06-dense-walk-short", "C06", SP, """            for k in self.col_start[ j ]..self.col_start[ j + 1 ] {
                dense[( self.row_index[ k ], j )] = self.val[ k ];""", """            for k in self.col_start[ j ]..self.col_start[ j ] + 1 {
                dense[( self.row_index[ k ], j )] = self.val[ k ];""", "csc-walk/to_dense")
seed("c06-dense-roles-swapped", "C06", SP, "dense[( self.row_index[ k ], j )] = self.val[ k ];", "dense[( j, self.row_index[ k ] )] = self.val[ k ];", "role/to_dense")
seed("c06-prefix-inclusive", "C06", SP, """            let ck = col_start[ k ];
            col_start[ k ] = sum;
            sum += ck;""", """            let ck = col_start[ k ];
            sum += ck;
            col_start[ k ] = sum;""", "col-start")
seed("c06-colstart-no-total", "C06", SP, "        col_start[ self.cols ] = sum;\n", "", "col-start")
seed("c06-triplet-push-row-as-col", "C06", SP, "            col_index.push( triplet.1 );", "            col_index.push( triplet.0 );", "lengths/from_triplets")
seed("c06-sort-by-row", "C06", SP, "triplets.sort_by_key( |triplet| triplet.1 );", "triplets.sort_by_key( |triplet| triplet.0 );", "lengths/from_triplets-sort")
seed("c06-insert-overwrite-wrong-k", "C06", SP, """            if ( self.row_index[ k ] == row ) && ( col_index[ k ] == col ) {
                self.val[ k ] = value;""", """            if ( self.row_index[ k ] == row ) && ( col_index[ k ] == col ) {
                self.val[ 0 ] = value;""", "lookup/insert")
seed("c06-get-test-row-only", "C06", SP, """            if ( self.row_index[ k ] == row ) && ( col_index[ k ] == col ) {
                return Some( self.val[ k ] );""", """            if ( self.row_index[ k ] == row ) && ( col_index[ k ] >= col ) {
                return Some( self.val[ k ] );""", "lookup/get")
seed("c06-insert-rebuild-swapped-shape", "C06", SP, "*self = Self::from_triplets( self.rows, self.cols, &mut triplets );", "*self = Self::from_triplets( self.cols, self.rows, &mut triplets );", "lookup/insert")
seed("c06-colindex-gap", "C06", SP, "gaps[ k ] = self.col_start[ k + 1 ] - self.col_start[ k ];", "gaps[ k ] = self.col_start[ k + 1 ] - self.col_start[ 0 ];", "col-index")
seed("c06-transpose-alloc", "C06", SP, "let mut at = Sparse::new_nonzero( self.cols, self.rows, self.nonzero );", "let mut at = Sparse::new_nonzero( self.rows, self.cols, self.nonzero );", "transpose-shape")
seed("c06-transpose-scatter-row", "C06", SP, "                at.row_index[ index ] = i;", "                at.row_index[ index ] = k;", "transpose-shape")
seed("c06-newnonzero-colstart-len", "C06", SP, "            col_start: vec![ 0; cols + 1 ],\n        }\n    } ", "            col_start: vec![ 0; cols ],\n        }\n    } ", "lengths/new_nonzero")
seed("c07-multiply-x-by-row", "C07", SP, "                result[ self.row_index[ k ] ] += self.val[ k ] * xj;", "                result[ self.row_index[ k ] ] += self.val[ k ] * x[ self.row_index[ k ] ];", "scatter")
seed("c07-tmultiply-result-len", "C07", SP, "let mut result = Vector::create( vec![ T::zero(); self.cols ] );", "let mut result = Vector::create( vec![ T::zero(); self.rows ] );", "gather")
seed("c07-tmultiply-minus", "C07", SP, "                result[ i ] += self.val[ k ] * x[ self.row_index[ k ] ];", "                result[ i ] -= self.val[ k ] * x[ self.row_index[ k ] ];", "gather")
seed("c07-scale-range", "C07", SP, """        for k in 0..self.nonzero {
            self.val[ k ] *= *value;""", """        for k in 1..self.nonzero {
            self.val[ k ] *= *value;""", "scale")
seed("c07-multiply-walk-from-next", "C07", SP, """            let xj = x[ j ];
            for k in self.col_start[ j ]..self.col_start[ j + 1 ] {""", """            let xj = x[ j ];
            for k in self.col_start[ j ] + 1..self.col_start[ j + 1 ] {""", "csc-walk/multiply")
seed("c07-transpose-val-misaligned", "C07", SP, "                at.val[ index ] = self.val[ j ];", "                at.val[ index ] = self.val[ index ];", "csc-walk/transpose")
seed("c07-multiply-guard-rows", "C07", SP, """        if self.cols != x.size() { 
            panic!( "Sparse matrix multiply""", """        if self.rows != x.size() { 
            panic!( "Sparse matrix multiply""", "scatter")

# ---------------------------------------------------------------- C08 / C09
seed("c08-cg-ok-untested", "C08", SP, """            if resid <= tol {
                if self.true_residual( b, x, normb ) <= tol { return Ok( i ); }
                return self.solve_cg( b, x, max_iter - i, tol ).map( |k| k + i );
            }
            rho_1 = rho;""", """            if resid <= tol {
                if self.true_residual( b, x, normb ) <= tol { return Ok( i ); }
                return self.solve_cg( b, x, max_iter - i, tol ).map( |k| k + i );
            }
            if i == max_iter { return Ok( i ); }
            rho_1 = rho;""", "confirmed-success")
seed("c08-cg-unconfirmed", "C08", SP, """            if resid <= tol {
                if self.true_residual( b, x, normb ) <= tol { return Ok( i ); }
                return self.solve_cg( b, x, max_iter - i, tol ).map( |k| k + i );
            }
            rho_1 = rho;""", """            if resid <= tol { return Ok( i ); }
            rho_1 = rho;""", "confirmed-success/solve_cg#1", "the original defect (finding 23)")
seed("c08-qmr-confirm-or", "C08", SP, """            if resid <= tol {
                if self.true_residual( b, x, normb ) <= tol { return Ok( i ); }
                return self.solve_qmr( b, x, max_iter - i, tol ).map( |k| k + i );
            }""", """            if resid <= tol || self.true_residual( b, x, normb ) <= tol { return Ok( i ); }""", "confirmed-success/solve_qmr#1")
seed("c08-bicgstab-confirm-before-update", "C08", SP, """            *x += alpha * phat.clone();
            resid = s.norm_2() / normb;
            if resid <= tol {
                if self.true_residual( b, x, normb ) <= tol { return Ok( i ); }
                return self.solve_bicgstab( b, x, max_iter - i, tol ).map( |k| k + i );
            }""", """            resid = s.norm_2() / normb;
            if resid <= tol {
                if self.true_residual( b, x, normb ) <= tol { *x += alpha * phat.clone(); return Ok( i ); }
                *x += alpha * phat.clone();
                return self.solve_bicgstab( b, x, max_iter - i, tol ).map( |k| k + i );
            }
            *x += alpha * phat.clone();""", "confirmed-success/solve_bicgstab#1")
seed("c08-bicg-confirm-wrong-vector", "C08", SP, "                if self.true_residual( b, x, bnrm ) <= tol { return Ok( iter ); }", "                if self.true_residual( b, &p, bnrm ) <= tol { return Ok( iter ); }", "confirmed-success/solve_bicg#1")
seed("c08-helper-recurrence", "C08", SP, "        ( b.clone() - self.multiply( x ) ).norm_2() / normb\n", "        ( b.clone() + self.multiply( x ) ).norm_2() / normb\n", "confirmed-success")
seed("n-c08-confirm-let", "C08", SP, """                if self.true_residual( b, x, normb ) <= tol { return Ok( i ); }
                return self.solve_cg(""", """                let confirmed = ( b.clone() - self.multiply( x ) ).norm_2() / normb;
                if confirmed <= tol { return Ok( i ); }
                return self.solve_cg(""", "SILENT", "neutral: the confirmation spelled inline and named")
seed("c08-cg-r-wrong-coef2", "C09", SP, "            r -= q.clone() * alpha;", "            r -= q.clone() * rho;", "residual-tracks-iterate/solve_cg")
seed("c08-cg-x-hoisted", "C08", SP, """        if resid <= tol { return Ok( 0 ); }

        for i in 1..=max_iter {
            //z = r; //could have preconditioner here z = M.solve(r);""", """        if resid <= tol { return Ok( 0 ); }
        *x += r.clone() * 0.0;

        for i in 1..=max_iter {
            //z = r; //could have preconditioner here z = M.solve(r);""", "x-untouched")
seed("c08-bicgstab-halfstep-no-x", "C09", SP, """            s = r.clone() - v.clone() * alpha;
            *x += alpha * phat.clone();
            resid = s.norm_2() / normb;
            if resid <= tol {
                if self.true_residual( b, x, normb ) <= tol { return Ok( i ); }
                return self.solve_bicgstab( b, x, max_iter - i, tol ).map( |k| k + i );
            }""", """            s = r.clone() - v.clone() * alpha;
            resid = s.norm_2() / normb;
            if resid <= tol {
                if self.true_residual( b, x, normb ) <= tol { return Ok( i ); }
                return self.solve_bicgstab( b, x, max_iter - i, tol ).map( |k| k + i );
            }
            *x += alpha * phat.clone();""", "tested-vector/solve_bicgstab")
seed("c08-bicgstab-x-omega-dropped", "C09", SP, "            *x += omega * shat.clone();\n", "", "residual-tracks-iterate/solve_bicgstab")
seed("c08-qmr-r-plus", "C09", SP, "            r -= s.clone();", "            r += s.clone();", "residual-tracks-iterate/solve_qmr")
seed("c08-qmr-s-wrong", "C09", SP, "                s = eta * p_tld.clone() + ( theta_1 * theta_1 * gamma * gamma ) * s;", "                s = eta * p_tld.clone() + ( theta_1 * theta * gamma * gamma ) * s;", "residual-tracks-iterate/solve_qmr")
seed("c08-bicg-loop-le", "C08", SP, "        while iter < max_iter {", "        while iter <= max_iter {", "budget/solve_bicg")
seed("c08-bicg-test-rr", "C09", SP, "            if itol == 1 { err = r.norm_2() / bnrm; }\n            if itol == 2 { err = z.norm_2() / bnrm; }\n            if err <= tol {\n                if self.true_residual(", "            if itol == 1 { err = rr.norm_2() / bnrm; }\n            if itol == 2 { err = z.norm_2() / bnrm; }\n            if err <= tol {\n                if self.true_residual(", "tested-vector/solve_bicg")
seed("c08-cg-initial-residual-sign", "C08", SP, """        let mut normb = b.norm_2();
        let mut r = b.clone() - self.multiply( x );

        if normb == 0.0 { normb = 1.0; }
        resid = r.norm_2() / normb;
        if resid <= tol { return Ok( 0 ); }

        for i in 1..=max_iter {
            //z = r;""", """        let mut normb = b.norm_2();
        let mut r = self.multiply( x ) - b.clone();

        if normb == 0.0 { normb = 1.0; }
        resid = r.norm_2() / normb;
        if resid <= tol { return Ok( 0 ); }

        for i in 1..=max_iter {
            //z = r;""", "initial-residual/solve_cg")
seed("c08-qmr-breakdown-ok", "C08", SP, "            if gamma == 0.0 { return Err( resid ); }", "            if gamma == 0.0 { return Ok( i ); }", "confirmed-success/solve_qmr")
seed("c08-cg-q-from-z", "C09", SP, "            q = self.multiply( &p );", "            q = self.multiply( &z );", "residual-tracks-iterate/solve_cg")
seed("c08-bicgstab-tol-scaled", "C08", SP, """            if resid < tol {
                if self.true_residual( b, x, normb ) <= tol { return Ok( i ); }""", """            if resid < tol * 10.0 {
                if self.true_residual( b, x, normb ) <= tol * 10.0 { return Ok( i ); }""", "confirmed-success/solve_bicgstab")
seed("c09-cg-zero-norm-dropped", "C09", SP, """        let mut r = b.clone() - self.multiply( x );

        if normb == 0.0 { normb = 1.0; }""", """        let mut r = b.clone() - self.multiply( x );
""", "zero-norm/solve_cg")
seed("c09-qmr-initial-test-dropped", "C09", SP, """        resid = r.norm_2() / normb;
        if resid <= tol { return Ok( 0 ); }

        v_tld = r.clone();""", """        resid = r.norm_2() / normb;

        v_tld = r.clone();""", "accept-start/solve_qmr")
seed("c09-bicg-startup-removed", "C09", SP, """        if bnrm == 0.0 { bnrm = 1.0; }
        if itol == 1 { err = r.norm_2() / bnrm; }
        if itol == 2 { err = z.norm_2() / bnrm; }
        if err <= tol { return Ok( 0 ); }
""", "", "solve_bicg", "the original defect")
seed("c09-bicgstab-zero-norm-after-use", "C09", SP, """        if normb == 0.0 { normb = 1.0; }
        resid = r.norm_2() / normb;
        if resid <= tol { return Ok( 0 ); }

        for i in 1..=max_iter {
            rho_1 = rtilde.dot( &r );""", """        resid = r.norm_2() / normb;
        if normb == 0.0 { normb = 1.0; }
        if resid <= tol { return Ok( 0 ); }

        for i in 1..=max_iter {
            rho_1 = rtilde.dot( &r );""", "zero-norm/solve_bicgstab")

# ---------------------------------------------------------------- C18
seed("c18-restore-omitted", "C18", FUN, """            let f_new = func( state.clone() ); 
            state[i] = original;
            jac.set_col( i, ( f_new - f.clone() ) / delta );""", """            let f_new = func( state.clone() ); 
            jac.set_col( i, ( f_new - f.clone() ) / delta );""", "perturb-restore")
seed("c18-restore-by-subtraction", "C18", FUN, """            let f_new = func( state.clone() ); 
            state[i] = original;
            jac.set_col( i, ( f_new - f.clone() ) / delta );""", """            let f_new = func( state.clone() ); 
            state[i] -= delta;
            jac.set_col( i, ( f_new - f.clone() ) / delta );""", "restore-exact/jacobian", "the original defect (finding 22)")
seed("c18-restore-perturbed-value", "C18", FUN, """            let original = state[i];
            state[i] += delta;
            let f_new = func( state.clone() ); 
            state[i] = original;
            jac.set_col( i, ( f_new - f.clone() ) / delta );""", """            state[i] += delta;
            let original = state[i];
            let f_new = func( state.clone() ); 
            state[i] = original;
            jac.set_col( i, ( f_new - f.clone() ) / delta );""", "restore-exact/jacobian")
seed("n-c18-fresh-copy", "C18", FUN, """            let original = state[i];
            state[i] += delta;
            let f_new = func( state.clone() ); 
            state[i] = original;
            jac.set_col( i, ( f_new - f.clone() ) / delta );""", """            let mut shifted = point.clone();
            shifted[i] += delta;
            let f_new = func( shifted ); 
            jac.set_col( i, ( f_new - f.clone() ) / delta );""", "SILENT", "neutral: a fresh copy of the point per column needs no restore")
seed("n-c18-restore-from-point", "C18", FUN, """            let f_new = func( state.clone() ); 
            state[i] = original;
            jac.set_col( i, ( f_new - f.clone() ) / delta );""", """            let f_new = func( state.clone() ); 
            state[i] = point[i];
            jac.set_col( i, ( f_new - f.clone() ) / delta );""", "SILENT", "neutral: the untouched point holds the original value")
seed("c18-shape-transposed", "C18", FUN, "let mut jac = Mat64::new( m, n, 0.0 );", "let mut jac = Mat64::new( n, m, 0.0 );", "shape")
seed("c18-quotient-reversed", "C18", FUN, "jac.set_col( i, ( f_new - f.clone() ) / delta );", "jac.set_col( i, ( f.clone() - f_new ) / delta );", "quotient")
seed("c18-restore-wrong-index", "C18", FUN, """            let f_new = func( state.clone() ); 
            state[i] = original;
            jac.set_col( i, ( f_new - f.clone() ) / delta );""", """            let f_new = func( state.clone() ); 
            state[0] = original;
            jac.set_col( i, ( f_new - f.clone() ) / delta );""", "perturb-restore")
seed("c18-cmplx-divisor", "C18", FUN, "jac.set_col( i, ( f_new - f.clone() ) / Cmplx::new( delta, 0.0 ) );", "jac.set_col( i, ( f_new - f.clone() ) / Cmplx::new( 0.0, delta ) );", "quotient")
seed("c18-neutral-restore-after-store", "C18", FUN, """            let f_new = func( state.clone() ); 
            state[i] = original;
            jac.set_col( i, ( f_new - f.clone() ) / delta );""", """            let f_new = func( state.clone() ); 
            jac.set_col( i, ( f_new - f.clone() ) / delta );
            state[i] = original;""", "SILENT", "neutral: restoring after the column is stored is behaviour-preserving")
seed("c18-loop-m", "C18", FUN, """        let mut jac = Mat64::new( m, n, 0.0 );
        for i in 0..n {""", """        let mut jac = Mat64::new( m, n, 0.0 );
        for i in 0..m {""", "columns")
seed("c18-setcol-rows", "C18", OPS, 'if self.cols <= col { panic!( "Matrix range error in set_col" ); }',
     'if self.rows <= col { panic!( "Matrix range error in set_col" ); }', "columns/callee", "the original defect")


# ---------------------------------------------------------------- neutral (behaviour-preserving) edits: the rules must stay silent
seed("n-c03-rows-getter", "C03", OPS, """        if self.cols <= col { panic!( "Matrix range error in get_col" ); }
        let mut result = Vector::<T>::new( self.rows, T::zero() );
        for i in 0..self.rows {""", """        if self.cols() <= col { panic!( "Matrix range error in get_col" ); }
        let mut result = Vector::<T>::new( self.rows(), T::zero() );
        for i in 0..self.rows() {""", "SILENT", "rows <-> rows()")
seed("n-c03-let-subexpr", "C03", OPS, "            result[ j ] = self.mat[ row * self.cols + j ];", "            let base = row * self.cols;\n            result[ j ] = self.mat[ base + j ];", "SILENT", "introducing a let")
seed("n-c20-guard-negated-form", "C20", OPS, 'if self.rows <= row { panic!( "Matrix range error in get_row" ); }', 'if !( row < self.rows ) { panic!( "Matrix range error in get_row" ); }', "SILENT", "a <= b  <->  !(b < a)")
seed("n-c20-guard-assert", "C20", OPS, 'if self.rows <= row { panic!( "Matrix range error in fill_row" ); }', 'assert!( row < self.rows, "Matrix range error in fill_row" );', "SILENT", "if c {panic} <-> assert!(!c)")
seed("n-c20-ne-as-not-eq", "C20", ARI, 'if self.rows != plus.rows { panic!( "Matrix row dimensions do not agree (+)." ); }', 'if !( self.rows == plus.rows ) { panic!( "Matrix row dimensions do not agree (+)." ); }', "SILENT", "a != b <-> !(a == b)")
seed("n-c03-loop-order", "C03", ARI, """        for i in 0..result.rows() {
            for j in 0..result.cols() {
                result[(i,j)] = self[(i,j)] + plus[(i,j)];
            }
        }""", """        for j in 0..result.cols() {
            for i in 0..result.rows() {
                result[(i,j)] = self[(i,j)] + plus[(i,j)];
            }
        }""", "SILENT", "loop interchange")
seed("n-c13-let-for-den", "C13", CM, "Self::Output::new( real / denominator.clone(), imag / denominator )", "let re = real / denominator.clone();\n        let im = imag / denominator;\n        Self::Output::new( re, im )", "SILENT", "introducing lets")
seed("n-c13-commuted-product", "C13", CM, "let imag = self.real * times.imag + self.imag * times.real;", "let imag = times.imag * self.real + self.imag * times.real;", "SILENT", "commuted factors: IEEE multiplication is commutative")
seed("n-c01-swap-arg-order", "C01", SV, "        x.swap( pivot, k );", "        x.swap( k, pivot );", "SILENT", "swap is symmetric")
seed("n-c17-renamed-var", "C17", NW, """            let dx = func(current) / deriv;
            current -= dx;
            if dx.abs() <= self.tol {
                return Ok( current );
            }
        }
        Err( current ) 
    }
}

impl Newton<Cmplx> {""", """            let step = func(current) / deriv;
            current -= step;
            if step.abs() <= self.tol {
                return Ok( current );
            }
        }
        Err( current ) 
    }
}

impl Newton<Cmplx> {""", "SILENT", "renaming")
seed("n-c08-cg-scalar-left", "C08", SP, "            r -= q.clone() * alpha;", "            r -= alpha * q.clone();", "SILENT", "V*c <-> c*V")
seed("n-c05-size-vs-n", "C05", TR, "        for i in 1..self.size() - 1 {\n            result[ i ]", "        for i in 1..self.n - 1 {\n            result[ i ]", "SILENT", "size() <-> n")
seed("n-c16-while-join", "C16", VF, "            let mut result: f64 = 0.0;\n            for thread in threads {\n                result += thread.join().unwrap();\n            }\n            result", "            let mut total: f64 = 0.0;\n            for handle in threads {\n                total += handle.join().unwrap();\n            }\n            total", "SILENT", "renaming")
seed("n-c06-ck-inline", "C06", SP, """        if self.rows <= row { panic!( "Sparse matrix get: row range error." ); }
        if self.cols <= col { panic!( "Sparse matrix get: col range error." ); }""", """        if self.cols <= col { panic!( "Sparse matrix get: col range error." ); }
        if self.rows <= row { panic!( "Sparse matrix get: row range error." ); }""", "SILENT", "reordering independent guards")
seed("n-c04-mm-let", "C04", BD, "        let tmploop = std::cmp::min( m1 + m2 + 1, n - k );\n            for j in std::cmp::max( 0, - k )..tmploop {", "        let lo = std::cmp::max( 0, - k );\n            let tmploop = std::cmp::min( n - k, m1 + m2 + 1 );\n            for j in lo..tmploop {", "SILENT", "let + commuted min")

# ---------------------------------------------------------------- C10
PM = "src/polynomial/mod.rs"
seed("c10-quadratic-unguarded", "C10", PM, "roots[1] = if q == Cmplx::zero() { Cmplx::zero() } else { c / q };", "roots[1] = c / q;", "divisors/quadratic_solve", "the original defect")
seed("c10-zeros-degree-minus-1", "C10", PM, "let mut poly_roots = Vector::<Cmplx>::zeros( degree );", "let mut poly_roots = Vector::<Cmplx>::zeros( degree - 1 );", "count")
seed("c10-deflation-skips-0", "C10", PM, "            for j in (0..degree).rev() {\n                let mut x = Cmplx::zero();", "            for j in (1..degree).rev() {\n                let mut x = Cmplx::zero();", "count/deflation")
seed("c10-laguer-drop-early-return", "C10", PM, "            if b.abs() <= err { return; }\n", "", "divisors/laguer")
seed("c10-dispatch-gap", "C10", PM, "        if degree > 3 {\n            let mut ad", "        if degree > 4 {\n            let mut ad", "dispatch")
seed("c10-roots-skip-leading", "C10", PM, """        for i in 0..self.coeffs.len() {
            coeffs[i] = Cmplx::new( self.coeffs[i], 0.0 ); // Convert to Complex<f64>""", """        for i in 0..self.coeffs.len() - 1 {
            coeffs[i] = Cmplx::new( self.coeffs[i], 0.0 ); // Convert to Complex<f64>""", "entry/f64")
seed("c10-polish-deflated", "C10", PM, "                Self::laguer( &mut a, &mut poly_roots[j], &mut its );", "                Self::laguer( &mut a, &mut poly_roots[0], &mut its );", "polish")
seed("c10-deflate-order", "C10", PM, """                    let c = ad[jj];
                    ad[jj] = b;
                    b = x * b + c;""", """                    ad[jj] = b;
                    let c = ad[jj];
                    b = x * b + c;""", "deflate")
seed("c10-cubic-quadratic-swapped-helper", "C10", PM, "            poly_roots = Polynomial::quadratic_solve( a, b, c );", "            poly_roots = Polynomial::cubic_solve( Cmplx::zero(), a, b, c );", "count/replace", "cubic helper for degree 2 returns 3 values")
seed("c10-laguer-unbounded", "C10", PM, "        for iter in 1..MAXIT {\n            *iterations = iter;", "        let mut iter = 0;\n        loop {\n            iter += 1;\n            *iterations = iter;", "termination")
seed("c10-gp-guard-dropped", "C10", PM, """            let dx = if f64::max( abp, abm ) > 0.0 { 
                Cmplx::new( m as f64, 0.0 ) / gp
            } else {
                Cmplx::polar( 1.0 + abx, iter as f64 )
            };""", """            let dx = Cmplx::new( m as f64, 0.0 ) / gp;""", "divisors/laguer")
seed("c10-refine-imag-flag", "C10", PM, "        Polynomial::<Cmplx>::poly_solve( coeffs, refine )\n    }\n}\n\nimpl Polynomial<Cmplx> {", "        Polynomial::<Cmplx>::poly_solve( coeffs, !refine )\n    }\n}\n\nimpl Polynomial<Cmplx> {", "entry/f64")

# ---------------------------------------------------------------- C11 / C12
PA = "src/polynomial/arithmetic.rs"
seed("c11-sub-shortcut-sign", "C11", PA, "Err( _ ) => { return - minus.clone(); },", "Err( _ ) => { return minus.clone(); },", "polarity/Sub/empty-operands")
seed("c11-mul-index-shift", "C11", PA, "product.coeffs[ i + j ] = product.coeffs[ i + j ] + self.coeffs[ i ].clone() * times.coeffs[ j ].clone();",
     "product.coeffs[ i + j ] = product.coeffs[ i + j ] + self.coeffs[ i ].clone() * times.coeffs[ i ].clone();", "graded-product")
seed("c11-derivative-count", "C11", PM, "            for _ in 0..=i {\n                p.coeffs[ i ] = p.coeffs[ i ] + self.coeffs[ i + 1 ].clone();", "            for _ in 0..i {\n                p.coeffs[ i ] = p.coeffs[ i ] + self.coeffs[ i + 1 ].clone();", "derivative")
seed("c11-horner-ascending", "C11", PM, "        for i in (0..degree).rev() {\n            p = p * x + self.coeffs[ i ];", "        for i in 0..degree {\n            p = p * x + self.coeffs[ i ];", "horner")
seed("c11-sub-adds-rhs", "C11", PA, "diff.coeffs[ i ] = diff.coeffs[ i ] - minus.coeffs[ i ].clone();", "diff.coeffs[ i ] = diff.coeffs[ i ] + minus.coeffs[ i ].clone();", "polarity/Sub")
seed("c11-add-guard-other-degree", "C11", PA, """            if i <= plus.degree().unwrap() {
                sum.coeffs[ i ] = sum.coeffs[ i ] + plus.coeffs[ i ].clone();""", """            if i <= self.degree().unwrap() {
                sum.coeffs[ i ] = sum.coeffs[ i ] + plus.coeffs[ i ].clone();""", "length/Add")
seed("c11-add-no-max", "C11", PA, "        if degree < plus_degree { degree = plus_degree; }\n", "", "length/Add")
seed("c11-neg-identity", "C11", PA, "neg.coeffs = self.coeffs.iter().map( |x| -x.clone() ).collect();", "neg.coeffs = self.coeffs.iter().map( |x| x.clone() ).collect();", "polarity/Neg")
seed("c11-trim-interior", "C11", PM, "while self.coeffs[ i ] == T::zero() && i > 0 {", "while self.coeffs[ 0 ] == T::zero() && i > 0 {", "trim")
seed("c11-iszero-inverted", "C11", PM, "if self.coeffs[ i ] != T::zero() { return false; }", "if self.coeffs[ i ] == T::zero() { return false; }", "is_zero")
seed("c11-derivative-n-off", "C11", PM, "        for _ in 0..n {\n            p = p.derivative();", "        for _ in 0..=n {\n            p = p.derivative();", "derivative_n")
seed("c11-consuming-sub", "C11", PA, "        &self - &minus\n", "        &minus - &self\n", "delegation")
seed("c12-add-not-sub", "C12", PA, "            r = r - ( t * v.clone() );", "            r = r + ( t * v.clone() );", "update-pair")
seed("c12-count-dropped", "C12", PA, "            count += 1;\n", "", "no-spin")
seed("c12-zero-check-removed", "C12", PA, '        if v.is_zero() { return Err( "Polynomial.polydiv() divide by zero polynomial" ); }\n', "", "zero-divisor/all-zero")
seed("c12-term-index", "C12", PA, "t.coeffs[ r.degree()? - v.degree()? ] = lead / v.coeffs[ v.degree()? ];", "t.coeffs[ r.degree()? - v.degree()? ] = lead / v.coeffs[ 0 ];", "term")
seed("c12-term-inverted", "C12", PA, "t.coeffs[ r.degree()? - v.degree()? ] = lead / v.coeffs[ v.degree()? ];", "t.coeffs[ r.degree()? - v.degree()? ] = v.coeffs[ v.degree()? ] / lead;", "term")
seed("c12-exit-strict", "C12", PA, "while !r.is_zero() && r.degree()? >= v.degree()? {", "while !r.is_zero() && r.degree()? > v.degree()? {", "exit")
seed("c12-result-swapped", "C12", PA, "        Ok( ( q ,r ) )", "        Ok( ( r ,q ) )", "exit")
seed("c12-q-sub", "C12", PA, "            q = q + t.clone();", "            q = q.clone() + t.clone() + t.clone();", "update-pair")

# ---------------------------------------------------------------- C15
VA = "src/vector/arithmetic.rs"
VFN = "src/vector/functions.rs"
VO = "src/vector/operations.rs"
seed("c15-dot-misaligned", "C15", VFN, "            result += self.vec[i] * w.vec[i];\n        }\n        result\n    }\n\n    /// Return the sum of all", "            result += self.vec[i] * w.vec[ self.size() - 1 - i ];\n        }\n        result\n    }\n\n    /// Return the sum of all", "dot")
seed("c15-product-slice-from-start", "C15", VFN, "        for i in start+1..=end {\n            result *= self.vec[i].clone();", "        for i in start..=end {\n            result *= self.vec[i].clone();", "slices/product_slice")
seed("c15-push-front-push", "C15", VO, "        self.vec.insert( 0, elem );", "        self.vec.push( elem );", "edit/push_front")
seed("c15-norm-inf-noabs", "C15", VF, "            let a = self.vec[i].abs();\n            if a.is_nan() || result < a {", "            let a = self.vec[i];\n            if a.is_nan() || result < a {", "abs-norms/norm_inf")
seed("c15-sub-swapped", "C15", VA, "            result.push( self.vec[i] - minus.vec[i] );", "            result.push( minus.vec[i] - self.vec[i] );", "elementwise-polarity")
seed("c15-subassign-adds", "C15", VA, "            self.vec[i] -= rhs.vec[i].clone();", "            self.vec[i] += rhs.vec[i].clone();", "elementwise-polarity")
seed("c15-div-range", "C15", VA, """        for i in 0..self.size() {
            result.push( self.vec[i].clone() / scalar.clone() );""", """        for i in 1..self.size() {
            result.push( self.vec[i].clone() / scalar.clone() );""", "elementwise-fullrange")
seed("c15-find-last", "C15", VFN, "let index = self.vec.iter().position( |x| *x == value );", "let index = self.vec.iter().rposition( |x| *x == value );", "find")
seed("c15-sum-range", "C15", VFN, "        self.sum_slice( 0, self.size() - 1 )", "        self.sum_slice( 1, self.size() - 1 )", "slices/sum")
seed("c15-norm2-p3", "C15", VF, "            result += f64::powf( self.vec[i].abs(), 2.0 );\n        }\n        f64::sqrt( result )", "            result += f64::powf( self.vec[i].abs(), 3.0 );\n        }\n        f64::sqrt( result )", "abs-norms/norm_2")
seed("c15-linspace-den", "C15", VF, "let h: f64 = ( b - a ) / ((size as f64) - 1.0);", "let h: f64 = ( b - a ) / (size as f64);", "spacing/linspace")
seed("c15-insert-args-swapped", "C15", VO, "    pub fn swap(&mut self, i: usize, j: usize) {\n        self.vec.swap( i, j );", "    pub fn swap(&mut self, i: usize, j: usize) {\n        self.vec.swap( i, i );", "edit/swap")
seed("c15-conj-real", "C15", "src/vector/vec_cmplx.rs", "            vec[i] = self.vec[i].clone().conj();", "            vec[i] = self.vec[i].clone();", "assign-conj-real/conj")
seed("c15-neg-on-copy-offset", "C15", VA, "            result[i] = -result[i].clone();", "            result[i] = -result[0].clone();", "elementwise-coindex")
seed("c15-sumslice-guard", "C15", VFN, """    pub fn sum_slice(&self, start: usize, end: usize) -> T {
        if start > end { panic!( "Vector sum: start > end." ); }
        if self.size() <= start { panic!( "Vector range error." ); }
        if self.size() <= end { panic!( "Vector range error." ); }""", """    pub fn sum_slice(&self, start: usize, end: usize) -> T {
        if start > end { panic!( "Vector sum: start > end." ); }
        if self.size() <= start { panic!( "Vector range error." ); }
        if self.size() < end { panic!( "Vector range error." ); }""", "slices/sum_slice")
seed("c15-powspace-exponent", "C15", VF, "vec[i] = a + (b - a) * f64::powf( (i as f64) / ((size as f64) - 1.0), p );", "vec[i] = a + (b - a) * f64::powf( (i as f64) / ((size as f64) - 1.0), 1.0 / p );", "spacing/powspace")

# ---------------------------------------------------------------- C19
ME1 = "src/mesh1d.rs"
ME2 = "src/mesh2d.rs"
seed("c19-flat-nx", "C19", ME2, "        self.vars[ nodex * self.ny + nodey ].clone()", "        self.vars[ nodex * self.nx + nodey ].clone()", "flat-index")
seed("c19-cross-args-swapped", "C19", ME2, "            section.set_nodes_vars( nodey, self.get_nodes_vars( nodex, nodey ) );", "            section.set_nodes_vars( nodey, self.get_nodes_vars( nodey, nodex ) );", "cross-sections")
seed("c19-corner-twice", "C19", ME2, """                sum += 0.25 * dx * dy * ( self.vars[ i * self.ny + j ][ var ]
                    + self.vars[ ( i + 1 ) * self.ny + j ][ var ]
                    + self.vars[ i * self.ny + j + 1 ][ var ]""", """                sum += 0.25 * dx * dy * ( self.vars[ i * self.ny + j ][ var ]
                    + self.vars[ ( i + 1 ) * self.ny + j ][ var ]
                    + self.vars[ ( i + 1 ) * self.ny + j ][ var ]""", "trapezium-2d/trapezium")
seed("c19-last-node-formula", "C19", ME1, "                result = if x_pos == self.nodes[ node + 1 ] { right } else { left + deriv * delta_x };", "                result = left + deriv * delta_x;", "interpolation/nodal-exact", "the original defect (finding 21)")
seed("c19-snap-window-extent", "C19", ME1, "             || ( self.nodes[ node ] - x_pos ).abs() < 1.0e-7\n             || ( self.nodes[ node + 1 ] - x_pos ).abs() < 1.0e-7", "             || ( self.nodes[ node ] - x_pos ).abs() < 1.0e-7 * self.nodes[ self.nodes.size() - 1 ].abs().max( 1.0 )\n             || ( self.nodes[ node + 1 ] - x_pos ).abs() < 1.0e-7 * self.nodes[ self.nodes.size() - 1 ].abs().max( 1.0 )", "interpolation", "a snapping window that grows with the mesh (c19-ext3-2)")
seed("n-c19-nodal-left-too", "C19", ME1, "                result = if x_pos == self.nodes[ node + 1 ] { right } else { left + deriv * delta_x };", "                result = if x_pos == self.nodes[ node + 1 ] { right } else if x_pos == self.nodes[ node ] { left } else { left + deriv * delta_x };", "SILENT", "both ends returned directly")
seed("c19-reader-stride", "C19", ME1, "            if i % (self.nvars+1) == 0 {", "            if i % (self.nvars) == 0 {", "io-agreement")
seed("c19-interp-right-left", "C19", ME1, "let deriv = (right.clone() - left.clone()) / ( self.nodes[ node + 1 ] - self.nodes[ node ] );", "let deriv = (left.clone() - right.clone()) / ( self.nodes[ node + 1 ] - self.nodes[ node ] );", "interpolation")
seed("c19-trap1d-same-end", "C19", ME1, "                              + self.vars[ node + 1 ][ var ] );", "                              + self.vars[ node ][ var ] );", "trapezium-1d")
seed("c19-varmatrix-transposed", "C19", ME2, "                m[(i,j)] = self.vars[ i * self.ny + j ][ var ].clone();", "                m[(i,j)] = self.vars[ j * self.ny + i ][ var ].clone();", "var-matrix")
seed("c19-mesh2d-new-order", "C19", ME2, """        for _i in 0..nx {
            for _j in 0..ny {
                vars.push( node_vars.clone() );""", """        for _i in 0..nx {
            for _j in 1..ny {
                vars.push( node_vars.clone() );""", "storage/mesh2d-new")
seed("c19-set-wrong-slot", "C19", ME1, "        self.vars[ node ] = vec;", "        self.vars[ 0 ] = vec;", "storage/mesh1d-set-get")
seed("c19-get-guard-dropped", "C19", ME1, '        if node >= self.nodes.size() { panic!( "Mesh1D error: get_nodes_vars range error." ); }\n', "", "accessor-guards")
seed("c19-trap2d-weight", "C19", ME2, """                sum += 0.25 * dx * dy * ( self.vars[ i * self.ny + j ][ var ]""", """                sum += 0.5 * dx * dy * ( self.vars[ i * self.ny + j ][ var ]""", "trapezium-2d/trapezium")
seed("c19-trap2d-dy-from-x", "C19", ME2, """                let dy = self.y_nodes[ j + 1 ] - self.y_nodes[ j ];
                sum += 0.25 * dx * dy * ( self.vars[ i * self.ny + j ][ var ]""", """                let dy = self.x_nodes[ j + 1 ] - self.x_nodes[ j ];
                sum += 0.25 * dx * dy * ( self.vars[ i * self.ny + j ][ var ]""", "trapezium-2d/trapezium")
seed("c19-cross-wrong-axis", "C19", ME2, "let mut section = Mesh1D::<T, f64>::new( self.y_nodes.clone(), self.nvars );", "let mut section = Mesh1D::<T, f64>::new( self.x_nodes.clone(), self.nvars );", "cross-sections/cross_section_xnode")
seed("c19-writer-extra-token", "C19", ME1, """            write!( f, "{number:.prec$} ", prec = precision, number = self.nodes[ i ] ).unwrap();
            for var in 0..self.nvars {""", """            write!( f, "{number:.prec$} ", prec = precision, number = self.nodes[ i ] ).unwrap();
            write!( f, "{number:.prec$} ", prec = precision, number = self.nodes[ i ] ).unwrap();
            for var in 0..self.nvars {""", "io-agreement")
seed("c19-reader-field-shift", "C19", ME1, "                if i % (self.nvars+1) == var+1 {", "                if i % (self.nvars+1) == var {", "io-agreement")

# ---------------------------------------------------------------- C14
CT = "src/complex/trigonometric.rs"
CH = "src/complex/hyperbolic.rs"
CE = "src/complex/elementary.rs"
seed("c14-cos-imag-plus", "C14", CT, "Cmplx::new(self.real.cos() * self.imag.cosh(), -self.real.sin() * self.imag.sinh())", "Cmplx::new(self.real.cos() * self.imag.cosh(), self.real.sin() * self.imag.sinh())", "primitive-forms/cos")
seed("c14-sec-sin", "C14", CT, "        Complex::<f64>::one() / self.cos()", "        Complex::<f64>::one() / self.sin()", "reciprocals/sec")
seed("c14-tan-inverted", "C14", CT, "        self.sin() / self.cos()", "        self.cos() / self.sin()", "quotients/tan")
seed("c14-asec-partner", "C14", CT, "        let inv = Cmplx::one() / self.clone();\n        inv.acos()", "        let inv = Cmplx::one() / self.clone();\n        inv.asin()", "inverse-of-reciprocal/asec")
seed("c14-sinh-swapped", "C14", CH, "Cmplx::new(self.real.sinh() * self.imag.cos(), self.real.cosh() * self.imag.sin())", "Cmplx::new(self.real.cosh() * self.imag.cos(), self.real.sinh() * self.imag.sin())", "primitive-forms/sinh")
seed("c14-sqrt-full-angle", "C14", CE, "let x = sqrt_abs * f64::cos( 0.5 * theta );", "let x = sqrt_abs * f64::cos( theta );", "principal/sqrt")
seed("c14-ln-abs-sqr", "C14", CE, "        let r = self.abs();\n        let theta = self.arg();\n        Complex::new( f64::ln(r), theta )", "        let r = self.abs_sqr();\n        let theta = self.arg();\n        Complex::new( f64::ln(r), theta )", "principal/ln")
seed("c14-pow-sign", "C14", CE, "let x = r2.powf( 0.5 * w.real ) * f64::exp( -w.imag * theta );", "let x = r2.powf( 0.5 * w.real ) * f64::exp( w.imag * theta );", "pow/pow")
seed("c14-log-inverted", "C14", CE, "        self.ln() / b.ln()", "        b.ln() / self.ln()", "quotients/log")
seed("c14-coth-tanh-of-inverse", "C14", CH, "        Cmplx::one() / self.tanh()", "        ( Cmplx::one() / self.clone() ).tanh()", "reciprocals/coth")
seed("c14-exp-cos-sin", "C14", CE, "Complex::new( a * f64::cos(self.imag), a * f64::sin(self.imag) )", "Complex::new( a * f64::sin(self.imag), a * f64::cos(self.imag) )", "primitive-forms/exp")
seed("c14-powf-angle", "C14", CE, "        let b = x * theta;", "        let b = 0.5 * x * theta;", "pow/powf")
seed("c14-asin-sign", "C14", CT, "        - I * ((Cmplx::one() - squared).sqrt() + I * self.clone()).ln()\n    }\n\n    /// Return the inverse cos", "        I * ((Cmplx::one() - squared).sqrt() + I * self.clone()).ln()\n    }\n\n    /// Return the inverse cos", "right-inverse/asin")
seed("c14-asin-radicand", "C14", CT, "        - I * ((Cmplx::one() - squared).sqrt() + I * self.clone()).ln()", "        - I * ((Cmplx::one() + squared).sqrt() + I * self.clone()).ln()", "right-inverse/asin")
seed("c14-acos-no-pi2", "C14", CT, "        I * ((Cmplx::one() - squared).sqrt() + I * self.clone()).ln() + PI_2", "        I * ((Cmplx::one() - squared).sqrt() + I * self.clone()).ln()", "right-inverse/acos")
seed("c14-atan-swapped-logs", "C14", CT, "( (Cmplx::one() - iz).ln() - (Cmplx::one() + iz).ln() ) * I * 0.5", "( (Cmplx::one() + iz).ln() - (Cmplx::one() - iz).ln() ) * I * 0.5", "right-inverse/atan")
seed("c14-atanh-no-half", "C14", CH, "( ( z + 1.0 ).ln() - ( Cmplx::one() - z ).ln() ) * 0.5", "( ( z + 1.0 ).ln() - ( Cmplx::one() - z ).ln() )", "right-inverse/atanh")
seed("c14-asinh-minus-one", "C14", CH, "( ( z * z + 1.0 ).sqrt() + z ).ln()", "( ( z * z - 1.0 ).sqrt() + z ).ln()", "right-inverse/asinh")
seed("c14-acosh-merged-sqrt", "C14", CH, "( ( z - 1.0 ).sqrt() * ( z + 1.0 ).sqrt() + z ).ln()", "( ( z * z - 1.0 ).sqrt() + z ).ln()", "inverse-branch/acosh", "still a right inverse; the branch cut moves (c14-ext-3)")
seed("c14-atanh-merged-ln", "C14", CH, "( ( z + 1.0 ).ln() - ( Cmplx::one() - z ).ln() ) * 0.5", "( ( z + 1.0 ) / ( Cmplx::one() - z ) ).ln() * 0.5", "inverse-branch/atanh", "still a right inverse; ln of a quotient has a different cut")
seed("c14-asin-other-root", "C14", CT, "        - I * ((Cmplx::one() - squared).sqrt() + I * self.clone()).ln()", "        - I * (I * (squared - Cmplx::one()).sqrt() + I * self.clone()).ln()", "inverse-branch/asin", "i*sqrt(z^2-1) is another square root of 1-z^2: right inverse, wrong branch in two quadrants")
seed("n-c14-asin-reordered", "C14", CT, "        - I * ((Cmplx::one() - squared).sqrt() + I * self.clone()).ln()", "        - ( I * (I * self.clone() + (Cmplx::one() - self.clone() * self.clone()).sqrt()).ln() )", "SILENT", "same logarithmic form, re-associated")
seed("n-c14-acosh-commuted", "C14", CH, "( ( z - 1.0 ).sqrt() * ( z + 1.0 ).sqrt() + z ).ln()", "( z + ( z + 1.0 ).sqrt() * ( z - 1.0 ).sqrt() ).ln()", "SILENT", "commuted")
seed("n-c14-atanh-distributed", "C14", CH, "( ( z + 1.0 ).ln() - ( Cmplx::one() - z ).ln() ) * 0.5", "( z + 1.0 ).ln() * 0.5 - ( Cmplx::one() - z ).ln() * 0.5", "SILENT", "distributed factor")
seed("n-c14-commuted", "C14", CT, "Cmplx::new(self.real.sin() * self.imag.cosh(), self.real.cos() * self.imag.sinh())", "Cmplx::new(self.imag.cosh() * self.real.sin(), self.imag.sinh() * self.real.cos())", "SILENT", "commuted factors")
seed("n-c14-neg-placement", "C14", CT, "Cmplx::new(self.real.cos() * self.imag.cosh(), -self.real.sin() * self.imag.sinh())", "Cmplx::new(self.real.cos() * self.imag.cosh(), -( self.real.sin() * self.imag.sinh() ))", "SILENT", "sign placement")

seed("c20-setcol-rows", "C20", OPS, 'if self.cols <= col { panic!( "Matrix range error in set_col" ); }',
     'if self.rows <= col { panic!( "Matrix range error in set_col" ); }', "reject/matrix::Matrix<T>::set_col", "the original defect")

seed("c12-degree-drop-removed", "C12", PA, "            r.coeffs[ top ] = T::zero();\n", "", "degree-drops", "the original defect")
seed("c12-absorption-test", "C12", PA, "            r.coeffs[ top ] = T::zero();\n", "            if lead + r.coeffs[ top ] == lead { r.coeffs[ top ] = T::zero(); }\n", "degree-drops", "the original defect (second form: component-wise absorption test, stalls for Complex)")
seed("c12-clear-if-differs", "C12", PA, "            r.coeffs[ top ] = T::zero();\n", "            if r.coeffs[ top ] != lead { r.coeffs[ top ] = T::zero(); }\n", "degree-drops", "value test on the residue")

# ---------------------------------------------------------------- later additions
seed("c03-fillband-neg-unchecked", "C03", OPS, "            if (i as usize) < self.cols &&  i >= 0 {", "            if (i as usize) < self.cols {", "accessor/fill_band", "negative column wraps to a huge usize; only the upper test remains")
seed("c03-filltridiag-swapped", "C03", OPS, "        self.fill_band( -1, lower );\n        self.fill_diag( diag );\n        self.fill_band( 1, upper );", "        self.fill_band( 1, lower );\n        self.fill_diag( diag );\n        self.fill_band( -1, upper );", "accessor/fill_tridiag")
seed("c05-resize-sup-n", "C05", TR, "        self.sup = Vector::<T>::new(n - 1, T::zero());\n        self.n = n;", "        self.sup = Vector::<T>::new(n, T::zero());\n        self.n = n;", "invariant/resize")
seed("c05-conj-main-unconj", "C05", TR, "        let main = self.main.conj();", "        let main = self.main.clone();", "operators/conj")
seed("c19-apply-axes-swapped", "C19", ME2, "                self.vars[ i * self.ny + j ][ var ] = func( x, y );", "                self.vars[ i * self.ny + j ][ var ] = func( y, x );", "assign-apply/apply")
seed("c19-assign-skips-var0", "C19", ME2, "                for v in 0..self.nvars {\n                    self.vars[ i * self.ny + j ][ v ] = element.clone();", "                for v in 1..self.nvars {\n                    self.vars[ i * self.ny + j ][ v ] = element.clone();", "assign-apply/assign")

# ---------------------------------------------------------------- more neutral edits
seed("n-c08-println-in-loop", "C08", SP, "            resid = r.norm_2() / normb;\n            if resid <= tol {\n                if self.true_residual( b, x, normb ) <= tol { return Ok( i ); }\n                return self.solve_cg(", "            resid = r.norm_2() / normb;\n            println!( \"cg iteration {} residual {}\", i, resid );\n            if resid <= tol {\n                if self.true_residual( b, x, normb ) <= tol { return Ok( i ); }\n                return self.solve_cg(", "SILENT", "logging")
seed("n-c20-panic-message", "C20", ARI, 'panic!( "Matrix dimensions do not agree (*)." );', 'panic!( "Matrix product: inner dimensions differ ({} vs {}).", self.cols, mul.rows );', "SILENT", "message text")
seed("n-c03-extra-guard", "C03", ARI, '        if self.cols != mul.rows { panic!( "Matrix dimensions do not agree (*)." ); }', '        if self.cols != mul.rows { panic!( "Matrix dimensions do not agree (*)." ); }\n        if self.rows == usize::MAX { panic!( "too large" ); }', "SILENT", "an additional defensive guard")
seed("n-c15-new-helper-fn", "C15", VFN, "    /// Return the sum of all the elements in the vector\n    #[inline]\n    pub fn sum(&self) -> T {", "    /// Return true if the vector has no elements\n    #[inline]\n    pub fn is_empty(&self) -> bool {\n        self.size() == 0\n    }\n\n    /// Return the sum of all the elements in the vector\n    #[inline]\n    pub fn sum(&self) -> T {", "SILENT", "an added unrelated method")
seed("n-c13-block-wrap", "C13", CM, "        self.real += rhs.real;\n        self.imag += rhs.imag;", "        { self.real += rhs.real; }\n        { self.imag += rhs.imag; }", "SILENT", "extra blocks")
seed("n-c02-let-reorder", "C02", SV, "        let mut det = T::one();\n        let mut temp = self.clone();", "        let mut temp = self.clone();\n        let mut det = T::one();", "SILENT", "reordering independent lets")
seed("n-c17-tol-local", "C17", NW, """            let dx = func(current) / deriv;
            current -= dx;
            if dx.abs() <= self.tol {
                return Ok( current );
            }
        }
        Err( current ) 
    }
}

impl Newton<Cmplx> {""", """            let dx = func(current) / deriv;
            current -= dx;
            let tolerance = self.tol;
            if dx.abs() <= tolerance {
                return Ok( current );
            }
        }
        Err( current ) 
    }
}

impl Newton<Cmplx> {""", "SILENT", "a local alias for self.tol")
seed("n-c10-comment-and-const", "C10", PM, "        const MR: usize = 8;\n        const MT: usize = 10;", "        const MT: usize = 10;\n        const MR: usize = 8; // fractional steps", "SILENT", "reordered constants")
seed("n-c19-dx-inline", "C19", ME1, "            let dx = self.nodes[ node + 1 ] - self.nodes[ node ];\n            sum += 0.5 * dx * ( self.vars[ node ][ var ] ", "            sum += 0.5 * ( self.nodes[ node + 1 ] - self.nodes[ node ] ) * ( self.vars[ node ][ var ] ", "SILENT", "inlined let")
seed("n-c06-walk-var-rename", "C06", SP, "        for j in 0..self.cols {\n            for k in self.col_start[ j ]..self.col_start[ j + 1 ] {\n                triplets.push( ( self.row_index[ k ], j, self.val[ k ] ) );", "        for col in 0..self.cols {\n            for p in self.col_start[ col ]..self.col_start[ col + 1 ] {\n                triplets.push( ( self.row_index[ p ], col, self.val[ p ] ) );", "SILENT", "renamed loop variables")
seed("n-c11-degree-let", "C11", PM, "        let degree = self.degree().unwrap(); //TODO unwrap\n        let mut p = self.coeffs[ degree ];", "        let degree = self.coeffs.len() - 1;\n        let mut p = self.coeffs[ degree ];", "SILENT", "degree().unwrap() <-> len()-1")
seed("n-c04-index-let", "C04", BD, "        //&self.compact[ i ][ self.m1 + j - i ]\n        &self.compact[ (i, self.m1 + j - i) ]", "        let col = self.m1 + j - i;\n        &self.compact[ (i, col) ]", "SILENT", "let for the compact column")

seed("c10-cardano-lexicographic-sign", "C10", PM, "let base = if ( d1.conj() * sqrt ).real < 0.0 { d1 - sqrt } else { d1 + sqrt } / 2.;", "let base = if d1 < Cmplx::zero() { d1 - sqrt } else { d1 + sqrt } / 2.;", "magnitude", "the original defect")

# ---------------------------------------------------------------- empty containers (findings 10-12)
PM_ = "src/polynomial/mod.rs"
seed("c11-eval-empty-guard-removed", "C11", PM_, "        if self.coeffs.is_empty() { return T::zero(); } // the empty polynomial is the zero polynomial\n", "", "empty-safe/polynomial::Polynomial<T>::eval", "the original defect")
seed("c11-derivative-empty-guard-removed", "C11", PM_, "        if self.coeffs.is_empty() { return p; } // the derivative of the zero polynomial is the zero polynomial\n", "", "empty-safe/polynomial::Polynomial<T>::derivative", "the original defect")
seed("c11-trim-empty-guard-removed", "C11", PM_, "        if self.coeffs.is_empty() { return; } // nothing to trim\n", "", "empty-safe/polynomial::Polynomial<T>::trim", "the original defect")
seed("c11-eval-empty-guard-inverted", "C11", PM_, "        if self.coeffs.is_empty() { return T::zero(); } // the empty", "        if !self.coeffs.is_empty() { return T::zero(); } // the empty", "empty-safe/polynomial::Polynomial<T>::eval")
VF_ = "src/vector/functions.rs"
seed("c15-sum-empty-guard-removed", "C15", VF_, "        if self.size() == 0 { return T::zero(); } // the empty sum\n", "", "empty-safe/vector::Vector<T>::sum", "the original defect")
seed("c15-product-empty-guard-removed", "C15", VF_, "        if self.size() == 0 { return T::one(); } // the empty product\n", "", "empty-safe/vector::Vector<T>::product", "the original defect")
seed("c15-find-underflow", "C15", VF_, "None => self.size().saturating_sub( 1 ),", "None => self.size() - 1,", "empty-safe/vector::Vector<T>::find", "the original defect")
seed("c15-norm-inf-from-first", "C15", "src/vector/vec_f64.rs", "        let mut result: f64 = 0.0; // the norm of the empty vector\n        for i in 0..self.size() {", "        let mut result: f64 = self.vec[0].abs();\n        for i in 1..self.size() {", "empty-safe/vector::Vector<f64>::norm_inf", "the original defect")
seed("c17-norm-inf-nan-skipped", "C17", "src/vector/vec_f64.rs", "            if a.is_nan() || result < a {", "            if result < a {", "residual-norm/f64", "the original defect")
seed("c17-norm-inf-nan-skipped-cmplx", "C17", "src/vector/vec_cmplx.rs", "            if a.is_nan() || result < a {", "            if result < a {", "residual-norm/Cmplx", "the original defect")
seed("c15-norm-inf-nan-wrong-operand", "C15", "src/vector/vec_f64.rs", "            if a.is_nan() || result < a {", "            if result.is_nan() || result < a {", "abs-norms/norm_inf/f64", "tests the accumulator, not the candidate: a NaN candidate is still skipped")
seed("c04-zero-pivot-unguarded", "C04", BD, "                dum = if au[(k, 0)] == T::zero() { T::zero() } else { au[(i, 0)] / au[(k, 0)] };", "                dum = au[(i, 0)] / au[(k, 0)];", "zero-pivot/decompose", "the original defect")
seed("c04-zero-pivot-guard-wrong-element", "C04", BD, "                dum = if au[(k, 0)] == T::zero() { T::zero() } else { au[(i, 0)] / au[(k, 0)] };", "                dum = if au[(i, 0)] == T::zero() { T::zero() } else { au[(i, 0)] / au[(k, 0)] };", "zero-pivot/decompose", "tests the numerator")
seed("c20-xsection-guard-removed", "C20", ME2, '        if nodex >= self.nx { panic!( "Mesh2D error: cross_section_xnode range error." ); }\n', "", "reject-via/mesh2d::Mesh2D<T>::cross_section_xnode", "the original defect")
seed("c20-xsection-guard-wrong-dim", "C20", ME2, '        if nodex >= self.nx { panic!( "Mesh2D error: cross_section_xnode range error." ); }', '        if nodex >= self.ny { panic!( "Mesh2D error: cross_section_xnode range error." ); }', "reject-via/mesh2d::Mesh2D<T>::cross_section_xnode")
seed("c20-trapezium-var-guard-removed", "C20", ME2, '        if var >= self.nvars { panic!( "Mesh2D trapezium: index larger than # variables." ); }\n', "", "reject/mesh2d::Mesh2D<f64>::trapezium/var", "the original defect")
seed("c20-mesh1d-trapezium-var-guard-removed", "C20", "src/mesh1d.rs", '        if var >= self.nvars { panic!( "Mesh1D trapezium: index larger than # variables." ); }\n', "", "reject/mesh1d::Mesh1D<f64, f64>::trapezium/var", "the original defect")
seed("c03-normp-inf-unhandled", "C03", "src/matrix/functions.rs", "        if p.is_infinite() { return self.norm_max(); } // the limit p -> inf ( the formula below gives 1 for every matrix )\n", "", "norm-orientation/norm_p/inf", "the original defect")
seed("c03-normp-inf-wrong-norm", "C03", "src/matrix/functions.rs", "        if p.is_infinite() { return self.norm_max(); }", "        if p.is_infinite() { return self.norm_inf(); }", "norm-orientation/norm_p/inf", "norm_inf is the max row sum, not the entrywise max")

# ---------------------------------------------------------------- C09 breakdown-free
seed("c09-cg-indefinite-divisor", "C09", SP, "            alpha = rho / p.dot( &q );", "            alpha = rho / z.dot( &q );", "breakdown-free/solve_cg/inner-product#1")
seed("c09-bicgstab-new-indefinite", "C09", SP, "            omega = t.dot( &s ) / t.dot( &t );", "            omega = t.dot( &s ) / t.dot( &shat );", "breakdown-free/solve_bicgstab/inner-product#4")
seed("n-c09-cg-dot-commuted", "C09", SP, "            alpha = rho / p.dot( &q );", "            alpha = rho / q.dot( &p );", "SILENT", "neutral: the inner product is symmetric")
seed("n-c09-bicgstab-dots-named", "C09", SP, "            omega = t.dot( &s ) / t.dot( &t );", "            let ts = t.dot( &s );\n            let tt = t.dot( &t );\n            omega = ts / tt;", "SILENT", "neutral: naming the two inner products")
seed("c09-cg-stale-rho", "C09", SP, """                return self.solve_cg( b, x, max_iter - i, tol ).map( |k| k + i );
            }
            rho_1 = rho;""", """                return self.solve_cg( b, x, max_iter - i, tol ).map( |k| k + i );
            }
            if i == 1 { rho_1 = rho; }""", "carried/solve_cg")
seed("c09-bicgstab-omega-one-arm", "C09", SP, "            omega = t.dot( &s ) / t.dot( &t );", "            if i > 1 { omega = t.dot( &s ) / t.dot( &t ); }", "carried/solve_bicgstab")
seed("n-c09-cg-rho-early", "C09", SP, """            alpha = rho / p.dot( &q );""", """            alpha = rho / p.dot( &q );
            rho_1 = rho;""", "SILENT", "neutral: the carried scalar refreshed earlier in the iteration as well (it is not read again before the end)")

# ---------------------------------------------------------------- C08/C09 restart (finding 25)
seed("c09-cg-continue-unconfirmed", "C09", SP, """            if resid <= tol {
                if self.true_residual( b, x, normb ) <= tol { return Ok( i ); }
                return self.solve_cg( b, x, max_iter - i, tol ).map( |k| k + i );
            }
            rho_1 = rho;""", """            if resid <= tol && self.true_residual( b, x, normb ) <= tol { return Ok( i ); }
            rho_1 = rho;""", "recurrence-not-continued/solve_cg#1", "the original defect (finding 25)")
seed("c08-cg-restart-full-budget", "C08", SP, "                return self.solve_cg( b, x, max_iter - i, tol ).map( |k| k + i );", "                return self.solve_cg( b, x, max_iter, tol ).map( |k| k + i );", "restart/solve_cg#1")
seed("c08-qmr-restart-count-dropped", "C08", SP, "                return self.solve_qmr( b, x, max_iter - i, tol ).map( |k| k + i );", "                return self.solve_qmr( b, x, max_iter - i, tol );", "restart/solve_qmr#1")
seed("c09-bicg-err-instead-of-restart", "C09", SP, "                return self.solve_bicg( b, x, max_iter - iter, tol, itol ).map( |k| k + iter );", "                return Err( err );", "unconfirmed-restarts/solve_bicg#1")

# ---------------------------------------------------------------- rules added for the round-5 / round-6 mutants
seed("c03-delete-row-clears", "C03", OPS, "        self.rows -= 1;\n    }", "        self.rows -= 1;\n        if self.mat.is_empty() { self.clear(); }\n    }", "edit/frame/delete_row")
seed("c03-norm-inf-row-shortcut", "C03", FUN, "    pub fn norm_inf(&self) -> f64 {\n        let mut result: f64 = 0.0;", "    pub fn norm_inf(&self) -> f64 {\n        if self.rows == 1 { return self.norm_max(); }\n        let mut result: f64 = 0.0;", "norm-orientation/norm_inf/shortcut")
seed("n-c03-norm-inf-col-shortcut", "C03", FUN, "    pub fn norm_inf(&self) -> f64 {\n        let mut result: f64 = 0.0;", "    pub fn norm_inf(&self) -> f64 {\n        if self.cols == 1 { return self.norm_max(); }\n        let mut result: f64 = 0.0;", "SILENT", "neutral: with one column every row sum is one entry")
seed("c06-scale-zero-shortcut", "C06", SP, "    pub fn scale( &mut self, value: &T ) {\n", "    pub fn scale( &mut self, value: &T ) {\n        if *value == T::zero() { return; }\n", "scale/shortcut")
seed("n-c06-scale-one-shortcut", "C06", SP, "    pub fn scale( &mut self, value: &T ) {\n", "    pub fn scale( &mut self, value: &T ) {\n        if *value == T::one() { return; }\n", "SILENT", "neutral: scaling by one changes nothing")
seed("c06-triplets-dedup", "C06", SP, "        triplets.sort_by_key( |triplet| triplet.1 ); // Sort by column first \n", "        triplets.sort_by_key( |triplet| triplet.1 ); // Sort by column first \n        triplets.dedup_by_key( |triplet| triplet.1 );\n", "lengths/from_triplets/keeps-all")
seed("c06-sort-conditional", "C06", SP, "        triplets.sort_by_key( |triplet| triplet.1 ); // Sort by column first \n", "        if triplets.len() > 2 { triplets.sort_by_key( |triplet| triplet.1 ); }\n", "lengths/from_triplets-sort")
seed("c04-det-skips-decompose", "C04", BD, "        self.decompose( &mut au, &mut al, &mut index, &mut d );\n        let mut dd = d.clone();", "        if self.m1 > 0 { self.decompose( &mut au, &mut al, &mut index, &mut d ); } else { d = T::one(); }\n        let mut dd = d.clone();", "det")
seed("c04-al-m2-columns", "C04", BD, "        let mut al = Matrix::new( self.n, self.m1, T::zero() );\n        let mut index = Vector::new( self.n, 0 );\n        let mut d = T::zero();\n        self.decompose( &mut au, &mut al, &mut index, &mut d );\n        let mut dd", "        let mut al = Matrix::new( self.n, self.m2, T::zero() );\n        let mut index = Vector::new( self.n, 0 );\n        let mut d = T::zero();\n        self.decompose( &mut au, &mut al, &mut index, &mut d );\n        let mut dd", "workspace/det")
seed("c04-resize-early-return", "C04", BD, "    pub fn resize(&mut self, n: usize, m1: usize, m2: usize) {\n", "    pub fn resize(&mut self, n: usize, m1: usize, m2: usize) {\n        if n == self.n && m1 + m2 == self.m1 + self.m2 { return; }\n", "shape/resize/every-path")
seed("c11-derivative-at-shortcut", "C11", PM, "        let p = self.derivative_n( n );\n        p.eval( x )", "        if self.coeffs.len() <= 1 { return T::zero(); }\n        let p = self.derivative_n( n );\n        p.eval( x )", "derivative_at")
seed("c12-extra-refusal", "C12", PA, "        if v.is_zero() { return Err( \"Polynomial.polydiv() divide by zero polynomial\" ); }\n", "        if v.is_zero() { return Err( \"Polynomial.polydiv() divide by zero polynomial\" ); }\n        if v.coeffs[ 0 ] == T::zero() { return Err( \"Polynomial.polydiv() divide by zero polynomial\" ); }\n", "zero-divisor/only")
seed("c19-output-no-truncate", "C19", ME1, "        let mut f = File::create(filename).expect(\"Unable to create file\");", "        let mut f = std::fs::OpenOptions::new().write( true ).create( true ).open( filename ).expect(\"Unable to create file\");", "io-truncates")
seed("n-c19-output-truncate", "C19", ME1, "        let mut f = File::create(filename).expect(\"Unable to create file\");", "        let mut f = std::fs::OpenOptions::new().write( true ).create( true ).truncate( true ).open( filename ).expect(\"Unable to create file\");", "SILENT", "neutral: the same open mode spelled out")
seed("c10-laguer-lost-else", "C10", PM, "            if iter % MT != 0 { *x = x1; } else { *x -= dx * frac[ iter / MT ]; }", "            if iter % MT == 0 { *x -= dx * frac[ iter / MT ]; }\n            *x = x1;", "no-dead-store")
seed("c10-triple-root-c", "C10", PM, "            roots[0] = -b / ( 3. * a );", "            roots[0] = -c / ( 3. * a );", "cardano-branch/value")
seed("c10-quadratic-no-conj", "C10", PM, "        let mut sgn: f64 = ( b.conj() * discriminant.sqrt() ).real;", "        let mut sgn: f64 = ( b * discriminant.sqrt() ).real;", "quadratic-sign")
seed("c15-norm-p-rejects-one", "C15", VF, "    pub fn norm_p(&self, p: f64 ) -> f64 {\n", "    pub fn norm_p(&self, p: f64 ) -> f64 {\n        if !( p > 1.0 ) { panic!( \"Vector norm_p: the exponent must be at least 1.\" ); }\n", "abs-norms/norm_p/domain")
seed("n-c15-norm-p-rejects-below-one", "C15", VF, "    pub fn norm_p(&self, p: f64 ) -> f64 {\n", "    pub fn norm_p(&self, p: f64 ) -> f64 {\n        if p < 1.0 { panic!( \"Vector norm_p: the exponent must be at least 1.\" ); }\n", "SILENT", "neutral inside the property's exponent domain [1, 8]")

# ---------------------------------------------------------------- C09 iteration map / failure exits (reference comparison)
seed("c09-cg-beta-inverted", "C09", SP, "                beta = rho / rho_1;", "                beta = rho_1 / rho;", "iteration-map/solve_cg")
seed("c09-cg-alpha-qq", "C09", SP, "            alpha = rho / p.dot( &q );", "            alpha = rho / q.dot( &q );", "iteration-map/solve_cg")
seed("c09-bicg-shadow-direction-sign", "C09", SP, "                pp = zz.clone() + pp * beta;", "                pp = zz.clone() - pp * beta;", "iteration-map/solve_bicg")
seed("c09-bicgstab-omega-ss", "C09", SP, "            omega = t.dot( &s ) / t.dot( &t );", "            omega = t.dot( &s ) / s.dot( &s );", "iteration-map/solve_bicgstab")
seed("c09-bicgstab-beta-no-ratio", "C09", SP, "                beta = ( rho_1 / rho_2 ) * ( alpha / omega );", "                beta = ( rho_1 / rho_2 ) * ( omega / alpha );", "iteration-map/solve_bicgstab")
seed("c09-qmr-eta-gamma1", "C09", SP, "            eta = -eta * rho_1 * gamma * gamma / ( beta * gamma_1 * gamma_1 );", "            eta = -eta * rho_1 * gamma * gamma / ( beta * gamma_1 );", "iteration-map/solve_qmr")
seed("c09-qmr-shadow-from-b", "C09", SP, "        w_tld = r.clone();", "        w_tld = b.clone();", "iteration-map/solve_qmr")
seed("c09-qmr-eta-start", "C09", SP, "        eta = -1.0;", "        eta = 1.0;", "iteration-map/solve_qmr")
seed("c09-qmr-q-uses-xi", "C09", SP, "                q = z_tld - ( rho * delta / ep ) * q;", "                q = z_tld - ( xi * delta / ep ) * q;", "iteration-map/solve_qmr")
seed("c09-qmr-early-breakdown-exit", "C09", SP, """            rho = y.norm_2();
""", """            rho = y.norm_2();
            if rho == 0.0 { return Err( resid ); }
""", "failure-exits/solve_qmr#1")
seed("n-c09-qmr-exits-joined", "C09", SP, """            if rho == 0.0 { return Err( resid ); }
            if xi == 0.0 { return Err( resid ); }
""", """            if rho == 0.0 || xi == 0.0 { return Err( resid ); }
""", "SILENT", "neutral: the two breakdown tests of the loop top joined")
seed("n-c09-qmr-eta-regrouped", "C09", SP, "            eta = -eta * rho_1 * gamma * gamma / ( beta * gamma_1 * gamma_1 );", "            eta = -( eta * rho_1 / beta ) * ( gamma / gamma_1 ) * ( gamma / gamma_1 );", "SILENT", "neutral: the same rational function, regrouped")
seed("n-c09-cg-beta-named", "C09", SP, "                beta = rho / rho_1;\n                p = z.clone() + p.clone() * beta;", "                p = z.clone() + p.clone() * ( rho / rho_1 );", "SILENT", "neutral: beta inlined")

# ---------------------------------------------------------------- rules added for the round-7 mutants
seed("c01-singular-guard", "C01", SV, '        if self.rows != b.size() { panic!( "solve_basic error: rows != b.size()" ); }',
     '        if self.rows != b.size() { panic!( "solve_basic error: rows != b.size()" ); }\n        if self.determinant() == T::zero() { panic!( "solve_basic error: matrix is singular" ); }',
     "rejects-only-shapes/solve_basic")
seed("n-c01-asserts", "C01", SV, '        if self.rows != b.size() { panic!( "solve_basic error: rows != b.size()" ); }',
     '        assert_eq!( self.rows, b.size(), "solve_basic error: rows != b.size()" );', "SILENT", "neutral: the shape check as assert_eq!")
seed("c12-early-ok-le", "C12", PA, "        let mut r = self.clone();\n        const MAX", "        let mut r = self.clone();\n        if self.size() <= v.size() { return Ok( ( q, r ) ); }\n        const MAX", "early-ok")
seed("n-c12-early-ok-lt", "C12", PA, "        let mut r = self.clone();\n        const MAX", "        let mut r = self.clone();\n        if self.size() < v.size() { return Ok( ( q, r ) ); }\n        const MAX", "SILENT",
     "neutral: deg u < deg v leaves nothing to eliminate")
seed("c16-aliased-fast-path", "C16", VF, '        if self.size() != w.size() { panic!( "Vector sizes do not agree dot()." ); }\n        let num_threads = num_cpus::get();',
     '        if self.size() != w.size() { panic!( "Vector sizes do not agree dot()." ); }\n        if std::ptr::eq( self, w ) { return self.norm_2().powi( 2 ); }\n        let num_threads = num_cpus::get();', "no-fast-path")
seed("n-c16-empty-return", "C16", VF, '        if self.size() != w.size() { panic!( "Vector sizes do not agree dot()." ); }\n        let num_threads = num_cpus::get();',
     '        if self.size() != w.size() { panic!( "Vector sizes do not agree dot()." ); }\n        if self.size() == 0 { return 0.0; }\n        let num_threads = num_cpus::get();', "SILENT", "neutral: the empty sum")
seed("c10-laguer-absolute-stop", "C10", PM, "            if b.abs() <= err { return; }", "            if b.abs() <= err { return; }\n            if b.abs() < EPS { return; }", "scale-free-stops/laguer")
seed("c19-output-no-blank", "C19", ME1, '            write!( f, "{number:.prec$} ", prec = precision, number = self.nodes[ i ] ).unwrap();',
     '            write!( f, "{number:>12.prec$}", prec = precision, number = self.nodes[ i ] ).unwrap();', "io-separated")
seed("n-c19-output-tab", "C19", ME1, '                write!( f, "{number:.prec$} ", prec = precision, number = self.vars[ i ][ var ] ).unwrap();',
     '                write!( f, "{number:.prec$}\\t", prec = precision, number = self.vars[ i ][ var ] ).unwrap();', "SILENT", "neutral: a tab is white space too")
seed("c05-pivot-threshold-panic", "C05", TR, '            if beta == T::zero() { panic!( "Tridiagonal error: zero pivot." ); }',
     '            if beta == T::zero() { panic!( "Tridiagonal error: zero pivot." ); }\n            if beta * beta == gamma[j] { panic!( "Tridiagonal error: degenerate pivot." ); }', "rejects-only-shapes/solve")
seed("c04-det-guard-in-solve", "C04", BD, "        // LU decomposition\n        let mut au = self.compact.clone();",
     '        if self.det() == T::zero() { panic!( "Banded matrix solve error: singular matrix." ); }\n        // LU decomposition\n        let mut au = self.compact.clone();', "rejects-only-shapes/solve")
seed("c10-newton-by-second-derivative", "C10", PM, "            if b.abs() <= err { return; }", "            if b.abs() <= err { return; }\n            let _newton = *x - b / f;", "newton-correction")
seed("n-c10-newton-by-first-derivative", "C10", PM, "            if b.abs() <= err { return; }", "            if b.abs() <= err { return; }\n            let _newton = if d.abs() > 0.0 { *x - b / d } else { *x };", "SILENT", "neutral: the value over the first derivative is Newton's step")
_TRIM_OLD = """        if self.coeffs.is_empty() { return; } // nothing to trim
        let mut i = self.coeffs.len() - 1;
        while self.coeffs[ i ] == T::zero() && i > 0 {
            self.coeffs.pop();
            i -= 1;
        }"""
seed("n-c11-trim-rposition", "C11", PM, _TRIM_OLD, """        let keep = match self.coeffs.iter().rposition( |c| !( *c == T::zero() ) ) {
            Some( top ) => top + 1,
            None => 1,
        };
        self.coeffs.truncate( keep );""", "SILENT", "neutral: the search form of trim")
seed("c11-trim-rposition-drops-constant", "C11", PM, _TRIM_OLD, """        let keep = match self.coeffs.iter().rposition( |c| !( *c == T::zero() ) ) {
            Some( top ) => top + 1,
            None => 0,
        };
        self.coeffs.truncate( keep );""", "trim")
seed("c06-from-vecs-strictly-increasing", "C06", SP, "        //TODO check that the vectors are the correct length val.len() == row_index.len()\n        Self {",
     '        if col_start.windows( 2 ).any( |w| w[ 0 ] >= w[ 1 ] ) { panic!( "Sparse matrix from_vecs: col_start must be increasing." ); }\n        Self {', "accepts-empty-columns")
seed("n-c06-from-vecs-non-decreasing", "C06", SP, "        //TODO check that the vectors are the correct length val.len() == row_index.len()\n        Self {",
     '        if col_start.windows( 2 ).any( |w| w[ 0 ] > w[ 1 ] ) { panic!( "Sparse matrix from_vecs: col_start must not decrease." ); }\n        Self {', "SILENT",
     "neutral on well-formed input: only decreasing column starts are refused")

# ---------------------------------------------------------------- rules added for the round-8 mutants (conditional paths added to intact routines)
seed("c03-matmul-skip-zero-sum-columns", "C03", ARI, "            result.set_col( col, self.multiply( &mul.get_col( col ) ) );",
     "            let column = mul.get_col( col );\n            if column.sum() != T::zero() { result.set_col( col, self.multiply( &column ) ); }", "product/matmul")
seed("c03-transpose-empty-return", "C03", OPS, "    pub fn transpose_in_place(&mut self) {\n        if self.rows == self.cols {",
     "    pub fn transpose_in_place(&mut self) {\n        if self.mat.is_empty() { return; }\n        if self.rows == self.cols {", "transpose_in_place/every-path")
seed("c06-from-triplets-empty-special-case", "C06", SP, "        triplets.sort_by_key( |triplet| triplet.1 ); // Sort by column first",
     "        if triplets.is_empty() { return Self::from_vecs( rows, cols, vec![], vec![], vec![ 0; cols.max( 1 ) ] ); }\n        triplets.sort_by_key( |triplet| triplet.1 ); // Sort by column first",
     "from_triplets/early-return")
seed("n-c06-from-triplets-empty-well-formed", "C06", SP, "        triplets.sort_by_key( |triplet| triplet.1 ); // Sort by column first",
     "        if triplets.is_empty() { return Self::from_vecs( rows, cols, vec![], vec![], vec![ 0; cols + 1 ] ); }\n        triplets.sort_by_key( |triplet| triplet.1 ); // Sort by column first",
     "SILENT", "neutral: the empty matrix built directly, with cols + 1 column starts")
seed("c19-trapezium2d-one-cell-dropped", "C19", ME2, '        if var >= self.nvars { panic!( "Mesh2D trapezium: index larger than # variables." ); }\n        let mut sum: f64 = 0.0;',
     '        if var >= self.nvars { panic!( "Mesh2D trapezium: index larger than # variables." ); }\n        if self.nx <= 2 || self.ny <= 2 { return 0.0; }\n        let mut sum: f64 = 0.0;', "quadrature-early-return/trapezium")
seed("n-c19-trapezium2d-no-cell", "C19", ME2, '        if var >= self.nvars { panic!( "Mesh2D trapezium: index larger than # variables." ); }\n        let mut sum: f64 = 0.0;',
     '        if var >= self.nvars { panic!( "Mesh2D trapezium: index larger than # variables." ); }\n        if self.nx < 2 || self.ny < 2 { return 0.0; }\n        let mut sum: f64 = 0.0;', "SILENT",
     "neutral: the empty sum for a mesh without a cell (the loops would not run; for nx = 0 the original wraps around and panics on the first access, outside the property's grids)")
seed("c12-polydiv-noise-break", "C12", PA, "            q = q + t.clone();", "            if !q.is_zero() && q.coeffs[ 0 ] + t.coeffs[ 0 ] == q.coeffs[ 0 ] { break; }\n            q = q + t.clone();", "exit/no-other")
