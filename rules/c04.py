"""C04 — a banded matrix behaves like the dense matrix with the same band."""
from .pdb import strip, walk, loc, ancestors
from .terms import Ctx, num, show, lin_add, lin_sub, lin_scale
from .common import is_zero_term
from .common import (P, F, SIZE, GT, effects, callee_path, call_args, find_argmax, effective_guards, entry_guards, forwards_to,
                     ctor_summary, in_macro, OP_OF_TRAIT, single_expr_body, _resolve, is_abs_term, facts_x, subst_term, reachable_fns,
                     ordered_cmps_on_elements, NE)
from .guards import facts, prove_ge0, prove_lt, prove_le, cond_atoms
from .guards import for_range as raw_for_range
from .common import for_range_total as for_range
from .c01 import rule_magnitude

LEVEL = "other"
B = "banded::Banded<T>"
N, M1, M2, COMPACT = F(P(0), "n"), F(P(0), "m1"), F(P(0), "m2"), F(P(0), "compact")
MM = lin_add(lin_add(M1, M2), num(1))


def rule_forward_window(rep, pdb):
    """Banded::solve, forward substitution: row k reaches rows k+1 .. min(k + m1, n - 1), the rows the factorisation stored multipliers for."""
    from .common import value_before
    fn = pdb.fn("%s::solve" % B)
    rule = ("in solve the forward substitution `x[j] -= al[(k, j-k-1)] * x[k]` runs j over k+1..l where l starts at m1 (the number of sub-diagonals, the width of the multiplier "
            "matrix) and grows by one per row up to n: started at m2 it skips multipliers (m2 < m1) or reads past the stored ones (m2 > m1)")
    if fn is None:
        rep.missing("solve/forward-window", rule, "solve not found")
        return
    ctx = Ctx.for_fn(pdb, fn)
    ups = [e for e in effects(pdb, ctx) if e.kind == "upd" and e.op == "-=" and len(e.loops) == 2 and "idx" in repr(e.value) and not raw_for_range(ctx, e.loops[0])[4]]
    ok, det = len(ups) == 1, "forward updates found: %d" % len(ups)
    if ok:
        e = ups[0]
        ri = raw_for_range(ctx, e.loops[1])
        hi = ri[2] if ri else None
        start = value_before(ctx, hi, e.loops[0]) if hi is not None and hi[0] == "var" else None
        ok = start == M1
        det = "inner range %s..%s, the bound starts at %s" % (show(ri[1], ctx) if ri else None, show(hi, ctx) if hi is not None else None, show(start, ctx) if start is not None else None)
    rep.add("solve/forward-window", rule, ok, ups[0].node if ups else fn["body"], det)


def run(rep, pdb, tier):
    rule_forward_window(rep, pdb)
    # ---- the solvers answer for every nonsingular system: their own panics depend on shapes (or an exactly-zero pivot) only
    from .c01 import rule_rejects_only_shapes
    rule_rejects_only_shapes(rep, pdb, [f_ for f_ in (pdb.fn("%s::%s" % (B, n_)) for n_ in ('decompose', 'solve', 'det')) if f_ is not None], floor=1)
    # ---- index map (S, L)
    maps = []
    for tr, name in (("std::ops::Index", "index"), ("std::ops::IndexMut", "index_mut")):
        path = "<%s as %s<(usize, usize)>>::%s" % (B, tr, name)
        fn = pdb.fn(path)
        key = "index-map/%s" % name
        rule = "in-band guard then compact index (i, m1 + j - i); with the negated guard 0 <= m1+j-i <= m1+m2 (single-fact linear entailment)"
        if fn is None:
            rep.missing(key, rule, "function %s not found" % path)
            continue
        ctx = Ctx.for_fn(pdb, fn)
        i, j = F(P(1), "0"), F(P(1), "1")
        eff = effective_guards(pdb, fn)
        g_ok = GT(j, lin_add(i, M2)) in eff and GT(i, lin_add(j, M1)) in eff
        idxs = [n for n in walk(fn["body"]) if n.get("k") == "Index" and not in_macro(n)]
        ok, det = len(idxs) == 1 and g_ok, "index sites=%d guards=%s" % (len(idxs), g_ok)
        if ok:
            n = idxs[0]
            bt, it = ctx.term(n["base"]), ctx.term(n["idx"])
            col = lin_sub(lin_add(M1, j), i)
            shape = bt == COMPACT and it == ("tup", i, col)
            fs = facts(ctx, n)
            lo = prove_ge0(col, fs, nonneg_atoms=False)
            hi = prove_le(col, lin_add(M1, M2), fs) if True else False
            hi = prove_ge0(lin_sub(lin_add(M1, M2), col), fs, nonneg_atoms=False)
            ok = shape and lo and hi
            det = "compact[(i, m1+j-i)]=%s 0<=col=%s col<=m1+m2=%s" % (shape, lo, hi)
            maps.append((it, frozenset(eff)))
        rep.add(key, rule, ok, fn["body"], det, where=loc(fn["body"]), proof=True)
    rep.add("index-map/agree", "Index and IndexMut use the same guard and the same compact index", len(maps) == 2 and maps[0] == maps[1], None, "", where="src/banded.rs")
    # ---- layout (T)
    fn = pdb.fn("%s::new" % B)
    rule = "struct invariant: compact is n x (m1+m2+1)"
    if fn is None:
        rep.missing("layout/new", rule, "function not found")
    else:
        summ = ctor_summary(pdb, fn)
        c = summ.get("compact") if summ else None
        ok = summ is not None and summ.get("n") == P(0) and summ.get("m1") == P(1) and summ.get("m2") == P(2) and c is not None and c[0] == "call" and \
            str(c[1]).endswith("Matrix<T>::new") and c[2] == P(0) and c[3] == lin_add(lin_add(P(1), P(2)), num(1)) and c[4] == P(3)
        rep.add("layout/new", rule + " established by new(n,m1,m2,value)", ok, fn["body"], "", where=loc(fn["body"]))
    fn = pdb.fn("%s::resize" % B)
    if fn is None:
        rep.missing("layout/resize", rule, "function not found")
    else:
        ctx = Ctx.for_fn(pdb, fn)
        effs = effects(pdb, ctx)
        setf = {e.target: e.value for e in effs if e.kind == "assign"}
        calls = [n for n in walk(fn["body"]) if n.get("k") == "MethodCall" and callee_path(n) == "matrix::Matrix<T>::resize"]
        ok = setf.get(N) == P(1) and setf.get(M1) == P(2) and setf.get(M2) == P(3) and len(calls) == 1 and \
            [ctx.term(a) for a in call_args(calls[0])] == [COMPACT, P(1), lin_add(lin_add(P(2), P(3)), num(1))]
        rep.add("layout/resize", rule + " re-established by resize", ok, fn["body"], "", where=loc(fn["body"]))
        from .common import rule_no_skipping_return
        rule_no_skipping_return(rep, pdb, fn, "shape/resize/every-path", what="the layout update")
    # operators preserve the layout and apply the trait's operator to compact
    n_ops = 0
    for fn in pdb.local_fns():
        tr = fn.get("impl_trait")
        from .common import involves_adt
        if not (fn["file"] == "src/banded.rs" or involves_adt(fn, "banded::Banded")) or tr not in OP_OF_TRAIT:
            continue
        st = fn["impl_self"]
        args = fn.get("impl_trait_args", [])
        rhs = args[1] if len(args) > 1 else None
        if rhs is not None and "Vector" in rhs:
            continue
        if forwards_to(pdb, fn) is not None and not tr.endswith("Assign"):
            continue   # consuming forms: C20/owned-equals-borrowed
        ctx = Ctx.for_fn(pdb, fn)
        key = "operators/%s" % fn["path"]
        rule = "the operator copies n, m1, m2 from self and applies the trait's own operator to the compact storages in operand order"
        want = OP_OF_TRAIT[tr]
        n_ops += 1
        if tr.endswith("Assign"):
            e = single_expr_body(fn)
            if forwards_to(pdb, fn) is not None and e is not None and e.get("k") == "AssignOp" and strip(e["l"]).get("k") == "Unary":
                continue   # `*self += &rhs` consuming form
            effs = [x for x in effects(pdb, ctx) if x.kind == "assignop"]
            ok = len(effs) == 1 and effs[0].target == COMPACT and effs[0].op.rstrip("=") == want and \
                effs[0].value in (P(1), F(P(1), "compact"))
            rep.add(key, rule, ok, fn["body"], "", where=loc(fn["body"]))
            continue
        summ = ctor_summary(pdb, fn)
        ok = summ is not None and summ.get("n") == N and summ.get("m1") == M1 and summ.get("m2") == M2
        c = summ.get("compact") if summ else None
        if want == "neg":
            okc = c == ("neg", COMPACT)
        elif rhs is not None and "Banded" in rhs:
            okc = c == ("op", want, COMPACT, F(P(1), "compact"))
        else:
            okc = c == ("op", want, COMPACT, P(1))
        rep.add(key, rule, ok and okc, fn["body"], "compact := %s" % (show(c, ctx) if c else None), where=loc(fn["body"]))
    # ---- fill_band (L)
    fn = pdb.fn("%s::fill_band" % B)
    rule = "fill_band: guard -m1 <= band <= m2 entails 0 <= m1+band <= m1+m2 for the compact column filled"
    if fn is None:
        rep.missing("fill-band", rule, "function not found")
    else:
        ctx = Ctx.for_fn(pdb, fn)
        calls = [n for n in walk(fn["body"]) if n.get("k") == "MethodCall" and callee_path(n) == "matrix::Matrix<T>::fill_col"]
        ok = len(calls) == 1
        det = ""
        if ok:
            c = calls[0]
            a = [ctx.term(x) for x in call_args(c)]
            col = lin_add(M1, P(1))
            fs = facts(ctx, c)
            lo = prove_ge0(col, fs, nonneg_atoms=False)
            hi = prove_ge0(lin_sub(lin_add(M1, M2), col), fs, nonneg_atoms=False)
            ok = a == [COMPACT, col, P(2)] and lo and hi
            det = "fill_col(m1+band)=%s lower=%s upper=%s" % (a[:2] == [COMPACT, col], lo, hi)
        rep.add("fill-band", rule, ok, fn["body"], det, where=loc(fn["body"]), proof=True)
    # ---- matvec window (L, K)
    path = "<&%s as std::ops::Mul<&vector::Vector<T>>>::mul" % B
    fn = pdb.fn(path)
    rule = "matvec: for row i the inner range entails 0 <= j < cols(compact) and 0 <= j+k < n (padding is never read); x is indexed by the true column j+k; result by the row i, accumulated positively"
    if fn is None:
        rep.missing("matvec-window", rule, "function not found")
    else:
        ctx = Ctx.for_fn(pdb, fn)
        effs = [e for e in effects(pdb, ctx) if e.kind == "upd"]
        ok, det = len(effs) == 1 and len(effs[0].loops) == 2, ""
        if ok:
            e = effs[0]
            ro, ri = for_range(ctx, e.loops[0]), for_range(ctx, e.loops[1])
            i, j = ro[0], ri[0]
            k = lin_sub(i, M1)
            v = e.value
            shape = e.op == "+=" and e.index == i and v == ("op", "*", ("idx", COMPACT, ("tup", i, j)), ("idx", P(1), lin_add(j, k))) and ro[1:4] == (num(0), N, False)
            tb = ctx.binds.get(e.target[1]) if e.target[0] == "var" else None
            it = ctx.term(tb.init) if tb is not None and tb.init is not None else None
            fresh = it is not None and it[0] == "call" and str(it[1]).endswith("Vector<T>::new") and it[2] == N and it[3][0] == "call" and str(it[3][1]).endswith("Zero::zero")
            fs = facts(ctx, e.node)

            def _cases(fs_):
                """a bound written as `if c { a } else { b }` (max / min spelled out): one fact set per branch"""
                for f_ in fs_:
                    if f_[0] == "cmp":
                        for side in (2, 3):
                            t_ = f_[side]
                            if isinstance(t_, tuple) and t_ and t_[0] == "ite" and len(t_) == 4 and t_[1][0] == "op" and t_[1][1] in ("<", "<=", ">", ">="):
                                c_ = t_[1]
                                pos = {"<": ("cmp", "<", c_[2], c_[3]), "<=": ("cmp", "<=", c_[2], c_[3]), ">": ("cmp", "<", c_[3], c_[2]), ">=": ("cmp", "<=", c_[3], c_[2])}[c_[1]]
                                neg = {"<": ("cmp", "<=", c_[3], c_[2]), "<=": ("cmp", "<", c_[3], c_[2]), ">": ("cmp", "<=", c_[2], c_[3]), ">=": ("cmp", "<", c_[2], c_[3])}[c_[1]]
                                rest = [x for x in fs_ if x is not f_]
                                mk = lambda v_: f_[:side] + (v_,) + f_[side + 1:]
                                # `if e < t { t } else { e }` is max(t, e) (`if t < e { t } else { e }` is min): a lower (upper) bound by it is a bound by both
                                lo_, hi_ = (c_[2], c_[3]) if c_[1] in ("<", "<=") else (c_[3], c_[2])      # lo_ < hi_ on the `then` branch
                                d_then_else = lin_sub(t_[2], t_[3])
                                is_max = d_then_else == lin_sub(hi_, lo_)          # then - else = hi - lo > 0: then is the larger
                                is_min = d_then_else == lin_sub(lo_, hi_)          # then - else = lo - hi < 0: then is the smaller
                                lower = (side == 2 and f_[1] in ("<", "<="))         # ite <= x
                                upper = (side == 3 and f_[1] in ("<", "<="))         # x < ite
                                if (is_max and lower) or (is_min and upper):
                                    return _cases(rest + [mk(t_[2]), mk(t_[3])])
                                return _cases(rest + [mk(t_[2]), pos]) + _cases(rest + [mk(t_[3]), neg])
                return [fs_]
            css = _cases(list(fs))
            o1 = all(prove_ge0(j, c_, nonneg_atoms=False) for c_ in css)
            o2 = all(prove_lt(j, MM, c_) for c_ in css)
            o3 = all(prove_ge0(lin_add(j, k), c_, nonneg_atoms=False) for c_ in css)
            o4 = all(prove_lt(lin_add(j, k), N, c_) for c_ in css)
            for nm, o in (("j>=0", o1), ("j<m1+m2+1", o2), ("j+k>=0", o3), ("j+k<n", o4)):
                rep.add("matvec-window/%s" % nm, "obligation discharged by single-fact linear entailment from the loop range", o, e.node, "", proof=True)
            ok = shape and fresh
            det = "result[i] += compact[(i,j)] * x[j+i-m1], i in 0..n: %s; result = zeros(n): %s" % (shape, fresh)
        rep.add("matvec-window", rule, ok, fn["body"], det, where=loc(fn["body"]))
    # ---- decompose: magnitude, argmax, exchange pair
    dec = pdb.fn("%s::decompose" % B)
    if dec is None:
        rep.missing("anchor/decompose", "decompose exists", "not found")
        return {}
    ctx = Ctx.for_fn(pdb, dec)
    AU, AL, INDEX, D = P(1), P(2), P(3), P(4)
    n_cmp = rule_magnitude(rep, pdb, ["%s::solve" % B, "%s::det" % B])
    ams = []
    for lp in [n for n in walk(dec["body"]) if n.get("k") == "For"]:
        am = find_argmax(pdb, ctx, lp)
        if am is not None:
            ams.append(am)
    rule_a = "the pivot search of decompose is an arg-max over magnitudes: best on the smaller side, best gets the compared value, the row index gets the loop variable"
    if len(ams) != 1:
        rep.bad("argmax/decompose", rule_a, dec["body"], "found %d arg-max loops" % len(ams), where=loc(dec["body"]))
        return {}
    am = ams[0]
    kloop = [a for a in ancestors(am.loop) if a.get("k") == "For"]
    k = for_range(ctx, kloop[0])[0] if kloop else None
    cur = _resolve(ctx, am.cur)
    looks = is_abs_term(cur) and cur[2] == ("idx", AU, ("tup", am.var, num(0)))
    cond_above = [a for a in ancestors(am.loop) if a.get("k") in ("If", "Match")]
    # the search window ends at the running bound l (m1 at the start, growing by one row per step up to n): every row that can
    # hold a non-zero in the pivot column is a candidate at every step
    hb = ctx.binds.get(am.hi[1]) if am.hi[0] == "var" else None
    hi_ok = hb is not None and hb.init is not None and ctx.term(hb.init) == F(P(0), "m1")
    rep.add("argmax/decompose", rule_a + "; the search covers rows k+1..l (l the running window bound) at every step (no fast path skips or shortens it)",
            am.orient_ok and am.best_gets_cur and am.idx_val == am.var and am.magnitude_ok and looks and am.lo == lin_add(k, num(1)) and hi_ok and not cond_above,
            am.ifnode, am.detail + ("; the search is skipped under a condition at %s" % loc(cond_above[0]) if cond_above else ""))
    effs = effects(pdb, ctx)
    # index[k] records the chosen row on every path
    rec = [e for e in effs if e.kind == "set" and e.target == INDEX]
    okrec = len(rec) == 1 and rec[0].index == k and rec[0].value == lin_add(am.idx_var, num(1)) and \
        [a for a in ancestors(rec[0].node) if a.get("k") in ("If", "For")] == kloop and _pos(rec[0].node) > _pos(am.loop)
    # the exchange context
    swaps = [n for n in walk(dec["body"]) if n.get("k") == "MethodCall" and callee_path(n) == "matrix::Matrix<T>::swap_elem"]
    negs = [e for e in effs if e.kind == "assign" and e.target == D and e.value == ("neg", D)]
    okx, det = len(swaps) == 1 and len(negs) == 1, "swaps=%d sign flips=%d" % (len(swaps), len(negs))
    rowswaps = [n for n in walk(dec["body"]) if n.get("k") == "MethodCall" and callee_path(n) == "matrix::Matrix<T>::swap_rows"]
    if not swaps and len(rowswaps) == 1 and len(negs) == 1:
        # the whole-row exchange of the compact copy (au has exactly mm columns): au.swap_rows(k, i)
        s = rowswaps[0]
        a = [ctx.term(x) for x in call_args(s)]
        ifs_s = [x for x in ancestors(s) if x.get("k") == "If"]
        ifs_n = [x for x in ancestors(negs[0].node) if x.get("k") == "If"]
        ct = ctx.term(ifs_s[0]["cond"]) if ifs_s else None
        cond_ok = ct is not None and ct[0] == "op" and ct[1] == "!=" and {ct[2], ct[3]} == {am.idx_var, k}
        pair = a[0] == AU and {a[1], a[2]} == {k, am.idx_var}
        okx = cond_ok and pair and ifs_s == ifs_n
        det = "under `i != k`=%s whole rows {k,i} of au exchanged by swap_rows=%s sign flipped in the same context=%s index[k]=i+1 recorded unconditionally=%s" % (cond_ok, pair, ifs_s == ifs_n, okrec)
        swaps = rowswaps
    elif okx:
        s = swaps[0]
        sl = [a for a in ancestors(s) if a.get("k") == "For"]
        r = for_range(ctx, sl[0])
        a = [ctx.term(x) for x in call_args(s)]
        ifs_s = [x for x in ancestors(s) if x.get("k") == "If"]
        ifs_n = [x for x in ancestors(negs[0].node) if x.get("k") == "If"]
        ct = ctx.term(ifs_s[0]["cond"]) if ifs_s else None
        cond_ok = ct is not None and ct[0] == "op" and ct[1] == "!=" and {ct[2], ct[3]} == {am.idx_var, k}
        full = r is not None and r[1] == num(0) and r[2] == MM and not r[3]
        pair = a[0] == AU and {(a[1], a[2]), (a[3], a[4])} == {(k, r[0]), (am.idx_var, r[0])}
        okx = cond_ok and full and pair and ifs_s == ifs_n
        det = "under `i != k`=%s all mm columns=%s rows {k,i}=%s sign flipped in the same context=%s index[k]=i+1 recorded unconditionally=%s" % (cond_ok, full, pair, ifs_s == ifs_n, okrec)
    rep.add("exchange-pair/decompose", "the context that swaps rows k and i of au (all mm columns) also negates *d, and index[k] records the chosen row on every path", okx and okrec, swaps[0] if swaps else dec["body"], det)
    d_init = [e for e in effs if e.kind == "assign" and e.target == D and not e.loops]
    okd0 = len(d_init) == 1 and d_init[0].value[0] == "call" and str(d_init[0].value[1]).endswith("One::one")
    # multipliers: dum = au[(i,0)] / au[(k,0)] stored at al[(k, i-k-1)], used for the row update
    st = [e for e in effs if e.kind == "set" and e.target == AL]
    upd = [e for e in effs if e.kind == "set" and e.target == AU and len(e.loops) == 3]
    okm, det = len(st) == 1 and len(upd) == 1, ""
    if okm:
        s, u = st[0], upd[0]
        ri = for_range(ctx, s.loops[1])
        i = ri[0]
        mult = s.value
        mdef = None
        for a in ctx.assigns.get(mult[1], []) if mult[0] == "var" else []:
            if any(x is s.loops[1] for x in ancestors(a)):
                mdef = ctx.term(a["r"])
        if mdef is None and mult[0] == "var":
            mb = ctx.binds.get(mult[1])          # `let factor = ..` inside the row loop instead of a re-used variable
            if mb is not None and mb.kind == "let" and mb.init is not None and mb.node is not None and any(x is s.loops[1] for x in ancestors(mb.node)):
                mdef = ctx.term(mb.init)
        if mdef is None and mult[0] != "var":
            mdef = mult                          # an immutable `let` was inlined: the stored value is the quotient itself
        piv = ("idx", AU, ("tup", k, num(0)))
        quot = ("op", "/", ("idx", AU, ("tup", i, num(0))), piv)
        # the multiplier is the quotient, taken as zero when the pivot is zero (a column of zeros: nothing to eliminate)
        guarded = mdef is not None and mdef[0] == "ite" and mdef[1][0] == "op" and mdef[1][1] in ("==", "!=") and {mdef[1][2], mdef[1][3]} == {piv, ("call", "traits::Zero::zero")} and \
            ((mdef[1][1] == "==" and is_zero_term(mdef[2]) and mdef[3] == quot) or (mdef[1][1] == "!=" and is_zero_term(mdef[3]) and mdef[2] == quot))
        okm = s.index == ("tup", k, lin_sub(lin_sub(i, k), num(1))) and (mdef == quot or guarded) and ri[1] == lin_add(k, num(1))
        rj = for_range(ctx, u.loops[2])
        j = rj[0]
        uv = u.value
        same_mult = False
        if uv[0] == "op" and uv[1] == "-" and uv[3][0] == "op" and uv[3][1] == "*":
            um = uv[3][2]
            # the same multiplier, whether the row update names the variable or (an immutable let inlined) repeats its value
            same_mult = um == mult or (um[0] == "var" and ctx.def_term(um) is not None and ctx.def_term(um) in (mult, mdef)) or (mdef is not None and um == mdef)
            uv = ("op", "-", uv[2], ("op", "*", mult, uv[3][3])) if same_mult else uv
        oku = u.index == ("tup", i, lin_add(j, num(-1))) and uv == ("op", "-", ("idx", AU, ("tup", i, j)), ("op", "*", mult, ("idx", AU, ("tup", k, j)))) and rj[1] == num(1) and rj[2] == MM
        okm = okm and oku
        det = "multiplier=%s stored at al[(k,i-k-1)]; shifted row update=%s" % (show(mdef, ctx) if mdef else None, oku)
    rep.add("row-op-pair/decompose", "the multiplier au[(i,0)]/au[(k,0)] (pivot is the divisor) is stored at al[(k, i-k-1)] and used for the left-shifted row update over columns 1..mm; *d starts at one",
            okm and okd0, dec["body"], det, where=loc(dec["body"]))
    # ---- a singular matrix has determinant 0, not 0/0: the pivot division is guarded
    rule = ("every division in decompose (reachable from det) is dominated by a test that its divisor, the pivot au[(k,0)] (or the pivot magnitude found by the "
            "search), differs from zero: a column of zeros gives multiplier 0 and det = 0, as for the dense matrix, not NaN")
    from .c02 import nonzero_fact
    from .common import facts_x
    ndiv = 0
    for n in walk(dec["body"]):
        if n.get("k") == "Binary" and n.get("op") == "/" and n.get("fn") and not in_macro(n):
            ndiv += 1
            dvs = ctx.term(n["r"])
            fs = facts_x(pdb, ctx, n)
            g = nonzero_fact(fs, dvs) or nonzero_fact(fs, am.best)
            rep.add("zero-pivot/decompose" if ndiv == 1 else "zero-pivot/decompose#%d" % ndiv, rule, g, n, "divisor %s: a `!= zero` test dominates=%s" % (show(dvs, ctx), g))
    if ndiv == 0:
        rep.missing("zero-pivot/decompose", rule, "no division found in decompose")
    # ---- initial left shift of the first m1 rows (l is an induction variable: l = m1 - i before its decrement)
    rule = ("for each of the first m1 rows i: entries j in (m1-i)..mm move to j-(m1-i), then exactly the m1-i vacated trailing slots (mm-(m1-i))..mm are zeroed "
            "(l starts at m1 and is decremented once per row, so l = m1 - i before and m1 - i - 1 after the decrement)")
    first = [n for n in dec["body"].get("stmts", []) if strip(n.get("e") or {}).get("k") == "For"]
    okls, det = False, "first loop of decompose not recognised"
    if first:
        lp0 = strip(first[0]["e"])
        r0 = for_range(ctx, lp0)
        inner = [n for n in lp0["body"].get("stmts", []) if strip(n.get("e") or {}).get("k") == "For"]
        tl = lp0["body"].get("expr")
        if tl is not None and strip(tl).get("k") == "For":
            inner.append({"e": tl})
        decs = [e for e in effs if e.kind == "assignop" and e.op == "-=" and e.value == num(1) and e.loops == [lp0]]
        closed = r0 is not None and len(inner) == 2 and not decs        # the shift written in closed form (m1 - i), no running counter
        if r0 is not None and r0[1:5] == (num(0), M1, False, False) and len(inner) == 2 and ((len(decs) == 1 and decs[0].target[0] == "var") or closed):
            i0 = r0[0]
            before, after = lin_sub(M1, i0), lin_sub(lin_sub(M1, i0), num(1))
            if closed:
                init_ok = True

                class _D:
                    node = lp0
                decs = [_D()]

                def val(t, node):
                    return t
            else:
                lv = decs[0].target
                lb = [e for e in effs if e.kind == "assign" and e.target == lv and not e.loops and _pos(e.node) < _pos(lp0)]
                linit = ctx.binds.get(lv[1])
                init_ok = (linit is not None and linit.init is not None and ctx.term(linit.init) == M1 and not lb) or (lb and lb[-1].value == M1)

                def val(t, node):
                    return subst_term(t, {lv: before if _pos(node) < _pos(decs[0].node) else after})
            la, lb2 = strip(inner[0]["e"]), strip(inner[1]["e"])
            ra, rb = for_range(ctx, la), for_range(ctx, lb2)
            sa = [e for e in effs if e.kind == "set" and e.target == AU and e.loops == [lp0, la]]
            sb = [e for e in effs if e.kind == "set" and e.target == AU and e.loops == [lp0, lb2]]
            if ra and rb and len(sa) == 1 and len(sb) == 1:
                ja, jb = ra[0], rb[0]
                shift = val(ra[1], la) == before and ra[2] == MM and not ra[3] and val(sa[0].index, sa[0].node) == ("tup", i0, lin_sub(ja, before)) and sa[0].value == ("idx", AU, ("tup", i0, ja))
                fill = val(rb[1], lb2) == lin_sub(MM, before) and rb[2] == MM and not rb[3] and sb[0].index == ("tup", i0, jb) and sb[0].value[0] == "call" and str(sb[0].value[1]).endswith("Zero::zero")
                order = _pos(la) < _pos(decs[0].node) < _pos(lb2) or _pos(la) < _pos(lb2)
                okls = bool(init_ok and shift and fill and order)
                det = "l starts at m1=%s shift by m1-i=%s zero exactly the vacated slots=%s" % (bool(init_ok), shift, fill)
    rep.add("left-shift/decompose", rule, okls, first[0]["e"] if first else dec["body"], det)
    # ---- det
    fn = pdb.fn("%s::det" % B)
    rule = "det multiplies the sign d returned by decompose by au[(i,0)] for i over the full range 0..n"
    if fn is None:
        rep.missing("det", rule, "function not found")
    else:
        c2 = Ctx.for_fn(pdb, fn)
        es = [e for e in effects(pdb, c2) if e.kind == "assignop" and e.op == "*=" and e.loops]
        decs = [n for n in walk(fn["body"]) if n.get("k") == "MethodCall" and callee_path(n) == "%s::decompose" % B]
        ok, det = len(es) == 1 and len(decs) == 1, ""
        if ok:
            e = es[0]
            r = for_range(c2, e.loops[0])
            a = [c2.term(x) for x in call_args(decs[0])]
            au, dvar = a[1], a[4]
            acc = e.target
            accdef = c2.def_term(acc)
            au_init = c2.def_term(au) == COMPACT if au[0] == "var" else False
            uncond = not any(a.get("k") in ("If", "Match", "For", "While", "Loop", "Closure") for a in ancestors(decs[0]))
            ok = r[1:4] == (num(0), N, False) and e.value == ("idx", au, ("tup", r[0], num(0))) and (accdef == dvar or acc == dvar) and au_init and _pos(decs[0]) < _pos(e.node) and uncond
            det = "acc starts as d=%s au is a clone of compact=%s i in 0..n=%s the factorisation runs unconditionally (no shortcut skips it for some bandwidths)=%s" % (
                accdef == dvar or acc == dvar, au_init, r[1:4] == (num(0), N, False), uncond)
        rep.add("det", rule, ok, fn["body"], det, where=loc(fn["body"]))
    # ---- the workspaces handed to decompose: al holds one column per sub-diagonal (n x m1), index one slot per row
    for user in ("det", "solve"):
        uf = pdb.fn("%s::%s" % (B, user))
        if uf is None:
            continue
        cu = Ctx.for_fn(pdb, uf)
        dcs = [n for n in walk(uf["body"]) if n.get("k") == "MethodCall" and callee_path(n) == "%s::decompose" % B]
        okw, detw = len(dcs) == 1, "decompose calls=%d" % len(dcs)
        if okw:
            a_ = [cu.term(x) for x in call_args(dcs[0])]
            def _init(t_):
                return cu.def_term(t_) if t_[0] == "var" and cu.def_term(t_) is not None else (cu.term(cu.binds[t_[1]].init) if t_[0] == "var" and t_[1] in cu.binds and cu.binds[t_[1]].init is not None else t_)
            al_i, ix_i = _init(a_[2]), _init(a_[3])
            al_ok = al_i[0] == "call" and str(al_i[1]).endswith("Matrix<T>::new") and al_i[2] == N and al_i[3] == M1 and is_zero_term(al_i[4])
            ix_ok = ix_i[0] == "call" and str(ix_i[1]).endswith("Vector<T>::new") and ix_i[2] == N
            okw = al_ok and ix_ok
            detw = "al = %s; index = %s" % (show(al_i, cu)[:80], show(ix_i, cu)[:60])
        rep.add("workspace/%s" % user, "the multiplier matrix handed to decompose is n x m1 (one column per sub-diagonal eliminated; with the raw index operator a narrower one lets the multipliers of one row "
                "spill into the next) and the exchange record has n slots", okw, dcs[0] if dcs else uf["body"], detw)
    # ---- solve replay
    fn = pdb.fn("%s::solve" % B)
    rule = "solve replays exactly the recorded exchanges (x.swap(k, index[k]-1) guarded by != k) and multipliers (al[(k, j-k-1)], the offset used by the store in decompose)"
    if fn is None:
        rep.missing("solve-replay", rule, "function not found")
    else:
        c2 = Ctx.for_fn(pdb, fn)
        decs = [n for n in walk(fn["body"]) if n.get("k") == "MethodCall" and callee_path(n) == "%s::decompose" % B]
        sw = [n for n in walk(fn["body"]) if n.get("k") == "MethodCall" and callee_path(n) == "vector::Vector<T>::swap"]
        es = effects(pdb, c2)
        fw = [e for e in es if e.kind == "upd" and e.op == "-=" and len(e.loops) == 2]
        ok, det = len(decs) == 1 and len(sw) == 1 and len(fw) == 1, "decompose calls=%d swaps=%d forward updates=%d" % (len(decs), len(sw), len(fw))
        if ok:
            a = [c2.term(x) for x in call_args(decs[0])]
            au, al, index = a[1], a[2], a[3]
            s = sw[0]
            kl = [x for x in ancestors(s) if x.get("k") == "For"]
            kk = for_range(c2, kl[0])[0]
            sa = [c2.term(x) for x in call_args(s)]
            jt = lin_add(("idx", index, kk), num(-1))
            ifs = [x for x in ancestors(s) if x.get("k") == "If"]
            ct = c2.term(ifs[0]["cond"]) if ifs else None
            oksw = set(sa[1:]) == {kk, jt} and ct is not None and ct[0] == "op" and ct[1] == "!=" and {ct[2], ct[3]} == {kk, jt}
            e = fw[0]
            rj = for_range(c2, e.loops[1])
            j = rj[0]
            x = e.target
            okfw = e.index == j and e.value == ("op", "*", ("idx", al, ("tup", kk, lin_sub(lin_sub(j, kk), num(1)))), ("idx", x, kk)) and rj[1] == lin_add(kk, num(1)) and x == sa[0]
            # back substitution: x[i] = (x[i] - sum au[(i,k)]*x[k+i]) / au[(i,0)], i descending
            bs = [q for q in es if q.kind == "set" and q.target == x and q.loops and for_range(c2, q.loops[0])[4]]
            okb = len(bs) == 1
            if okb:
                b = bs[0]
                ri = for_range(c2, b.loops[0])
                i = ri[0]
                okb = b.index == i and b.value[0] == "op" and b.value[1] == "/" and b.value[3] == ("idx", au, ("tup", i, num(0))) and ri[1:3] == (num(0), N)
                sub = [q for q in es if q.kind == "assignop" and q.op == "-=" and len(q.loops) == 2 and q.loops[0] is b.loops[0]]
                okb = okb and len(sub) == 1 and sub[0].target == b.value[2]
                if okb:
                    rk = for_range(c2, sub[0].loops[1])
                    kq = rk[0]
                    okb = sub[0].value == ("op", "*", ("idx", au, ("tup", i, kq)), ("idx", x, lin_add(kq, i))) and rk[1] == num(1)
            xdef = c2.def_term(x)
            # the back-substitution window grows by one per row up to the full compact width m1+m2+1 (U has m1+m2
            # super-diagonals after the fill-in caused by row exchanges), starting from 1
            okwid = False
            if bs:
                from .guards import cond_atoms as _ca
                grow = [n_ for n_ in walk(bs[0].loops[0]["body"]) if n_.get("k") == "If" and n_.get("else") is None]
                for g_ in grow:
                    at = _ca(c2, g_["cond"], True)
                    incs = [q for q in effects(pdb, c2, g_["then"]) if q.kind == "assignop" and q.op == "+=" and q.value == num(1)]
                    if len(at) == 1 and at[0][0] == "cmp" and at[0][1] == "<" and len(incs) == 1 and at[0][2] == incs[0].target and at[0][3] == MM:
                        lvar = incs[0].target
                        resets = [q for q in es if q.kind == "assign" and q.target == lvar and q.value == num(1) and _pos(q.node) < _pos(bs[0].loops[0])]
                        rk_ = for_range(c2, sub[0].loops[1]) if okb else None
                        lb_ = c2.binds.get(lvar[1]) if lvar[0] == "var" else None
                        fresh1 = lb_ is not None and lb_.kind == "let" and lb_.init is not None and c2.term(lb_.init) == num(1) and \
                            not [q for q in es if q.kind == "assign" and q.target == lvar]           # `let mut filled = 1;` instead of re-using l
                        okwid = (bool(resets) or fresh1) and rk_ is not None and rk_[2] == lvar
            ok = oksw and okfw and okb and xdef == P(1) and okwid
            det = "exchange replay=%s multiplier replay (same offset j-k-1)=%s back substitution on au=%s window grows 1..m1+m2+1=%s x starts as b.clone()=%s" % (oksw, okfw, okb, okwid, xdef == P(1))
        rep.add("solve-replay", rule, ok, fn["body"], det, where=loc(fn["body"]))
    rep.floor("index-map/", 3)
    rep.floor("layout/", 2)
    rep.floor("operators/", 11)
    rep.floor("matvec-window/", 4)
    rep.floor("magnitude/", 1)
    rep.assumptions += ["the left-shift / zero-fill of the first m1 rows and the elimination window (l is a mutated loop-carried bound) are outside the linear prover; "
                        "agreement of solve/det with the dense result and backward error are numerical and not decided statically"]
    return {"operator_impls": n_ops, "ordered_comparisons": n_cmp}


def _pos(n):
    sp = n.get("sp")
    return (sp[0], sp[1]) if sp else (0, 0)
