"""Shared rule templates: E (effects/types), entry guards + reject, delegation (S), K (index kinds),
element-wise operator semantics (P/X/R), W (termination shape), D (divisor discipline)."""
from fractions import Fraction

from .pdb import walk, children, strip, loc, ancestors, parent
from .terms import (Ctx, lin_sub, lin_add, lin_parts, mk_lin, num, is_num, base_ty, ty_of, show, deref,
                    is_simple_fn, INT_TYS, FLOAT_TYS, lvalue_root, CLONE_FNS, LEN_IMPLS, project)
from .guards import (cond_atoms, diverges, facts, norm_cmp, upper_bounds, equalities, prove_lt, prove_le,
                     prove_ge0, for_range, fact_lins)

# ---------------------------------------------------------------- small helpers


def P(i):
    return ("param", i)


def F(t, name):
    return ("field", t, name)


def LEN(t):
    return ("len", t)


def SIZE(v):
    """Vector::size() — `self.vec.len()` after getter inlining."""
    return ("len", ("field", v, "vec"))


def callee_path(n):
    """Canonical callee of a Call / MethodCall / overloaded operator / index node (impl if resolved)."""
    k = n.get("k")
    if k == "Call":
        f = n["f"]
        if f.get("k") == "Def":
            return f.get("impl") or f.get("fn")
        return None
    return n.get("impl") or n.get("fn")


def callee_generic(n):
    k = n.get("k")
    if k == "Call":
        f = n["f"]
        return f.get("fn") if f.get("k") == "Def" else None
    return n.get("fn")


def call_args(n):
    k = n.get("k")
    if k == "MethodCall":
        return [n["recv"]] + list(n.get("args", []))
    if k == "Call":
        return list(n.get("args", []))
    if k in ("Binary", "AssignOp"):
        return [n["l"], n["r"]]
    if k == "Unary":
        return [n["e"]]
    if k == "Index":
        return [n["base"], n["idx"]]
    return []


def is_call_like(n):
    k = n.get("k")
    if k in ("Call", "MethodCall"):
        return True
    if k in ("Binary", "Unary", "AssignOp", "Index") and n.get("fn"):
        return True
    return False


def in_macro(n):
    return bool(n.get("x"))


def canon_atom(f):
    """Canonical form of a comparison fact: ('ge0', L) | ('ne0', L) | ('eq0', L) with L a linear term."""
    if f[0] != "cmp":
        return f
    op, a, b = f[1], f[2], f[3]
    if op == "<":
        return ("ge0", lin_add(lin_sub(b, a), num(-1)))
    if op == "<=":
        return ("ge0", lin_sub(b, a))
    d1, d2 = lin_sub(a, b), lin_sub(b, a)
    d = d1 if repr(d1) <= repr(d2) else d2
    return ("ne0" if op == "!=" else "eq0", d)


def NE(a, b):
    return canon_atom(norm_cmp("!=", a, b))


def GE(a, b):      # a >= b
    return canon_atom(norm_cmp("<=", b, a))


def GT(a, b):      # a > b
    return canon_atom(norm_cmp("<", b, a))


def EQ(a, b):
    return canon_atom(norm_cmp("==", a, b))


def subst_term(t, sub):
    """Substitute ('param', i) leaves of term t and re-normalise linear parts."""
    if not isinstance(t, tuple):
        return t
    if t in sub:
        return sub[t]
    k = t[0]
    if k == "lin":
        out = num(t[1])
        for a, c in t[2]:
            from .terms import lin_scale
            out = lin_add(out, lin_scale(subst_term(a, sub), c))
        return out
    if k == "mul":
        from .terms import lin_mul
        out = num(1)
        for a in t[1:]:
            out = lin_mul(out, subst_term(a, sub))
        return out
    if k == "field":
        return project(subst_term(t[1], sub), (t[2],))
    return tuple(subst_term(x, sub) if isinstance(x, tuple) else x for x in t)


# ---------------------------------------------------------------- storage access / entry guards

STORAGE_TY_MARKERS = ("vector::Vector", "matrix::Matrix", "banded::Banded", "tridiagonal::Tridiagonal",
                      "sparse::Sparse", "mesh1d::Mesh1D", "mesh2d::Mesh2D", "polynomial::Polynomial",
                      "std::vec::Vec", "[")


def _storage_typed(n):
    t = n.get("ty", "")
    return any(m in t for m in STORAGE_TY_MARKERS)


def touches_storage(pdb, n):
    """Does evaluating n read or write container storage or call anything that might?  Calls none of whose
    arguments is (a reference to) a container cannot; getters, len and clone do not."""
    for x in walk(n):
        if in_macro(x) and x.get("k") != "Index":
            # panic!/format machinery is not storage access
            continue
        k = x.get("k")
        if k == "Index":
            return True
        if k in ("Call", "MethodCall"):
            p = callee_path(x)
            g = callee_generic(x)
            if g in CLONE_FNS or p in LEN_IMPLS or g in LEN_IMPLS:
                continue
            if str(p or g or "") in ("std::vec::Vec<T, A>::is_empty", "[T]::is_empty", "std::vec::Vec<T>::is_empty"):
                continue          # is_empty() is len() == 0
            fn = pdb.fn(p) if p else None
            if fn is not None and is_simple_fn(pdb, fn):
                continue
            if p and p.startswith("core::panicking"):
                continue
            if not any(_storage_typed(a) for a in call_args(x)):
                continue
            return True
        if k in ("Binary", "Unary", "AssignOp") and x.get("fn"):
            # overloaded operator on a container: may touch storage
            if x.get("impl_local") and any(_storage_typed(a) for a in call_args(x)):
                return True
        if k in ("Assign", "AssignOp"):
            l = strip(x["l"])
            if l.get("k") == "Local":
                continue
            return True
    return False


class Guard:
    __slots__ = ("alts", "node", "pre_touch", "index", "kind", "after_return")

    def __init__(self, alts, node, pre_touch, index, kind="panic", after_return=False):
        self.alts, self.node, self.pre_touch, self.index, self.kind = alts, node, pre_touch, index, kind
        self.after_return = after_return      # an earlier top-level statement can return normally


def _mentions_param(t, lo):
    """does the term mention a parameter with index >= lo?"""
    if isinstance(t, tuple):
        if len(t) == 2 and t[0] == "param" and isinstance(t[1], int):
            return t[1] >= lo
        return any(_mentions_param(x, lo) for x in t)
    return False


def guard_alts(ctx, cond, subst=None):
    """Panic condition -> list of alternatives, each a frozenset of canonical atoms (conjunction)."""
    fs = cond_atoms(ctx, cond, True, subst)
    return _alts_of(fs)


def _alts_of(fs):
    alts = [frozenset()]
    for f in fs:
        if f[0] == "or":
            new = []
            for alt in f[1]:
                for sub in _alts_of(alt):
                    for a in alts:
                        new.append(a | sub)
            alts = new
        else:
            alts = [a | {canon_atom(f)} for a in alts]
    return alts


def entry_guards(pdb, ctx, body=None):
    """Top-level `if c { diverge }` statements of the fn body, with whether storage was touched before."""
    body = body if body is not None else ctx.fn["body"]
    out = []
    touched = False
    returned = False
    stmts = list(body.get("stmts", []))
    if body.get("expr") is not None:
        stmts.append({"k": "Expr", "e": body["expr"]})
    for i, s in enumerate(stmts):
        e = s.get("e")
        if e is None:
            e = s.get("init")
        if e is None:
            continue
        se = strip(e)
        if s.get("k") in ("Expr", "Semi") and se.get("k") == "If" and diverges(se["then"]) and \
                (se.get("else") is None or not diverges(se["else"])):
            kind = _guard_kind(se["then"])
            out.append(Guard(guard_alts(ctx, se["cond"]), se, touched, i, kind, returned))
            if touches_storage(pdb, se["cond"]):
                touched = True
            if kind == "return":
                returned = True
            continue
        if touches_storage(pdb, e):
            touched = True
        if any(x.get("k") == "Ret" for x in walk(e) if not _in_closure(x, e)):
            returned = True
    return out


def _in_closure(x, root):
    for a in ancestors(x):
        if a is root:
            return False
        if a.get("k") == "Closure":
            return True
    return False


def _guard_kind(n):
    for x in walk(n):
        if x.get("k") == "Ret":
            return "return"
        if x.get("k") in ("Break", "Continue"):
            return "jump"
    return "panic"


def first_touching_call(pdb, ctx):
    """The first statement-level expression of the body that touches storage, if it is (or evaluates) a call."""
    body = ctx.fn["body"]
    stmts = list(body.get("stmts", []))
    if body.get("expr") is not None:
        stmts.append({"k": "Expr", "e": body["expr"]})
    for s in stmts:
        e = s.get("e") if s.get("e") is not None else s.get("init")
        if e is None:
            continue
        se = strip(e)
        if se.get("k") == "If" and diverges(se["then"]) and se.get("else") is None:
            continue
        if touches_storage(pdb, e):
            # descend to the first call-like node in evaluation order
            for x in _eval_order(e):
                if in_macro(x):
                    continue
                if is_call_like(x) and x.get("k") != "Index":
                    p = callee_path(x)
                    fn = pdb.fn(p) if p else None
                    if fn is not None and is_simple_fn(pdb, fn):
                        continue
                    if callee_generic(x) in CLONE_FNS:
                        continue
                    return x
                if x.get("k") == "Index":
                    return None
            return None
    return None


def _eval_order(n):
    """Post-order (operands before the call that consumes them)."""
    for c in children(n):
        yield from _eval_order(c)
    yield n


def effective_guards(pdb, fn, depth=0):
    """Set of single-atom panic conditions that are checked before any storage access, including those
    of the callee the function forwards to first (transitively), expressed in the fn's own param terms."""
    ctx = Ctx.for_fn(pdb, fn)
    out = {}
    has_self = bool(fn.get("params")) and fn["params"][0].get("name") == "self"
    for g in entry_guards(pdb, ctx):
        if g.pre_touch or g.kind != "panic":
            continue
        for alt in g.alts:
            if len(alt) == 1:
                (a,) = alt
                if g.after_return and _mentions_param(a, 1 if has_self else 0):
                    # the function can already have returned normally (an early `return` precedes this rejection): an
                    # out-of-range ARGUMENT is then not rejected on that path ("never returns a value" needs the guard on
                    # every returning path).  Guards on the receiver's own consistency are not affected.
                    continue
                out.setdefault(a, g.node)
    if depth < 4:
        c = first_touching_call(pdb, ctx)
        if c is not None:
            p = callee_path(c)
            cf = pdb.fn(p) if p else None
            if cf is not None and cf is not fn:
                args = call_args(c)
                sub = {("param", i): ctx.resolve_vars(ctx.term(a), c) for i, a in enumerate(args)}
                for a, node in effective_guards(pdb, cf, depth + 1).items():
                    a2 = (a[0], _renorm(a[0], subst_term(a[1], sub)))
                    out.setdefault(a2, c)
    return out


def _renorm(kind, L):
    if kind in ("ne0", "eq0"):
        from .terms import lin_scale
        L2 = lin_scale(L, -1)
        return L if repr(L) <= repr(L2) else L2
    return L


# ---------------------------------------------------------------- E: effects / types

CONTAINERS = ["vector::Vector", "matrix::Matrix", "banded::Banded", "tridiagonal::Tridiagonal", "sparse::Sparse",
              "mesh1d::Mesh1D", "mesh2d::Mesh2D", "polynomial::Polynomial", "complex::Complex", "newton::Newton"]

SHARING_MARKERS = ["std::rc::Rc", "std::sync::Arc", "*const", "*mut", "&", "std::cell::", "std::sync::Mutex",
                   "std::sync::RwLock", "std::sync::atomic", "std::rc::Weak", "std::sync::Weak", "UnsafeCell"]


def rule_no_unsafe(rep, pdb, key="no-unsafe"):
    n = pdb.d["unsafe_blocks"] + pdb.d["unsafe_items"]
    nfn = sum(1 for f in pdb.local_fns() if f.get("unsafe"))
    rep.add(key, "the crate contains no unsafe block, unsafe fn or unsafe impl (so & really means read-only for Freeze data)",
            n == 0 and nfn == 0, where="crate ohsl", msg="unsafe blocks=%d unsafe items=%d unsafe fns=%d" % (
                pdb.d["unsafe_blocks"], pdb.d["unsafe_items"], nfn), proof=True)
    return n == 0 and nfn == 0


def adt_owned(adt):
    """Field types of the ADT mention no sharing / interior-mutability marker."""
    bad = []
    for f in adt["fields"]:
        for m in SHARING_MARKERS:
            if m in f["ty"]:
                bad.append((f["name"], f["ty"], m))
    return bad


def rule_freeze(rep, pdb, adt_paths, key="freeze"):
    for p in adt_paths:
        a = pdb.adts.get(p)
        if a is None:
            rep.missing("%s/%s" % (key, p), "ADT exists", "type %s not found" % p)
            continue
        bad = adt_owned(a)
        # generic freeze (storage behind Vec) or all non-parameter fields freeze
        fr = a["freeze_generic"] or all(f["freeze"] or f["ty"] in ("T", "X") for f in a["fields"])
        rep.add("%s/%s" % (key, p),
                "type is Freeze for every Freeze element type and owns all its storage (no Rc/Arc/&/raw pointer/Cell in any field)",
                fr and not bad, where="%s:%d" % (a["file"], a["span"][0]),
                msg="fields=%s freeze_generic=%s bad=%s" % ([(f["name"], f["ty"]) for f in a["fields"]], a["freeze_generic"], bad),
                proof=True)


def receiver_mode(fn):
    ins = fn.get("inputs", [])
    ps = fn.get("params", [])
    if not ps or ps[0].get("name") != "self" or not ins:
        return None
    t = ins[0]
    if t.startswith("&mut ") or t.startswith("&'") and " mut " in t.split(" ", 2)[1:2]:
        return "&mut self"
    if t.startswith("&"):
        return "&self"
    return "self"


def param_modes(fn):
    """For each param: 'ref' (&T), 'mut' (&mut T), 'own'."""
    out = []
    for t in fn.get("inputs", []):
        if t.startswith("&mut ") or (t.startswith("&'") and " mut " in t[:t.find(" ", 2) + 5]):
            out.append("mut")
        elif t.startswith("&"):
            out.append("ref")
        else:
            out.append("own")
    return out


# ---------------------------------------------------------------- S: delegation

def single_expr_body(fn):
    b = fn["body"]
    if b.get("stmts"):
        # allow `stmt;` single statement bodies (compound-assignment delegations: `*self += &rhs;`)
        if len(b["stmts"]) == 1 and b.get("expr") is None and b["stmts"][0].get("k") in ("Semi", "Expr"):
            return strip(b["stmts"][0]["e"])
        return None
    if b.get("expr") is None:
        return None
    return strip(b["expr"])


def forwards_to(pdb, fn, order_insensitive=False):
    """If fn's body is a single call, return (callee_path, [param index of each argument or None])."""
    e = single_expr_body(fn)
    if e is None or not is_call_like(e):
        return None
    ctx = Ctx.for_fn(pdb, fn)
    args = call_args(e)
    idxs = []
    for a in args:
        t = ctx.term(a)
        idxs.append(t[1] if t[0] == "param" else None)
    return callee_path(e), idxs, e


# ---------------------------------------------------------------- K: index kinds

DIM_FAMILIES = {
    "matrix::Matrix": ("rows", "cols"),
    "mesh2d::Mesh2D": ("nx", "ny"),
    "sparse::Sparse": ("rows", "cols"),
}


def adt_of(tystr):
    s = base_ty(tystr)
    i = s.find("<")
    return s[:i] if i >= 0 else s


class UF:
    def __init__(self):
        self.p = {}

    def find(self, x):
        while self.p.get(x, x) != x:
            self.p[x] = self.p.get(self.p[x], self.p[x])
            x = self.p[x]
        return x

    def union(self, a, b):
        ra, rb = self.find(a), self.find(b)
        if ra != rb:
            self.p[ra] = rb

    def same(self, a, b):
        return self.find(a) == self.find(b)


_ctor_cache = {}


def ctor_summary(pdb, fn):
    """For a fn returning a struct literal (possibly via lets): {field: term over params}; else None."""
    key = (id(pdb), fn["path"])
    if key in _ctor_cache:
        return _ctor_cache[key]
    res = None
    ctx = Ctx.for_fn(pdb, fn)
    b = fn["body"]
    tail = b.get("expr")
    if tail is not None:
        tail = strip(tail)
        if tail.get("k") == "Struct":
            res = {}
            for f in tail["fields"]:
                res[f["name"]] = ctx.term(f["e"])
        elif is_call_like(tail) and tail.get("k") in ("Call", "MethodCall"):
            p = callee_path(tail)
            cf = pdb.fn(p) if p else None
            if cf is not None and cf is not fn:
                inner = ctor_summary(pdb, cf)
                if inner is not None:
                    sub = {("param", i): ctx.term(a) for i, a in enumerate(call_args(tail))}
                    res = {k: subst_term(v, sub) for k, v in inner.items()}
    _ctor_cache[key] = res
    return res


_dimw_cache = {}


def writes_dims(pdb, fn, depth=0):
    """Does this fn (a &mut self method) change integer fields of self / replace *self?"""
    key = (id(pdb), fn["path"])
    if key in _dimw_cache:
        return _dimw_cache[key]
    _dimw_cache[key] = False
    ctx = Ctx.for_fn(pdb, fn)
    res = False
    for n in walk(fn["body"]):
        k = n.get("k")
        if k in ("Assign", "AssignOp"):
            l = n["l"]
            if lvalue_root(l) is not None and ctx.binds.get(lvalue_root(l)) is not None and \
                    ctx.binds[lvalue_root(l)].kind == "param" and ctx.binds[lvalue_root(l)].idx == 0:
                ls = strip(l)
                if ls.get("k") == "Unary" and ls.get("op") == "*":
                    res = True
                if ls.get("k") == "Field" and base_ty(ty_of(ls)) in INT_TYS:
                    res = True
        if k == "AddrOf" and n.get("mut"):
            e = strip(n["e"])
            if e.get("k") == "Field" and base_ty(ty_of(e)) in INT_TYS and ctx.is_self(e["e"]):
                res = True
        if k == "MethodCall" and depth < 4:
            p = callee_path(n)
            cf = pdb.fn(p) if p else None
            if cf is not None and cf is not fn and receiver_mode(cf) == "&mut self":
                r = deref(n["recv"])
                if ctx.is_self(r) or (r.get("k") == "Field" and ctx.is_self(r["e"])):
                    if writes_dims(pdb, cf, depth + 1):
                        res = True
    _dimw_cache[key] = res
    return res


_pwd_cache = {}


def param_writes_dims(pdb, fn, idx):
    """Does fn change integer fields of / replace the object behind its idx-th (reference) parameter?"""
    key = (id(pdb), fn["path"], idx)
    if key in _pwd_cache:
        return _pwd_cache[key]
    _pwd_cache[key] = True
    ctx = Ctx.for_fn(pdb, fn)
    res = False
    ins = fn.get("inputs", [])
    adt = pdb.adts.get(adt_of(ins[idx])) if idx < len(ins) else None
    int_fields = {f["name"] for f in adt["fields"] if f["ty"] in INT_TYS} if adt else None
    for (path, mode), node in ctx.mutations.get(("param", idx), []):
        if mode != "replace":
            continue
        if not path:
            res = True
        elif len(path) == 1 and (int_fields is None or path[0] in int_fields):
            res = True
    _pwd_cache[key] = res
    return res


def local_ties(pdb, ctx):
    """Equalities dim(var) = term established by `let [mut] v = <ctor>(..)` / `= x.clone()` for locals whose
    dimensions are never changed afterwards in this fn.  Returns list of (term_a, term_b)."""
    ties = []
    fn = ctx.fn
    unstable = set()
    for n in walk(fn["body"]):
        k = n.get("k")
        if k == "MethodCall":
            p = callee_path(n)
            cf = pdb.fn(p) if p else None
            if cf is not None and receiver_mode(cf) == "&mut self" and writes_dims(pdb, cf):
                r = lvalue_root(deref(n["recv"]))
                if r is not None:
                    unstable.add(r)
        if k == "Assign":
            l = strip(n["l"])
            if l.get("k") == "Local":
                unstable.add(l["v"])
            if l.get("k") == "Unary" and l.get("op") == "*":
                r = lvalue_root(l)
                if r is not None:
                    unstable.add(r)
            if l.get("k") == "Field" and base_ty(ty_of(l)) in INT_TYS:
                r = lvalue_root(l)
                if r is not None:
                    unstable.add(r)
    for v, b in ctx.binds.items():
        if b.kind != "let" or b.init is None or b.proj or v in unstable:
            continue
        init = strip(b.init)
        var = ("var", v) if (b.mut or v in ctx.addr_mut) else None
        if var is None:
            continue  # immutable lets are inlined by T already
        adt = adt_of(b.ty)
        it = None
        if is_call_like(init) and init.get("k") in ("Call", "MethodCall"):
            g = callee_generic(init)
            if g in CLONE_FNS:
                src = ctx.term(call_args(init)[0])
                a = pdb.adts.get(adt)
                if a is not None:
                    for f in a["fields"]:
                        if f["ty"] in INT_TYS:
                            ties.append((("field", var, f["name"]), project(src, (f["name"],))))
                if adt == "vector::Vector":
                    ties.append((SIZE(var), SIZE(src)))
                if b.ty.startswith("std::vec::Vec"):
                    ties.append((LEN(var), LEN(src)))
                continue
            p = callee_path(init)
            cf = pdb.fn(p) if p else None
            if cf is not None:
                summ = ctor_summary(pdb, cf)
                if summ is not None:
                    sub = {("param", i): ctx.term(a) for i, a in enumerate(call_args(init))}
                    for fname, ft in summ.items():
                        a = pdb.adts.get(adt)
                        fty = None
                        if a is not None:
                            for f in a["fields"]:
                                if f["name"] == fname:
                                    fty = f["ty"]
                        if fty in INT_TYS:
                            ties.append((("field", var, fname), subst_term(ft, sub)))
                        if fty is not None and fty.startswith("std::vec::Vec") and ft[0] == "call" and \
                                str(ft[1]).endswith("from_elem"):
                            ties.append((LEN(("field", var, fname)), subst_term(ft[3], sub)))
    return ties


_stride_cache = {}


def container_stride(pdb, adt):
    """Discover the flat-index map of a container from its Index impl: (vec_field, stride_field) if the impl
    body is `&self.<vec>[ index.0 * self.<stride> + index.1 ]`."""
    key = (id(pdb), adt)
    if key in _stride_cache:
        return _stride_cache[key]
    res = None
    for f in pdb.local_fns():
        if f.get("impl_trait") == "std::ops::Index" and adt_of(f.get("impl_self", "")) == adt and f.get("name") == "index":
            ctx = Ctx.for_fn(pdb, f)
            for n in walk(f["body"]):
                if n.get("k") == "Index":
                    bt = ctx.term(n["base"])
                    it = ctx.term(n["idx"])
                    if bt[0] == "field" and bt[1] == ("param", 0) and it[0] == "lin":
                        for a, c in it[2]:
                            if a[0] == "mul" and c == 1:
                                for x in a[1:]:
                                    if x[0] == "field" and x[1] == ("param", 0):
                                        res = (bt[2], x[2])
    _stride_cache[key] = res
    return res


def split_flat(idx, S):
    """Decompose linear idx as a*S + b; return (a, b) or None."""
    c, atoms = lin_parts(idx)
    a_parts, b_parts = {}, {}
    for t, k in atoms.items():
        if t == S:
            a_parts[("num", Fraction(1))] = a_parts.get(("num", Fraction(1)), 0) + k
        elif t[0] == "mul" and S in t[1:]:
            rest = list(t[1:])
            rest.remove(S)
            r = rest[0] if len(rest) == 1 else ("mul",) + tuple(rest)
            a_parts[r] = a_parts.get(r, 0) + k
        else:
            b_parts[t] = k
    if not a_parts:
        return None
    a = num(0)
    for t, k in a_parts.items():
        from .terms import lin_scale
        a = lin_add(a, lin_scale(t, k))
    b = mk_lin(c, b_parts)
    return a, b


def index_requirements(pdb, ctx, n):
    """For an Index node: list of (value_term, required_dim_term, role) obligations `value < dim`."""
    base = n["base"]
    bty = base_ty(n["base"].get("adj") or ty_of(base))
    bty0 = base_ty(ty_of(base))
    adt = adt_of(bty0)
    bt = ctx.term(base)
    it = ctx.term(n["idx"])
    out = []
    if adt in DIM_FAMILIES and it[0] == "tup" and len(it) == 3:
        r, c = DIM_FAMILIES[adt]
        out.append((it[1], ("field", bt, r), "row"))
        out.append((it[2], ("field", bt, c), "col"))
        return out
    if adt == "vector::Vector":
        out.append((it, SIZE(bt), "elem"))
        return out
    if bty0.startswith("std::vec::Vec") or bty0.startswith("["):
        # flat storage of a strided container?
        if bt[0] == "field":
            owner = bt[1]
            b0 = strip(deref(base))
            if b0.get("k") == "Field":
                oadt = adt_of(ty_of(b0["e"]))
                st = container_stride(pdb, oadt) if oadt in DIM_FAMILIES else None
                if st is not None and st[0] == bt[2]:
                    S = ("field", owner, st[1])
                    sp = split_flat(it, S)
                    if sp is not None:
                        fam = DIM_FAMILIES[oadt]
                        other = fam[0] if fam[1] == st[1] else fam[1]
                        out.append((sp[0], ("field", owner, other), "row"))
                        out.append((sp[1], S, "col"))
                        return out
        out.append((it, LEN(bt), "elem"))
    return out


def sibling_dims(D):
    """Other dimensions of the same object as dimension term D."""
    if D[0] == "field":
        obj, name = D[1], D[2]
        out = []
        for fam in set(DIM_FAMILIES.values()):
            if name in fam:
                out.extend(("field", obj, o) for o in fam if o != name)
        return out
    return []


def split_posneg(L):
    c, atoms = lin_parts(L)
    pos = mk_lin(c if c > 0 else 0, {a: k for a, k in atoms.items() if k > 0})
    neg = mk_lin(-c if c < 0 else 0, {a: -k for a, k in atoms.items() if k < 0})
    return pos, neg


def negate_atom(a):
    """Fact that holds when the panic condition `a` did NOT fire."""
    if a[0] == "ne0":
        pos, neg = split_posneg(a[1])
        return norm_cmp("==", pos, neg)
    if a[0] == "ge0":
        pos, neg = split_posneg(a[1])
        return norm_cmp("<", pos, neg)
    return None


def unconditional_calls(e):
    """Call-like nodes that are evaluated whenever e is evaluated to completion."""
    out = []
    stack = [e]
    while stack:
        x = stack.pop()
        k = x.get("k")
        if k in ("Closure", "For", "While", "Loop", "Match"):
            if k in ("For",):
                stack.append(x["iter"])
            if k == "Match":
                stack.append(x["scrut"])
            continue
        if k == "If":
            stack.append(x["cond"])
            continue
        if k == "Binary" and x.get("op") in ("&&", "||"):
            stack.append(x["l"])
            continue
        if is_call_like(x) and not in_macro(x):
            out.append(x)
        stack.extend(children(x))
    return out


def post_call_facts(pdb, ctx, node):
    """(ii) after a call returned, the callee's entry guards did not fire."""
    out = []
    child = node
    for p in ancestors(node):
        if p.get("k") == "Block":
            for s in p.get("stmts", []):
                if s is child:
                    break
                e = s.get("e") if s.get("e") is not None else s.get("init")
                if e is None:
                    continue
                for c in unconditional_calls(e):
                    pth = callee_path(c)
                    cf = pdb.fn(pth) if pth else None
                    if cf is None or cf is ctx.fn:
                        continue
                    args = call_args(c)
                    sub = {("param", i): ctx.term(a) for i, a in enumerate(args)}
                    for a in effective_guards(pdb, cf):
                        a2 = (a[0], subst_term(a[1], sub))
                        f = negate_atom(a2)
                        if f is not None:
                            out.append((f, c))
        child = p
    return out


_callsites = {}


def call_sites(pdb):
    key = id(pdb)
    if key not in _callsites:
        idx = {}
        for f in pdb.local_fns():
            for n in walk(f["body"]):
                if is_call_like(n) and not in_macro(n):
                    p = callee_path(n)
                    if p and pdb.fn(p) is not None:
                        idx.setdefault(p, []).append((f, n))
        _callsites[key] = idx
    return _callsites[key]


def _abstract(t, inv):
    """Replace sub-terms that are caller argument terms by ('cparam', i)."""
    if not isinstance(t, tuple):
        return t
    if t in inv:
        return ("cparam", inv[t])
    return tuple(_abstract(x, inv) if isinstance(x, tuple) else x for x in t)


def _has_caller_roots(t):
    if not isinstance(t, tuple):
        return False
    if t and t[0] in ("var", "param") and len(t) == 2:
        return True
    return any(_has_caller_roots(x) for x in t if isinstance(x, tuple))


def _rename_cparam(t):
    if not isinstance(t, tuple):
        return t
    if t and t[0] == "cparam":
        return ("param", t[1])
    return tuple(_rename_cparam(x) if isinstance(x, tuple) else x for x in t)


_inh_cache = {}


def inherited_facts(pdb, fn, depth=0):
    """(i) a private helper inherits the facts that hold at ALL of its call sites."""
    key = (id(pdb), fn["path"])
    if key in _inh_cache:
        return _inh_cache[key]
    _inh_cache[key] = []
    res = []
    if fn.get("pub") is False and depth < 4 and not fn.get("impl_trait"):
        sites = call_sites(pdb).get(fn["path"], [])
        common_set = None
        for caller, node in sites:
            cctx = Ctx.for_fn(pdb, caller)
            fs = facts_x(pdb, cctx, node, depth + 1)
            inv = {}
            for i, a in enumerate(call_args(node)):
                inv[cctx.term(a)] = i
            mapped = set()
            for f in fs:
                if f[0] != "cmp":
                    continue
                a, b = _abstract(f[2], inv), _abstract(f[3], inv)
                if _has_caller_roots(a) or _has_caller_roots(b):
                    continue
                mapped.add(("cmp", f[1], _rename_cparam(a), _rename_cparam(b)))
            common_set = mapped if common_set is None else (common_set & mapped)
        if common_set:
            res = sorted(common_set, key=repr)
    _inh_cache[key] = res
    return res


def facts_x(pdb, ctx, node, depth=0):
    """facts + post-call facts + inherited facts (for private helpers), all stability-filtered."""
    from .guards import _stable
    fs = list(facts(ctx, node))
    for f, origin in post_call_facts(pdb, ctx, node):
        if _stable(ctx, f, origin, node):
            fs.append(f)
    body = ctx.fn["body"]
    for f in inherited_facts(pdb, ctx.fn, depth):
        if _stable(ctx, f, body, node):
            fs.append(f)
    return fs


def eq_classes(pdb, ctx, node):
    uf = UF()
    fs = facts_x(pdb, ctx, node)
    for a, b in equalities(fs):
        uf.union(a, b)
    for a, b in local_ties(pdb, ctx):
        uf.union(a, b)
    return uf, fs


def kind_check(pdb, ctx, node, v, D, uf=None, fs=None):
    """Definite-contradiction test for `v used where a value < D is required`.
    Returns (status, detail): 'ok' (bound by D), 'contradiction' (bounded only by a sibling dimension), 'silent'."""
    if uf is None:
        uf, fs = eq_classes(pdb, ctx, node)
    ubs = upper_bounds(v, fs)
    if not ubs:
        # constants are fine, unknowns are silent
        return "silent", "no upper bound known"
    for u in ubs:
        if u == D or uf.same(u, D):
            return "ok", "bounded by %s" % show(u, ctx)
        # u <= D provable?
        if prove_le(u, D, fs):
            return "ok", "bounded by %s <= %s" % (show(u, ctx), show(D, ctx))
    sibs = sibling_dims(D)
    # close the required dim's siblings under equalities
    for u in ubs:
        for s in sibs:
            if (u == s or uf.same(u, s)) and not uf.same(s, D):
                return "contradiction", "bounded only by %s, used where a value < %s is required" % (show(u, ctx), show(D, ctx))
    return "silent", "bounds %s unrelated to %s" % ([show(u, ctx) for u in ubs], show(D, ctx))


def callee_param_bounds(pdb, fn):
    """Kind signature of a callee from its entry guards: {param_index: [dim term over callee params]}
    for guards of the form `if D <= p { panic }`."""
    ctx = Ctx.for_fn(pdb, fn)
    out = {}
    for a, node in effective_guards(pdb, fn).items():
        if a[0] != "ge0":
            continue
        # a: p - D >= 0 panics  => requirement p < D
        c, atoms = lin_parts(a[1])
        pos = [t for t, k in atoms.items() if k == 1 and t[0] == "param"]
        for p in pos:
            rest = dict(atoms)
            del rest[p]
            D = lin_sub(num(0), mk_lin(c, rest))   # p + c + rest >= 0  => p >= -(c+rest) => D = -(c+rest)
            out.setdefault(p[1], []).append(D)
    return out


def rule_index_kinds(rep, pdb, fns, key="index-kinds", skip_fns=()):
    """K over all index sites and local-call arguments of the given fns."""
    n_sites = 0
    for fn in fns:
        if fn["path"] in skip_fns:
            continue
        ctx = Ctx.for_fn(pdb, fn)
        # functions that rewrite their own dimensions: K is silent on self there
        selfw = writes_dims(pdb, fn)
        cache = {}
        seq = {}
        for n in walk(fn["body"]):
            if in_macro(n):
                continue
            k = n.get("k")
            if k == "Index":
                reqs = index_requirements(pdb, ctx, n)
                for (v, D, role) in reqs:
                    if selfw and _mentions_self(D):
                        continue
                    uf, fs = eq_classes(pdb, ctx, n)
                    st, detail = kind_check(pdb, ctx, n, v, D, uf, fs)
                    kk = "%s/%s/%s[%s]%s" % (key, fn["path"], show(ctx.term(n["base"]), ctx), show(v, ctx), role)
                    seq[kk] = seq.get(kk, 0) + 1
                    if seq[kk] > 1:
                        kk = "%s#%d" % (kk, seq[kk])
                    n_sites += 1
                    rule = "an index bounded only by one dimension of an object is never used against another dimension of it"
                    if st == "contradiction":
                        rep.bad(kk, rule, n, detail)
                    else:
                        rep.ok(kk, rule, n, detail, nontrivial=(st == "ok"))
            elif k in ("MethodCall", "Call"):
                p = callee_path(n)
                cf = pdb.fn(p) if p else None
                if cf is None or cf is fn:
                    continue
                sig = callee_param_bounds(pdb, cf)
                if not sig:
                    continue
                args = call_args(n)
                sub = {("param", i): ctx.term(a) for i, a in enumerate(args)}
                for pi, Ds in sig.items():
                    if pi >= len(args):
                        continue
                    v = ctx.term(args[pi])
                    for Dc in Ds:
                        D = subst_term(Dc, sub)
                        if selfw and _mentions_self(D):
                            continue
                        uf, fs = eq_classes(pdb, ctx, n)
                        st, detail = kind_check(pdb, ctx, n, v, D, uf, fs)
                        kk = "%s/%s/call:%s/arg%d" % (key, fn["path"], cf.get("name"), pi)
                        seq[kk] = seq.get(kk, 0) + 1
                        if seq[kk] > 1:
                            kk = "%s#%d" % (kk, seq[kk])
                        n_sites += 1
                        rule = "an argument bounded only by one dimension is never passed where the callee's range check bounds it by another dimension of the same object"
                        if st == "contradiction":
                            rep.bad(kk, rule, n, detail)
                        else:
                            rep.ok(kk, rule, n, detail, nontrivial=(st == "ok"))
    return n_sites


def _mentions_self(t):
    if not isinstance(t, tuple):
        return False
    if t == ("param", 0):
        return True
    return any(_mentions_self(x) for x in t if isinstance(x, tuple))


# ---------------------------------------------------------------- effects: statement-level writes with their loop nests

class Effect:
    """A statement-level write: kind in
         'set'    target[index] = value            (Assign to an Index)
         'upd'    target[index] op= value          (AssignOp on an Index)
         'push'   target.push(value)
         'let'/'assign'/'assignop' on a local or field
       loops = enclosing For nodes, outermost first; conds = enclosing If nodes with polarity."""
    __slots__ = ("kind", "node", "target", "index", "value", "op", "loops", "stmt", "tnode", "vnode", "inode")

    def __init__(self, **kw):
        for k in self.__slots__:
            setattr(self, k, kw.get(k))


def enclosing_loops(n):
    out = []
    for a in ancestors(n):
        if a.get("k") in ("For", "While", "Loop"):
            out.append(a)
    out.reverse()
    return out


def effects(pdb, ctx, root=None):
    out = []
    root = root if root is not None else ctx.fn["body"]
    for n in walk(root):
        if in_macro(n):
            continue
        k = n.get("k")
        if k in ("Assign", "AssignOp"):
            l = strip(deref(n["l"]))
            lk = l.get("k")
            kind = None
            if lk == "Index":
                kind = "set" if k == "Assign" else "upd"
                tgt_ = ctx.term(l["base"])
                if tgt_[0] == "field" and tgt_[2] == "vec" and tgt_[1][0] == "var" and adt_of(ty_of(strip(deref(l["base"])).get("e", {}))) == "vector::Vector":
                    tgt_ = tgt_[1]          # `v.vec[i]` of a local Vector v is `v[i]`
                e = Effect(kind=kind, node=n, target=tgt_, index=ctx.term(l["idx"]), value=ctx.term(n["r"]),
                           op=n.get("op"), loops=enclosing_loops(n), tnode=l["base"], vnode=n["r"], inode=l["idx"])
            else:
                kind = "assign" if k == "Assign" else "assignop"
                e = Effect(kind=kind, node=n, target=ctx.term(l) if lk != "Local" else ("var", l["v"]) if ctx.term(l)[0] != "param" else ctx.term(l),
                           index=None, value=ctx.term(n["r"]), op=n.get("op"), loops=enclosing_loops(n), tnode=l, vnode=n["r"])
            out.append(e)
        elif k == "MethodCall" and is_push(pdb, n):
            out.append(Effect(kind="push", node=n, target=ctx.term(n["recv"]), index=None, value=ctx.term(n["args"][0]),
                              op=None, loops=enclosing_loops(n), tnode=n["recv"], vnode=n["args"][0]))
    return out


_push_cache = {}


def is_push(pdb, n):
    """`x.push(v)` on a Vec, or on a local wrapper whose body is the forwarding call `self.<vec>.push(elem)`."""
    if n.get("k") != "MethodCall" or len(n.get("args", [])) != 1:
        return False
    p = callee_path(n)
    if p is None:
        return False
    if p.startswith("std::vec::Vec<") and p.endswith("::push"):
        return True
    fn = pdb.fn(p)
    if fn is None:
        return False
    key = (id(pdb), p)
    if key not in _push_cache:
        res = False
        fw = forwards_to(pdb, fn)
        if fw is not None:
            callee, idxs, node = fw
            if callee and callee.startswith("std::vec::Vec<") and callee.endswith("::push") and idxs[1:] == [1]:
                res = True
        _push_cache[key] = res
    return _push_cache[key]


def elem_ref(pdb, ctx, n):
    """If node n reads/writes one element of a 2-D strided container return (obj_term, row_term, col_term),
    whether written `m[(r,c)]` or `m.mat[r*cols + c]`; for 1-D containers (obj_term, index_term)."""
    n = strip(deref(n))
    if n.get("k") == "MethodCall" and callee_generic(n) in CLONE_FNS:
        return elem_ref(pdb, ctx, n["recv"])
    if n.get("k") != "Index":
        return None
    reqs = index_requirements(pdb, ctx, n)
    if len(reqs) == 2:
        D = reqs[0][1]
        return (D[1], reqs[0][0], reqs[1][0])
    if len(reqs) == 1:
        bt = ctx.term(n["base"])
        if bt[0] == "field" and bt[2] == "vec":
            bt = bt[1]
        return (bt, reqs[0][0])
    return None


def early_exits(lp):
    """break / continue / return statements inside the body of loop lp (closures excluded; panics are not exits)."""
    out = []
    stack = [lp["body"]]
    while stack:
        x = stack.pop()
        k = x.get("k")
        if k == "Closure":
            continue
        if k in ("Break", "Continue", "Ret") and not x.get("x"):
            out.append(x)
        if k == "Try":
            out.append(x)
        stack.extend(children(x))
    return out


def for_range_total(ctx, fornode):
    """for_range, but None when the loop body can leave an iteration early: then `for v in lo..hi` does not mean
    that the body's effect happens for every v in the range, and full-range claims must not be made."""
    r = for_range(ctx, fornode)
    if r is None:
        return None
    if early_exits(fornode):
        return None
    return r


def range_of(ctx, fornode):
    return for_range_total(ctx, fornode)


def loop_var_ranges(ctx, loops):
    """{var_term: (lo, hi_exclusive, reversed)} for the For loops given."""
    out = {}
    for lp in loops:
        if lp.get("k") != "For":
            continue
        r = for_range_total(ctx, lp)
        if r is None:
            continue
        v, lo, hi, incl, rev = r
        if incl:
            hi = lin_add(hi, num(1))
        out[v] = (lo, hi, rev)
    return out


def same_dim(pdb, ctx, node, a, b):
    """a and b are the same dimension term modulo equalities known at node (guards + ctor ties)."""
    if a == b:
        return True
    uf, fs = eq_classes(pdb, ctx, node)
    return uf.same(a, b)


# ---------------------------------------------------------------- P / X / R: element-wise operator impls

OP_OF_TRAIT = {"std::ops::Add": "+", "std::ops::Sub": "-", "std::ops::Mul": "*", "std::ops::Div": "/", "std::ops::Neg": "neg",
               "std::ops::AddAssign": "+", "std::ops::SubAssign": "-", "std::ops::MulAssign": "*", "std::ops::DivAssign": "/"}
ASSIGN_SYM = {"+=": "+", "-=": "-", "*=": "*", "/=": "/", "+": "+", "-": "-", "*": "*", "/": "/"}


def _storage_base(t):
    """Vector operands are addressed through `.vec`: normalise idx bases to the owning object."""
    if t[0] == "field" and t[2] in ("vec", "mat"):          # Vector's and Matrix's flat storage: an element of it is an element of the owner
        return t[1]
    return t


def rule_elementwise(rep, pdb, fn, container_param=0, key="elementwise"):
    """Check one non-forwarding element-wise operator impl: polarity (P), co-indexing (X), full range (R)."""
    ctx = Ctx.for_fn(pdb, fn)
    tr = fn.get("impl_trait")
    want = OP_OF_TRAIT.get(tr)
    path = fn["path"]
    where = "%s:%d" % (fn["file"], fn["span"][0])
    effs = [e for e in effects(pdb, ctx) if e.kind in ("set", "upd", "push") and e.loops]
    rP = "the element of the result is `self_elem OP rhs_elem` with the trait's operator and the operands in that order"
    rX = "target and both operands are indexed by the same index term"
    rR = "the loops cover exactly 0..dim of the container written"
    if len(effs) != 1:
        rep.bad("%s-polarity/%s" % (key, path), rP, fn["body"], "expected exactly one element write inside loops, found %d" % len(effs), where=where)
        return
    e = effs[0]
    ranges = loop_var_ranges(ctx, e.loops)
    # ---- operands
    v = e.value
    opsym, a, b = None, None, None
    if e.kind == "upd":
        opsym = ASSIGN_SYM.get(e.op)
        a = ("idx", e.target, e.index)
        b = v
    else:
        if v[0] == "op":
            opsym, a, b = v[1], v[2], v[3]
        elif v[0] == "neg":
            opsym, a = "neg", v[1]
    selfP, rhsP = P(container_param), P(1 - container_param) if len(fn["params"]) > 1 else None

    def classify(t):
        """-> ('elem', owner, index) | ('scalar', param) | None"""
        if t is None:
            return None
        if t[0] == "idx":
            return ("elem", _storage_base(t[1]), t[2])
        if t[0] == "param":
            return ("scalar", t)
        return None

    ca, cb = classify(a), classify(b)
    ok_p = opsym == want
    detail = "op=%s expected=%s lhs=%s rhs=%s" % (opsym, want, show(a, ctx) if a else None, show(b, ctx) if b else None)
    # which objects do the operands come from?
    target_owner = _storage_base(e.target)
    init_alias = None
    if target_owner[0] == "var":
        bnd = ctx.binds.get(target_owner[1])
        if bnd is not None and bnd.init is not None:
            it = _storage_base(ctx.term(bnd.init))
            init_alias = it
    def owner_is(c, p):
        if c is None or c[0] != "elem":
            return False
        o = c[1]
        return o == p or (o == target_owner and init_alias == p)
    scalar_side = fn["impl_self"] in ("f64",)  # f64 * container
    if want == "neg":
        ok_p = ok_p and owner_is(ca, selfP)
    elif scalar_side:
        # commutative scalar product: one operand is the container element, the other the scalar self
        ok_p = ok_p and want == "*" and ((owner_is(ca, P(1)) and cb == ("scalar", P(0))) or (owner_is(cb, P(1)) and ca == ("scalar", P(0))))
    else:
        lhs_ok = owner_is(ca, selfP) or (e.kind == "upd" and _storage_base(e.target) == selfP)
        rhs_ok = cb is not None and ((cb[0] == "elem" and cb[1] == rhsP) or (cb[0] == "scalar" and cb[1] == rhsP))
        ok_p = ok_p and lhs_ok and rhs_ok
    rep.add("%s-polarity/%s" % (key, path), rP, ok_p, e.node, detail)
    # ---- co-indexing
    idxs = []
    if e.kind in ("set", "upd"):
        idxs.append(e.index)
    for c in (ca, cb):
        if c is not None and c[0] == "elem":
            idxs.append(c[2])
    ok_x = len(set(idxs)) == 1 if idxs else False
    if e.kind == "push":
        # the implicit target index is the iteration count of the single enclosing 0..n loop: operands must use its variable
        lv = list(ranges.keys())
        ok_x = ok_x and len(lv) == 1 and idxs[0] == lv[0]
    rep.add("%s-coindex/%s" % (key, path), rX, ok_x, e.node, "indices: %s" % [show(i, ctx) for i in idxs])
    # ---- full range
    ok_r = True
    det = []
    if e.kind == "push":
        # result starts empty; one push per iteration of 0..size(self-container)
        src = P(1) if scalar_side else selfP
        for vv, (lo, hi, rev) in ranges.items():
            good = lo == num(0) and (hi == SIZE(src) or hi == LEN(src))
            ok_r = ok_r and good
            det.append("%s in %s..%s" % (show(vv, ctx), show(lo, ctx), show(hi, ctx)))
        ok_r = ok_r and len(ranges) == 1
        tb = ctx.binds.get(target_owner[1]) if target_owner[0] == "var" else None
        fresh = tb is not None and tb.init is not None and ctx.term(tb.init)[0] == "call" and str(ctx.term(tb.init)[1]).endswith("::new") and len(ctx.term(tb.init)) == 2
        ok_r = ok_r and fresh
        det.append("target starts empty: %s" % fresh)
    else:
        idx = e.index
        comps = list(idx[1:]) if idx[0] == "tup" else [idx]
        tn = e.tnode
        tty = adt_of(ty_of(strip(deref(tn))))
        if tty in DIM_FAMILIES and len(comps) == 2:
            dims = [("field", e.target, d) for d in DIM_FAMILIES[tty]]
        elif tty == "vector::Vector":
            dims = [SIZE(e.target)]
        else:
            dims = [LEN(e.target)]
        if len(comps) != len(dims):
            ok_r = False
        for c, D in zip(comps, dims):
            r = ranges.get(c)
            if r is None:
                ok_r = False
                det.append("%s is not a loop variable" % show(c, ctx))
                continue
            lo, hi, rev = r
            good = lo == num(0) and same_dim(pdb, ctx, e.node, hi, D)
            ok_r = ok_r and good
            det.append("%s in %s..%s (dim %s)" % (show(c, ctx), show(lo, ctx), show(hi, ctx), show(D, ctx)))
    rep.add("%s-fullrange/%s" % (key, path), rR, ok_r, e.node, "; ".join(det))
    # ---- shape of a fresh result: same dims as the container operand
    if e.kind == "set" and target_owner[0] == "var":
        src = P(1) if scalar_side else selfP
        tty = adt_of(ty_of(strip(deref(e.tnode))))
        ok_s = True
        det = []
        if tty in DIM_FAMILIES:
            for d in DIM_FAMILIES[tty]:
                g = same_dim(pdb, ctx, e.node, ("field", target_owner, d), ("field", src, d))
                ok_s = ok_s and g
                det.append("%s=%s" % (d, g))
        elif tty == "vector::Vector" or True:
            g = same_dim(pdb, ctx, e.node, SIZE(target_owner), SIZE(src)) or same_dim(pdb, ctx, e.node, LEN(target_owner), LEN(("field", src, "vec")))
            if not g:
                # the consumed operand's own storage, moved instead of cloned: `let mut out = self.vec;`
                tb_ = ctx.binds.get(target_owner[1])
                ti_ = ctx.term(tb_.init) if tb_ is not None and tb_.init is not None else None
                g = ti_ in (("field", src, "vec"), src) and not [a_ for a_ in ctx.assigns.get(target_owner[1], []) if a_.get("k") == "Assign" and strip(a_["l"]).get("k") == "Local"]
            ok_s = g
            det.append("len=%s" % g)
        rep.add("%s-shape/%s" % (key, path), "the fresh result has the dimensions of the container operand", ok_s, e.node, " ".join(det))


# ---------------------------------------------------------------- W: termination shape, call graph

def local_callees(pdb, fn):
    out = []
    for n in walk(fn["body"]):
        if is_call_like(n) and not in_macro(n):
            p = callee_path(n)
            cf = pdb.fn(p) if p else None
            if cf is not None and cf["kind"] in ("Fn", "AssocFn"):
                out.append((cf, n))
    return out


def reachable_fns(pdb, fn):
    """All local fns reachable from fn (including fn), and whether the reachable call graph has a cycle."""
    seen = {}
    cyc = []
    stack = []

    def dfs(f):
        p = f["path"]
        if p in stack:
            cyc.append(list(stack[stack.index(p):]) + [p])
            return
        if p in seen:
            return
        seen[p] = f
        stack.append(p)
        for cf, _ in local_callees(pdb, f):
            dfs(cf)
        stack.pop()
    dfs(fn)
    return seen, cyc


def loops_of(fn):
    return [n for n in walk(fn["body"]) if n.get("k") in ("For", "While", "Loop") and not in_macro(n)]


def loop_is_bounded_for(ctx, lp):
    """A `for` over a range (or a by-value/by-ref iteration of a collection) whose bounds are not written in the body."""
    if lp.get("k") != "For":
        return False, "not a for loop"
    r = for_range(ctx, lp)
    if r is None:
        it = strip(lp["iter"])
        # iteration over a collection / drain / iter(): finite by construction
        return True, "iterates a collection (%s)" % it.get("k")
    v, lo, hi, incl, rev = r
    # bounds must not depend on something written inside the loop body
    from .guards import term_roots
    roots = term_roots(lo) | term_roots(hi)
    for root in roots:
        for (path, mode), node in ctx.mutations.get(root, []):
            if any(a is lp for a in ancestors(node)):
                # element writes do not change integer bounds unless the bound reads an element
                if mode == "elem" and not _reads_elem(lo, root) and not _reads_elem(hi, root):
                    continue
                if path and not _mentions_place(hi, project(root, path)) and not _mentions_place(lo, project(root, path)) and mode == "replace":
                    continue
                return False, "bound %s may change inside the loop" % show(hi, ctx)
    return True, "%s..%s" % (show(lo, ctx), show(hi, ctx))


def _reads_elem(t, root):
    from .guards import _mentions, term_roots
    return _mentions(t, lambda x: x[0] == "idx" and root in term_roots(x[1]))


def _mentions_place(t, place):
    from .guards import _mentions
    return _mentions(t, lambda x: x == place)


def rule_termination(rep, pdb, fn, key, allow_while=None):
    """W: every loop of fn and of everything it can reach is a bounded `for`; the reachable call graph is acyclic.
    allow_while: {fn_path: checker(ctx, loop) -> (ok, detail)} for the listed counter-bounded while loops."""
    seen, cyc = reachable_fns(pdb, fn)
    n_loops = 0
    bad = []
    for p, f in seen.items():
        ctx = Ctx.for_fn(pdb, f)
        for lp in loops_of(f):
            n_loops += 1
            if lp.get("k") == "For":
                ok, det = loop_is_bounded_for(ctx, lp)
            elif allow_while and p in allow_while:
                ok, det = allow_while[p](ctx, lp)
            else:
                ok, det = False, "%s loop" % lp.get("k")
            if not ok:
                bad.append("%s at %s: %s" % (p, loc(lp), det))
    rule = "every loop reachable from the entry point is a `for` over a loop-invariant range (or a listed counter-bounded while); the reachable call graph is acyclic"
    rep.add(key, rule, not bad and not cyc, fn["body"], "reachable fns=%d loops=%d %s%s" % (
        len(seen), n_loops, ("unbounded: %s" % bad) if bad else "", (" cycles: %s" % cyc) if cyc else ""),
        where="%s:%d" % (fn["file"], fn["span"][0]))
    return len(seen), n_loops


DENY_PREFIX = ("rand::", "std::time", "std::fs", "std::env", "std::thread", "num_cpus", "std::sync", "std::cell", "std::io::stdin",
               "std::net", "std::process", "core::cell", "core::sync")


def rule_no_hidden_state(rep, pdb, fn, key, allow=()):
    """The fn and everything reachable reads no static, thread-local, clock, RNG, file or environment."""
    seen, _ = reachable_fns(pdb, fn)
    bad = []
    for p, f in seen.items():
        for n in walk(f["body"]):
            if n.get("k") == "Def" and str(n.get("dk", "")).startswith("Static"):
                bad.append("%s reads static %s" % (p, n.get("fn")))
            if is_call_like(n):
                cp = callee_path(n) or ""
                g = callee_generic(n) or ""
                for d in DENY_PREFIX:
                    if (cp.startswith(d) or g.startswith(d)) and not any(cp.startswith(a) for a in allow):
                        bad.append("%s calls %s" % (p, cp))
    rule = "the entry point and its local callees read no statics, thread-locals, clocks, RNG, files, environment or thread state"
    rep.add(key, rule, not bad, fn["body"], "reachable fns=%d %s" % (len(seen), bad[:4]), where="%s:%d" % (fn["file"], fn["span"][0]))


# ---------------------------------------------------------------- arg-max / magnitude analysis (pivot searches, inf-norms)

ORDERED = ("<", ">", "<=", ">=")


def is_abs_term(t):
    """Signed::abs / f64::abs / Complex::abs of something."""
    return t[0] == "call" and (str(t[1]).endswith("::abs") or str(t[1]) in ("traits::Signed::abs",)) and len(t) == 3


def is_zero_term(t):
    return t == num(0) or (t[0] == "call" and str(t[1]).endswith("Zero::zero") or (t[0] == "call" and str(t[1]).endswith("Zero>::zero")))


class ArgMax:
    __slots__ = ("loop", "ifnode", "cmp", "best", "cur", "idx_var", "idx_val", "orient_ok", "best_gets_cur", "magnitude_ok",
                 "detail", "var", "lo", "hi", "fresh", "nan")


def find_argmax(pdb, ctx, loop):
    """Recognise `for v in lo..hi { if cur ⊳ best { best = cur; [idx = v] } }` in the body of `loop`.
    Returns ArgMax or None."""
    r = for_range_total(ctx, loop)     # a search loop that can skip candidates (break / continue) is not an arg-max
    if r is None:
        return None
    body = loop["body"]
    ifs = [s for s in body.get("stmts", []) if strip(s.get("e") or {}).get("k") == "If"]
    tail = body.get("expr")
    cands = [strip(s["e"]) for s in ifs]
    if tail is not None and strip(tail).get("k") == "If":
        cands.append(strip(tail))
    for ifn in cands:
        c = strip(ifn["cond"])
        nan_side = None
        if c.get("k") == "Binary" and c.get("op") == "||":
            # `cur.is_nan() || best < cur`: the update is also taken for a NaN candidate
            l_, r_ = strip(c["l"]), strip(c["r"])
            for cmp_, other in ((l_, r_), (r_, l_)):
                if cmp_.get("k") == "Binary" and cmp_.get("op") in ORDERED and other.get("k") == "MethodCall" and other.get("name") == "is_nan" and not other.get("args"):
                    c, nan_side = cmp_, other
                    break
        if c.get("k") != "Binary" or c["op"] not in ORDERED:
            continue
        # the variable(s) assigned in the branch
        assigns = [e for e in effects(pdb, ctx, ifn["then"]) if e.kind == "assign" and e.target[0] == "var"]
        if not assigns:
            continue
        L, R = ctx.term(c["l"]), ctx.term(c["r"])
        op = c["op"]
        small, big = (L, R) if op in ("<", "<=") else (R, L)
        am = ArgMax()
        am.loop, am.ifnode, am.cmp = loop, ifn, c
        am.var, am.lo, am.hi = r[0], r[1], r[2] if not r[3] else lin_add(r[2], num(1))
        best = None
        for e in assigns:
            if e.target == small or e.target == big:
                best = e
        if best is None:
            continue
        am.best = best.target
        am.cur = big if best.target == small else small
        am.orient_ok = best.target == small
        # the value assigned to best, compared through definitions of opaque locals
        bv = best.value
        am.best_gets_cur = _same_value(ctx, bv, am.cur)
        am.idx_var, am.idx_val = None, None
        for e in assigns:
            if e is not best:
                am.idx_var, am.idx_val = e.target, e.value
        cur_def = _resolve(ctx, am.cur)
        inits = _reaching_values(ctx, am.best, exclude=best.node, at=c)
        am.magnitude_ok = is_abs_term(cur_def) and all(is_abs_term(_resolve(ctx, t)) or is_zero_term(_resolve(ctx, t)) for t in inits) and bool(inits)
        # the accumulators are (re)initialised for every search: their `let` / initialising assignment lives in the
        # same loop nest as the search loop (a declaration hoisted out of an enclosing loop would carry a stale maximum over)
        search_nest = [id(L) for L in enclosing_loops(loop)]

        def fresh(v):
            if v is None or v[0] != "var":
                return True
            b_ = ctx.binds.get(v[1])
            if b_ is None or b_.node is None:
                return False
            if [id(L) for L in enclosing_loops(b_.node)] == search_nest and _npos(b_.node) < _npos(loop):
                return True
            for a_ in ctx.assigns.get(v[1], []):
                if [id(L) for L in enclosing_loops(a_)] == search_nest and _npos(a_) < _npos(loop) and a_.get("k") == "Assign":
                    return True
            return False
        am.nan = nan_side is not None and _same_value(ctx, ctx.term(nan_side["recv"]), am.cur)
        am.fresh = fresh(am.best) and fresh(am.idx_var)
        am.magnitude_ok = am.magnitude_ok and am.fresh
        am.detail = "compare %s %s %s; best=%s gets %s; index=%s gets %s; candidates |.|: %s; initial value(s) of best: %s" % (
            show(L, ctx), op, show(R, ctx), show(am.best, ctx), show(bv, ctx),
            show(am.idx_var, ctx) if am.idx_var else None, show(am.idx_val, ctx) if am.idx_val else None,
            is_abs_term(cur_def), [show(_resolve(ctx, t), ctx) for t in inits]) + "; accumulators re-initialised for every search: %s" % am.fresh
        return am
    return None


def _resolve(ctx, t):
    d = ctx.def_term(t) if t and t[0] == "var" else None
    return d if d is not None else t


def _same_value(ctx, a, b):
    return a == b or _resolve(ctx, a) == _resolve(ctx, b)


def _reaching_values(ctx, var, exclude=None, at=None):
    """Terms of the values a local may hold at node `at` (all its assignments if at is None) other than through
    `exclude`.  An assignment reaches `at` if it is textually before it, or through the back edge of a loop
    that contains both but not the variable's `let` (a `let` inside the loop re-declares the variable)."""
    out = []
    if var[0] != "var":
        return out
    b = ctx.binds.get(var[1])
    if b is not None and b.init is not None:
        out.append(ctx.term(b.init))
    let_anc = set(id(x) for x in ancestors(b.node)) if b is not None and b.node is not None else set()
    at_loops = [L for L in ancestors(at) if L.get("k") in ("For", "While", "Loop") and id(L) not in let_anc] if at is not None else []
    for a in ctx.assigns.get(var[1], []):
        if a is exclude:
            continue
        if at is not None:
            ap, tp = _npos(a), _npos(at)
            if not ap < tp:
                a_anc = set(id(x) for x in ancestors(a))
                if not any(id(L) in a_anc for L in at_loops):
                    continue
        if a.get("k") == "Assign" and strip(a["l"]).get("k") == "Local":
            out.append(ctx.term(a["r"]))
        else:
            out.append(("opaque", a.get("id")))
    return out


def value_before(ctx, var, at, depth=0):
    """Term of the value local `var` holds just before node `at`, when it is determined by straight-line code:
    the last whole assignment / `let` textually before `at` that is not nested in a branch or loop which excludes
    `at`; the variable's own occurrences in that right-hand side are replaced by its value before the assignment
    (so `let mut x = b.clone(); x = P * x` and `let mut x = P * b.clone()` give the same term).  None when an
    element write, a `&mut` borrow or a conditional assignment intervenes."""
    if var[0] != "var" or depth > 8:
        return None
    b = ctx.binds.get(var[1])
    if b is None or b.kind != "let" or b.proj:
        return None
    tp = _npos(at)
    at_anc = set(id(x) for x in ancestors(at)) | {id(at)}
    last = None
    later = []
    for kind, m in ctx.mutations.get(var, []):
        mp = _npos(m)
        if m is at:
            continue
        if not mp < tp or any(a is m for a in ancestors(at)):
            later.append(m)
            continue
        if last is None or _npos(last[1]) < mp:
            last = (kind, m)
    # a later mutation reaches `at` only around the back edge of a loop containing both; the dominating definition
    # (the `let`, or the last assignment before `at`) kills it when it sits inside that loop too
    def_node = last[1] if last is not None else b.node
    def_anc = set(id(x) for x in ancestors(def_node)) if def_node is not None else set()
    for m in later:
        for L in ancestors(m):
            if L.get("k") in ("For", "While", "Loop") and id(L) in at_anc and L is not at and id(L) not in def_anc:
                return None
    if last is None:
        return ctx.term(b.init) if b.init is not None else None
    kind, m = last
    if m.get("k") == "MethodCall" and m.get("name") == "fill" and len(m.get("args", [])) == 1 and strip(deref(m["recv"])).get("k") == "Local":
        # v.fill(x) on a Vec / slice: every element becomes x, the length stays
        p = str(callee_path(m) or "")
        if "[T]" in p or "slice" in p:
            for a in ancestors(m):
                if a.get("k") in ("If", "Match", "For", "While", "Loop", "Closure") and id(a) not in at_anc:
                    return None
            from .guards import _known_len
            ln = _known_len(ctx, LEN(var))
            return ("call", "std::vec::from_elem", ctx.term(m["args"][0]), ln)
    if m.get("k") != "Assign" or strip(m["l"]).get("k") != "Local":
        return None
    # the assignment must dominate `at`: every enclosing If/loop of m also encloses `at`
    for a in ancestors(m):
        if a.get("k") in ("If", "Match", "For", "While", "Loop", "Closure") and id(a) not in at_anc:
            return None
    rhs = ctx.term(m["r"])
    if _mentions_term(rhs, var):
        prev = value_before(ctx, var, m, depth + 1)
        if prev is None:
            return None
        rhs = subst_term(rhs, {var: prev})
    return rhs


def _shared_loop(m, at, letnode):
    let_anc = set(id(x) for x in ancestors(letnode)) if letnode is not None else set()
    la = [p for p in ancestors(m) if p.get("k") in ("For", "While", "Loop") and id(p) not in let_anc]
    lb = set(id(p) for p in ancestors(at))
    return any(id(p) in lb for p in la)


def _mentions_term(t, x):
    if t == x:
        return True
    return isinstance(t, tuple) and any(_mentions_term(y, x) for y in t if isinstance(y, tuple))


def index_sequence(rng, k):
    """For a loop range rng = (v, lo, hi, inclusive, reversed) and an index term k = +-v + c, the (first, last,
    direction) of the values k takes, direction -1 = descending; None if k is not such a function of v."""
    from .terms import lin_parts, lin_sub, lin_add, num
    if rng is None:
        return None
    v, lo, hi, incl, rev = rng
    c, atoms = lin_parts(k)
    a = atoms.get(v)
    if a not in (1, -1):
        return None
    rest = lin_sub(k, v) if a == 1 else lin_add(k, v)
    if _mentions_term(rest, v):
        return None
    v_lo = lo
    v_hi = hi if incl else lin_add(hi, num(-1))
    v_first, v_last = (v_hi, v_lo) if rev else (v_lo, v_hi)
    kf = lin_add(rest, v_first) if a == 1 else lin_sub(rest, v_first)
    kl = lin_add(rest, v_last) if a == 1 else lin_sub(rest, v_last)
    direction = (1 if a == 1 else -1) * (-1 if rev else 1)
    return kf, kl, direction


def return_paths(ctx, fn=None):
    """[(facts, value term, node)] for every way the function returns a value: explicit `return e` statements and the
    leaves of the tail expression (through if/else chains and blocks), each with the facts known there."""
    from .guards import facts as _facts
    fn = fn or ctx.fn
    out = []
    for n in walk(fn["body"]):
        if n.get("k") == "Ret" and n.get("e") is not None and not in_macro(n):
            if any(a.get("k") == "Closure" for a in ancestors(n)):
                continue
            out.append((_facts(ctx, n), ctx.term(n["e"]), n))

    def leaves(e):
        e0 = e
        e = strip(e)
        if e.get("k") == "If" and e.get("else") is not None:
            leaves(e["then"])
            leaves(e["else"])
        elif e.get("k") == "Block" and e.get("expr") is not None and not e.get("m"):
            leaves(e["expr"])
        else:
            out.append((_facts(ctx, e), ctx.term(e), e))
    tail = fn["body"].get("expr")
    if tail is not None:
        leaves(tail)
    return out


def place_ref(pdb, ctx, n, eqs=None):
    """Canonical description of the storage place an lvalue-ish expression denotes: for an element of a strided 2-D
    container ('elem2', owner, row, col) however it is addressed (`m[(r,c)]` or `m.mat[r*stride + c]`), for a 1-D
    element ('elem1', base, index), else ('place', term).  eqs: {term: term} equalities known at the site (e.g.
    rows -> cols in a square branch) applied to flat indices before they are split."""
    n = strip(deref(n))
    if n.get("k") == "Index":
        if eqs:
            r = _flat_elem(pdb, ctx, n["base"], subst_term(ctx.term(n["idx"]), eqs))
            if r is not None:
                return r
        er = elem_ref(pdb, ctx, n)
        if er is not None and len(er) == 3:
            return ("elem2", er[0], er[1], er[2])
        if er is not None:
            return ("elem1", er[0], er[1])
    return ("place", ctx.term(n))


def _flat_elem(pdb, ctx, base, it):
    bt = ctx.term(base)
    b0 = strip(deref(base))
    if bt[0] == "field" and b0.get("k") == "Field":
        oadt = adt_of(ty_of(b0["e"]))
        st = container_stride(pdb, oadt) if oadt in DIM_FAMILIES else None
        if st is not None and st[0] == bt[2]:
            S = ("field", bt[1], st[1])
            sp = split_flat(it, S)
            if sp is not None:
                return ("elem2", bt[1], sp[0], sp[1])
    return None


def swap_events(pdb, ctx, root, eqs=None):
    """Exchanges of two storage places performed below `root`, whatever the idiom:
         mem::swap(&mut A, &mut B)                         X.swap(p, q)   (Vec / slice / Vector element exchange)
         let mut t = A; mem::swap(&mut B, &mut t); A = t;  let t = A; A = B; B = t;
       -> [(placeA, placeB, node)] with places as in place_ref."""
    out = []
    used = set()
    for n in walk(root):
        if in_macro(n):
            continue
        k = n.get("k")
        if k == "Call" and callee_path(n) in ("std::mem::swap", "core::mem::swap") and len(n.get("args", [])) == 2:
            a, b = n["args"]
            pa, pb = place_ref(pdb, ctx, a, eqs), place_ref(pdb, ctx, b, eqs)
            # temp idiom: one side is a local temp initialised from A and written back to A afterwards
            for tmp_side, other in ((pa, pb), (pb, pa)):
                if tmp_side[0] == "place" and tmp_side[1][0] == "var":
                    tb = ctx.binds.get(tmp_side[1][1])
                    if tb is not None and tb.kind == "let" and tb.init is not None:
                        src = place_ref(pdb, ctx, _first_index_node(tb.init), eqs)
                        backs = [m for m in ctx.assigns.get(tmp_side[1][1], [])]
                        wb = [x for x in walk(root) if x.get("k") == "Assign" and strip(x["r"]).get("k") == "Local" and strip(x["r"])["v"] == tmp_side[1][1]
                              and _npos(x) > _npos(n)]
                        if not backs and len(wb) == 1 and place_ref(pdb, ctx, wb[0]["l"], eqs) == src and _npos(tb.node) < _npos(n):
                            out.append((src, other, n))
                            used.add(id(n))
                            break
            if id(n) not in used:
                out.append((pa, pb, n))
        elif k == "MethodCall" and n.get("name") == "swap" and len(n.get("args", [])) == 2:
            p = str(callee_path(n) or "")
            if "[T]" in p or "slice" in p or p.startswith("std::vec::Vec") or p == "vector::Vector<T>::swap":
                base = n["recv"]
                ia, ib = (ctx.term(x) for x in n["args"])
                places = []
                for it in (ia, ib):
                    if eqs:
                        it = subst_term(it, eqs)
                    fe = _flat_elem(pdb, ctx, base, it)
                    bt = ctx.term(base)
                    if bt[0] == "field" and bt[2] == "vec":
                        bt = bt[1]
                    places.append(fe if fe is not None else ("elem1", bt, it))
                out.append((places[0], places[1], n))
    # let t = A; A = B; B = t;
    for n in walk(root):
        if n.get("k") == "Block":
            st = n.get("stmts", [])
            for i in range(len(st) - 2):
                l0, s1, s2 = st[i], st[i + 1], st[i + 2]
                if l0.get("k") != "Let" or l0.get("init") is None or l0["pat"].get("k") != "Bind":
                    continue
                a1 = strip(s1.get("e") or {}) if s1.get("k") in ("Semi", "Expr") else {}
                a2 = strip(s2.get("e") or {}) if s2.get("k") in ("Semi", "Expr") else {}
                if a1.get("k") == "Assign" and a2.get("k") == "Assign":
                    r2 = strip(a2["r"])
                    if r2.get("k") == "Local" and r2["v"] == l0["pat"]["v"]:
                        A = place_ref(pdb, ctx, _first_index_node(l0["init"]), eqs)
                        if place_ref(pdb, ctx, a1["l"], eqs) == A and place_ref(pdb, ctx, _first_index_node(a1["r"]), eqs) == place_ref(pdb, ctx, a2["l"], eqs):
                            out.append((A, place_ref(pdb, ctx, a2["l"], eqs), a1))
    return out


def _first_index_node(n):
    n0 = strip(deref(n))
    if n0.get("k") == "MethodCall" and callee_generic(n0) in CLONE_FNS:
        return _first_index_node(n0["recv"])
    return n0


def _subst_len0(t, lens):
    """t with every length atom in `lens` replaced by 0 (linear parts renormalised)."""
    return subst_term(t, {l: num(0) for l in lens})


def _impossible_at_len0(f, lens):
    """A comparison fact over usize terms that cannot hold once the given lengths are 0 (e.g. i < len)."""
    if f[0] != "cmp":
        return False
    op, a, b = f[1], _subst_len0(f[2], lens), _subst_len0(f[3], lens)
    if op in ("<", "<="):
        L = lin_sub(b, a)
        if op == "<":
            L = lin_add(L, num(-1))
        c, atoms = lin_parts(L)            # need L >= 0 with every atom >= 0
        return c < 0 and all(k <= 0 for k in atoms.values())
    if op == "==":
        d = lin_sub(a, b)
        c, atoms = lin_parts(d)
        return (not atoms) and c != 0
    if op == "!=":
        return a == b
    return False


def rule_empty_safe(rep, pdb, fn, key, lens, what, skip=()):
    """No construct of fn is CERTAIN to panic when the container is empty (every length in `lens` is 0) on a path that
    an empty container can reach:  an unsigned subtraction that is negative at len = 0, an element read at a constant
    index, `.unwrap()` of a local Result fn whose Err condition is `len == 0`.  A site is ignored when a fact in force
    there cannot hold for an empty container (inside `for i in 0..len`, behind `if len == 0 { return .. }`, ...).
    Only definite failures are reported; sites whose outcome depends on other values are not claimed."""
    ctx = Ctx.for_fn(pdb, fn)
    n_sites = 0
    seq = {}

    def reachable(node):
        for f in facts_x(pdb, ctx, node):
            if f[0] == "or":
                if all(any(_impossible_at_len0(g, lens) for g in alt) for alt in f[1]):
                    return False
            elif _impossible_at_len0(f, lens):
                return False
        return True

    def nonempty_invariant(node):
        """node sits in a `while` that is entered only with a non-empty container and whose body does nothing but `pop` while the
        loop condition has the conjunct len > 1: the container never becomes empty inside the loop (len >= 1 is invariant)."""
        for w in [a for a in ancestors(node) if a.get("k") == "While"]:
            if reachable(w):
                continue
            atoms = cond_atoms(ctx, w["cond"], True)
            guard = any(a[0] == "cmp" and ((a[1] == "<" and a[2] == num(1) and a[3] in lens) or (a[1] == "<=" and a[2] == num(2) and a[3] in lens)) for a in atoms)
            stmts = list(w["body"].get("stmts", [])) + ([{"e": w["body"]["expr"]}] if w["body"].get("expr") is not None else [])
            only_pops = bool(stmts) and all(strip(st_.get("e") or {}).get("k") == "MethodCall" and strip(st_["e"]).get("name") == "pop" and
                                            ("len", ctx.term(strip(st_["e"])["recv"])) in lens for st_ in stmts)
            if guard and only_pops:
                return True
        return False

    _reach0 = reachable

    def reachable(node, _r=_reach0):          # noqa: F811
        return _r(node) and not nonempty_invariant(node)

    def report(node, msg):
        k = "%s/%s" % (key, fn["path"])
        seq[k] = seq.get(k, 0) + 1
        kk = k if seq[k] == 1 else "%s#%d" % (k, seq[k])
        rep.bad(kk, "no operation of the property panics on the empty %s (length 0 is inside the property's quantifier)" % what, node, msg)

    for n in walk(fn["body"]):
        if in_macro(n) or any(a.get("k") == "Closure" for a in ancestors(n)):
            continue
        k = n.get("k")
        if k == "Binary" and n.get("op") == "-" and base_ty(ty_of(n)) == "usize" and not n.get("fn"):
            n_sites += 1
            t = _subst_len0(ctx.term(n), lens)
            c, atoms = lin_parts(t)
            if c < 0 and all(v <= 0 for v in atoms.values()) and t != ctx.term(n) and reachable(n):
                report(n, "`%s` is negative for the empty %s: usize underflow (panic in debug builds, a huge index in release)" % (show(ctx.term(n), ctx), what))
        elif k == "Index":
            reqs = index_requirements(pdb, ctx, n)
            if len(reqs) == 1:
                n_sites += 1
                v, D, role = reqs[0]
                if D in lens and not term_vars_any(v) and lin_parts(_subst_len0(v, lens))[0] >= 0 and not lin_parts(_subst_len0(v, lens))[1] and reachable(n):
                    report(n, "element %s of an empty %s is read" % (show(v, ctx), what))
        elif k == "MethodCall" and n.get("name") in ("unwrap", "expect") and str(callee_path(n) or "").startswith("std::result::Result"):
            inner = strip(n["recv"])
            p = callee_path(inner) if inner.get("k") in ("MethodCall", "Call") else None
            cf = pdb.fn(p) if p else None
            if cf is not None:
                cond = err_condition(pdb, cf)
                if cond is not None:
                    n_sites += 1
                    cc = Ctx.for_fn(pdb, cf)
                    args = call_args(inner)
                    sub = {("param", i): ctx.term(a) for i, a in enumerate(args)}
                    atoms = cond_atoms(cc, cond, True, sub)
                    # Err iff all atoms hold; certain at len = 0 if each atom becomes a tautology
                    certain = bool(atoms) and all(a[0] == "cmp" and a[1] == "==" and _subst_len0(a[2], lens) == _subst_len0(a[3], lens) and (a[2] in lens or a[3] in lens) for a in atoms)
                    if certain and reachable(n):
                        report(n, "`%s().%s()` is Err for the empty %s" % (str(p).split("::")[-1], n.get("name"), what))
    rep.add("%s/%s/sites" % (key, fn["path"]), "subtraction / constant-index / unwrap sites examined for certain failure on the empty %s" % what, True, fn["body"],
            "sites=%d" % n_sites, where="%s:%d" % (fn["file"], fn["span"][0]), nontrivial=False)
    return n_sites


def term_vars_any(t):
    from .guards import term_vars
    return bool(term_vars(t))


from .terms import err_condition  # noqa: E402,F401


def _npos(n):
    sp = n.get("sp")
    return (sp[0], sp[1]) if sp else (0, 0)


def ordered_cmps_on_elements(pdb, fn):
    """Ordered comparisons whose operands are of the generic element type (overloaded PartialOrd on T) or complex."""
    out = []
    for n in walk(fn["body"]):
        if in_macro(n):
            continue
        if n.get("k") == "Binary" and n.get("op") in ORDERED:
            lt = base_ty(ty_of(n["l"]))
            if n.get("fn") and (lt == "T" or lt.startswith("complex::Complex")):
                out.append(n)
    return out


# ---------------------------------------------------------------- L armed: in-range proofs for listed functions

def strengthen(fs, usize_terms=()):
    """Derive lower bounds for usize terms:  t != c with t >= c gives t >= c+1 (iterated).  Returns extra facts."""
    lb = {}
    for t in usize_terms:
        lb[t] = Fraction(0)
    for f in fs:
        if f[0] == "cmp" and f[1] in ("<", "<=") and is_num(f[2]) and not is_num(f[3]):
            v = f[2][1] + (1 if f[1] == "<" else 0)
            lb[f[3]] = max(lb.get(f[3], Fraction(0)), v)
    changed = True
    while changed:
        changed = False
        for f in fs:
            if f[0] == "cmp" and f[1] == "!=":
                a, b = f[2], f[3]
                if is_num(b) and not is_num(a):
                    a, b = b, a
                if is_num(a) and b in lb and lb[b] == a[1]:
                    lb[b] = a[1] + 1
                    changed = True
    return [norm_cmp("<=", num(v), t) for t, v in lb.items() if v > 0]


def rewrite_eqs(t, eqmap):
    return subst_term(t, eqmap) if eqmap else t


def armed_bounds(rep, pdb, fn, key, extra_facts=(), usize_terms=(), eqmap=None, only_bases=None):
    """Prove 0 <= idx < len for every Vector/Vec index site of fn (fail = violation).  eqmap rewrites length atoms
    (struct invariant); extra_facts are the property's domain assumptions."""
    ctx = Ctx.for_fn(pdb, fn)
    n = 0
    seq = {}
    ties = local_ties(pdb, ctx)
    em = dict(eqmap or {})
    for a, b in ties:
        em.setdefault(a, b)
    for node in walk(fn["body"]):
        if node.get("k") != "Index" or in_macro(node):
            continue
        reqs = index_requirements(pdb, ctx, node)
        if len(reqs) != 1:
            continue
        v, D, role = reqs[0]
        bt = ctx.term(node["base"])
        if only_bases is not None and not only_bases(bt):
            continue
        fs = list(facts_x(pdb, ctx, node)) + list(extra_facts)
        em2 = dict(em)
        for f in fs:
            if f[0] == "cmp" and f[1] == "==":
                a, b = f[2], f[3]
                if a[0] == "len" and a not in em2:
                    em2[a] = b
                elif b[0] == "len" and b not in em2:
                    em2[b] = a
        fs2 = [("cmp", f[1], rewrite_eqs(f[2], em2), rewrite_eqs(f[3], em2)) if f[0] == "cmp" else f for f in fs]
        fs2 += strengthen(fs2, usize_terms)
        v2, D2 = rewrite_eqs(v, em2), rewrite_eqs(D, em2)
        lo = prove_ge0(v2, fs2, nonneg_atoms=False) or _nonneg_syntactic(v2)
        hi = prove_lt(v2, D2, fs2)
        kk = "%s/%s/%s[%s]" % (key, fn["path"], show(bt, ctx), show(v, ctx))
        seq[kk] = seq.get(kk, 0) + 1
        if seq[kk] > 1:
            kk = "%s#%d" % (kk, seq[kk])
        n += 1
        rep.add(kk, "0 <= index < length is entailed by one fact (guards, loop ranges, struct invariant, the property's domain n >= 1)",
                lo and hi, node, "index %s, length %s: lower=%s upper=%s" % (show(v2, ctx), show(D2, ctx), lo, hi), proof=True)
    return n


def _nonneg_syntactic(t):
    c, atoms = lin_parts(t)
    return c >= 0 and all(k >= 0 for k in atoms.values())


def self_adt(fn):
    """base ADT path of the impl's self type (`&banded::Banded<T>` -> `banded::Banded`), wherever the impl is written"""
    t = str(fn.get("impl_self") or "").strip()
    while t.startswith("&"):
        t = t[1:].strip()
        if t.startswith("mut "):
            t = t[4:].strip()
    return t.split("<", 1)[0]


def involves_adt(fn, adt):
    """the impl is for `adt` (by value or reference) or one of the trait's type arguments is (e.g. `impl Mul<Matrix<f64>> for f64`)"""
    if self_adt(fn) == adt:
        return True
    return any(str(a).lstrip("&").strip().startswith(adt + "<") or str(a).lstrip("&").strip() == adt for a in fn.get("impl_trait_args", []) or [])


# ---------------------------------------------------------------- early returns must not skip required work

def rule_no_skipping_return(rep, pdb, fn, key, domain=(), what="the sweep"):
    """A procedure of a solver (elimination step, substitution sweep) may `return` early only on paths where everything it
    skips is vacuous: every write that textually follows the `return` sits in a loop whose range is provably empty under the
    facts known at the `return`, or the facts contradict the property's domain (e.g. rows >= 1).  Found by an independent
    mutant that "protected" `rows - 1` in backsolve with `if self.rows < 2 { return; }`, which skips the division of the
    1 x 1 system."""
    from .guards import facts as _facts, for_range as _raw_range, prove_le as _ple, prove_lt as _plt
    ctx = Ctx.for_fn(pdb, fn)
    rule = ("an early `return` of %s skips only work that is vacuous on that path (loops with a provably empty range), unless the "
            "path is outside the property's domain" % fn["path"])
    rets = [n for n in walk(fn["body"]) if n.get("k") == "Ret" and not in_macro(n) and not any(a.get("k") == "Closure" for a in ancestors(n))]
    effs = effects(pdb, ctx)
    calls = [n for n in walk(fn["body"]) if n.get("k") in ("MethodCall", "Call") and not in_macro(n) and pdb.fn(callee_path(n) or "") is not None
             and str(n.get("recv", {}).get("adj") or n.get("recv", {}).get("ty") or "").startswith("&mut")]
    ok, dets, where = True, [], None
    for r in rets:
        fs = _facts(ctx, r)
        if any(D[0] == "cmp" and D[1] == "<=" and _plt(D[3], D[2], fs) for D in domain):
            dets.append("return at %s is outside the domain" % loc(r))
            continue
        rp = (r["sp"][0], r["sp"][1]) if r.get("sp") else (0, 0)
        branch = [a for a in ancestors(r) if a.get("k") == "Block"]
        skipped = []
        for node, loops in [(e.node, e.loops) for e in effs] + [(c, enclosing_loops(c)) for c in calls]:
            sp = node.get("sp")
            if not sp or (sp[0], sp[1]) <= rp:
                continue
            if branch and any(a is branch[0] for a in ancestors(node)):
                continue                     # same branch as the return: dead code after it
            vac = False
            for lp in loops:
                lsp = lp.get("sp")
                if lp.get("k") != "For" or not lsp or (lsp[0], lsp[1]) <= rp:
                    continue
                rg = _raw_range(ctx, lp)
                if rg is not None and _ple(rg[2], rg[1], fs):
                    vac = True
                    break
            if not vac:
                skipped.append(node)
        if skipped:
            ok = False
            where = where or r
            dets.append("return at %s skips %d write(s)/call(s) that are not vacuous there, first at %s" % (loc(r), len(skipped), loc(skipped[0])))
        else:
            dets.append("return at %s skips only empty loops" % loc(r))
    rep.add(key, rule, ok, where or fn["body"], "; ".join(dets) or "no early return", where=loc(where) if where is not None else loc(fn["body"]))
    return ok


# ---------------------------------------------------------------- "a fresh vector v of length n with v[i] = f(i)"

def fresh_map(pdb, ctx, root=None):
    """The one loop that builds a fresh Vec element by element, in either spelling:
         let mut v = vec![z; n]; for i in 0..n { v[i] = f(i) }          (kind 'set')
         let mut v = Vec::new(); for i in 0..n { v.push(f(i)) }          (kind 'push'; also what `.map(f).collect()` canonicalises to)
       -> dict(i=loop var term, lo, hi, value=f(i) term, target=v term, kind) with hi the loop's upper bound, or None.
       For the 'set' form the allocated length must equal hi; the loop must be total (no early exit)."""
    effs = [e for e in effects(pdb, ctx, root) if e.kind in ("set", "push") and e.loops and len(e.loops) == 1]
    if len(effs) != 1:
        return None
    e = effs[0]
    r = for_range_total(ctx, e.loops[0])
    if r is None or r[3] or r[4] or e.target[0] != "var":
        return None
    tb = ctx.binds.get(e.target[1])
    ti = ctx.term(tb.init) if tb is not None and tb.init is not None else None
    if ti is None or ti[0] != "call":
        return None
    if e.kind == "set":
        if not (str(ti[1]).endswith("from_elem") and len(ti) == 4 and ti[3] == r[2] and e.index == r[0]):
            return None
    else:
        if not (str(ti[1]).endswith("::new") and len(ti) == 2):
            return None
    return {"i": r[0], "lo": r[1], "hi": r[2], "value": e.value, "target": e.target, "kind": e.kind, "node": e.node}


# ---- frame rule: which fields of `self` a method may write (transitively through local `&mut self` methods)

_fw_cache = {}


def field_writes(pdb, fn, _stack=()):
    """Names of the fields of `self` that fn may write: assignments to places rooted at self.<f>, `&mut` method calls on
    them (Vec / Vector / Matrix mutators), `&mut self.<f>` handed to a call, `*self = ..` (every field: '*'), and the writes
    of every local `&mut self` method it calls."""
    key = (id(pdb), fn["path"])
    if key in _fw_cache:
        return _fw_cache[key]
    if fn["path"] in _stack:
        return set()
    out = set()
    params = fn.get("params", [])
    self_v = params[0].get("v") if params and params[0].get("name") == "self" else None
    if self_v is None:
        _fw_cache[key] = out
        return out

    def root_field(e):
        """the field f if place e is rooted at self.f (through indexing, further fields, derefs), '*' for self itself"""
        e = strip(e)
        last = None
        while True:
            k = e.get("k")
            if k == "Field":
                last = e.get("name")
                e = strip(e["e"])
            elif k == "Index":
                e = strip(e["base"])
                last = None if strip(e).get("k") != "Field" else last
            elif k in ("AddrOf",) or (k == "Unary" and e.get("op") == "*"):
                e = strip(e["e"])
            elif k == "MethodCall" and e.get("name") in ("deref_mut", "as_mut", "as_mut_slice", "iter_mut", "index_mut"):
                e = strip(e["recv"])
            else:
                break
        if e.get("k") == "Local" and e.get("v") == self_v:
            return last if last is not None else "*"
        return None

    def place_field(e):
        e0 = strip(e)
        # walk down to the first Field directly on self
        chain = []
        while True:
            k = e0.get("k")
            if k == "Field":
                chain.append(e0.get("name"))
                e0 = strip(e0["e"])
            elif k == "Index":
                b0 = strip(e0["base"])
                while b0.get("k") == "AddrOf" or (b0.get("k") == "Unary" and b0.get("op") == "*"):
                    b0 = strip(b0["e"])
                if b0.get("k") == "Local" and b0.get("v") == self_v and not chain:
                    # `self[(i, j)]` through a local IndexMut impl: the field its returned reference points into
                    impl = pdb.fn(str(e0.get("impl") or "").replace("::Index<", "::IndexMut<").replace(">::index", ">::index_mut")) or pdb.fn(e0.get("impl") or "")
                    if impl is not None and impl.get("params"):
                        t_ = impl["body"].get("expr") if impl["body"].get("k") == "Block" else impl["body"]
                        sv_ = impl["params"][0].get("v")
                        t0 = strip(t_) if t_ is not None else {}
                        ch = []
                        while True:
                            kk = t0.get("k")
                            if kk == "Field":
                                ch.append(t0.get("name"))
                                t0 = strip(t0["e"])
                            elif kk == "Index":
                                t0 = strip(t0["base"])
                            elif kk == "AddrOf" or (kk == "Unary" and t0.get("op") == "*"):
                                t0 = strip(t0["e"])
                            else:
                                break
                        if t0.get("k") == "Local" and t0.get("v") == sv_ and ch:
                            return ch[-1]
                    return "*"
                e0 = b0
            elif k in ("AddrOf",) or (k == "Unary" and e0.get("op") == "*"):
                e0 = strip(e0["e"])
            else:
                break
        if e0.get("k") == "Local" and e0.get("v") == self_v:
            return chain[-1] if chain else "*"
        return None
    for n in walk(fn["body"]):
        if in_macro(n):
            continue
        k = n.get("k")
        if k in ("Assign", "AssignOp"):
            f = place_field(n["l"])
            if f is not None:
                out.add(f)
        elif k in ("MethodCall", "Call"):
            args = list(n.get("args", []))
            if k == "MethodCall":
                rv = n["recv"]
                mut_recv = str(rv.get("adj") or rv.get("ty") or "").startswith("&mut")
                f = place_field(rv)
                if f is not None and mut_recv:
                    cf = pdb.fn(callee_path(n) or "")
                    if f == "*" and cf is not None:
                        out |= field_writes(pdb, cf, _stack + (fn["path"],))
                    elif f == "*":
                        out.add("*")
                    else:
                        out.add(f)
            for a in args:
                a0 = strip(a)
                if a0.get("k") == "AddrOf" and a0.get("mut"):
                    f = place_field(a0)
                    if f is not None:
                        out.add(f)
    _fw_cache[key] = out
    return out


def rule_frame(rep, pdb, key, fn, allowed, what):
    """The method writes only the fields its definition changes."""
    w = field_writes(pdb, fn)
    extra = sorted(x for x in w if x not in allowed)
    rep.add(key, "%s writes only %s (directly or through the `&mut self` methods it calls): a write to another field - a dimension reset 'for tidiness', a cached value - changes the recorded shape or state behind the definition" % (what, sorted(allowed)),
            not extra, fn["body"], "fields written: %s; outside the frame: %s" % (sorted(w), extra), where=loc(fn["body"]))
    return not extra
