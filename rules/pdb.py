"""Program database: build it from /repo with the rustc_private driver, load it, navigate it.

Nothing of ohsl is executed: `cargo +nightly check` only type-checks; the driver dumps the
typed HIR.  A fresh CARGO_TARGET_DIR is used on every run so cargo can never replay a stale
result; the run fails closed if the fact file is missing or names another crate.
"""
import json
import os
import shutil
import subprocess
import tempfile
import time

VERIF = os.path.dirname(os.path.dirname(os.path.abspath(__file__)))
REPO = os.environ.get("OHSL_REPO", "/repo")
DRIVER = os.path.join(VERIF, "driver", "target", "release", "ohsl-pdb-driver")


class PdbError(Exception):
    pass


def _sysroot():
    return subprocess.check_output(["rustc", "+nightly", "--print", "sysroot"], text=True).strip()


def ensure_driver():
    if os.path.exists(DRIVER):
        return
    env = dict(os.environ, CARGO_NET_OFFLINE="true")
    r = subprocess.run(["cargo", "+nightly", "build", "--release", "--offline"],
                       cwd=os.path.join(VERIF, "driver"), env=env, capture_output=True, text=True)
    if r.returncode != 0 or not os.path.exists(DRIVER):
        raise PdbError("driver build failed:\n" + r.stderr[-4000:])


def build_pdb(repo=None, profile="dev", cfg_test=False, all_targets=False, keep=None):
    """Run the driver over `repo` (default /repo) and return (pdb_dict, info)."""
    repo = repo or REPO
    ensure_driver()
    tmp = tempfile.mkdtemp(prefix="ohsl-pdb-")
    out = os.path.join(tmp, "pdb.json")
    env = dict(os.environ)
    env.update({
        "CARGO_NET_OFFLINE": "true",
        "LD_LIBRARY_PATH": _sysroot() + "/lib" + (":" + env["LD_LIBRARY_PATH"] if env.get("LD_LIBRARY_PATH") else ""),
        "RUSTFLAGS": "-Awarnings",
        "RUSTC_WORKSPACE_WRAPPER": DRIVER,
        "PDB_OUT": out,
        "PDB_CRATE": "ohsl",
        "CARGO_TARGET_DIR": os.path.join(tmp, "t"),
    })
    env.pop("RUSTC_WRAPPER", None)
    cmd = ["cargo", "+nightly", "check", "--offline", "--quiet"]
    if all_targets:
        cmd += ["--all-targets"]
    elif cfg_test:
        cmd += ["--lib", "--profile", "test"]
    else:
        cmd += ["--lib"]
    if profile == "release":
        cmd += ["--release"]
    t0 = time.time()
    try:
        r = subprocess.run(cmd, cwd=repo, env=env, capture_output=True, text=True)
        if r.returncode != 0:
            raise PdbError("cargo check of %s failed (the tree does not build):\n%s" % (repo, r.stderr[-4000:]))
        if not os.path.exists(out):
            raise PdbError("driver produced no fact file (cargo skipped the wrapper?)")
        with open(out) as f:
            pdb = json.load(f)
        if pdb.get("crate") != "ohsl":
            raise PdbError("fact file names crate %r" % pdb.get("crate"))
        if keep:
            shutil.copy(out, keep)
    finally:
        shutil.rmtree(tmp, ignore_errors=True)
    info = {"driver_s": round(time.time() - t0, 2), "cmd": " ".join(cmd), "repo": repo,
            "bytes": len(json.dumps(pdb)) if False else None}
    return pdb, info


# ----------------------------------------------------------------------------
# Navigation
# ----------------------------------------------------------------------------

CHILD_KEYS = ("f", "recv", "l", "r", "e", "cond", "then", "else", "scrut", "body", "base", "idx",
              "iter", "lo", "hi", "init", "expr", "guard", "els")
LIST_KEYS = ("args", "es", "stmts", "arms", "fields")


def children(n):
    """Direct sub-nodes (expressions / statements / arms / struct fields) of a node, in source order."""
    out = []
    k = n.get("k")
    # keep source order for the common kinds
    if k == "MethodCall":
        order = ("recv", "args")
    elif k == "Call":
        order = ("f", "args")
    elif k == "Block":
        order = ("stmts", "expr")
    elif k in ("Binary", "Assign", "AssignOp"):
        order = ("l", "r")
    elif k == "If":
        order = ("cond", "then", "else")
    elif k == "Match":
        order = ("scrut", "arms")
    elif k == "For":
        order = ("iter", "body")
    elif k == "While":
        order = ("cond", "body")
    elif k == "Index":
        order = ("base", "idx")
    elif k == "Range":
        order = ("lo", "hi")
    elif k == "Let":
        order = ("init", "els")
    else:
        order = CHILD_KEYS + LIST_KEYS
    for key in order:
        v = n.get(key)
        if v is None:
            continue
        if isinstance(v, dict):
            if "k" in v or "body" in v or "e" in v:
                out.append(v)
        elif isinstance(v, list):
            for x in v:
                if isinstance(x, dict):
                    out.append(x)
    return out


def walk(n):
    """Pre-order walk over all nodes below (and including) n."""
    stack = [n]
    while stack:
        x = stack.pop()
        yield x
        ch = children(x)
        stack.extend(reversed(ch))


def link(fn):
    """Set parent pointers ('_p') and owner ('_fn') on every node of a fn body."""
    body = fn["body"]
    body["_p"] = None
    stack = [body]
    n = 0
    while stack:
        x = stack.pop()
        x["_fn"] = fn
        n += 1
        for c in children(x):
            c["_p"] = x
            stack.append(c)
    fn["_nodes"] = n


def parent(n):
    return n.get("_p")


def ancestors(n):
    p = n.get("_p")
    while p is not None:
        yield p
        p = p.get("_p")


def is_expr(n):
    return "ty" in n and "k" in n


def loc(n):
    fn = n.get("_fn")
    if n.get("osp"):          # a node inlined from a private helper: report where it was written
        return "%s:%d" % (n.get("ofile") or (fn["file"] if fn else "?"), n["osp"][0])
    sp = n.get("sp") or (fn and fn.get("span")) or [0]
    return "%s:%d" % (fn["file"] if fn else "?", sp[0])


def strip(n):
    """Strip transparent wrappers: single-expression blocks, `&`/`&mut`, `*`, casts are NOT stripped here."""
    while True:
        if n.get("k") == "Block" and not n.get("stmts") and n.get("expr") is not None and not n.get("m"):
            n = n["expr"]
            continue
        return n


class Pdb:
    def __init__(self, d, canon=True):
        self.d = d
        self.fns = {}
        self.by_name = {}
        self.canon_stats = {}
        if canon and not d.get("_canon"):
            from .canon import canonicalise
            self.canon_stats = canonicalise(d)
            d["_canon"] = self.canon_stats
        elif d.get("_canon"):
            self.canon_stats = d["_canon"]
        for f in d["fns"]:
            link(f)
            p = f["path"]
            if p in self.fns:
                # duplicate canonical names would make keys ambiguous: keep both under suffixed keys
                i = 2
                while "%s#%d" % (p, i) in self.fns:
                    i += 1
                p = "%s#%d" % (p, i)
                f["path"] = p
            self.fns[p] = f
            self.by_name.setdefault(f.get("name"), []).append(f)
        self.adts = {a["path"]: a for a in d["adts"]}
        self.impls = d["impls"]
        self.tyfacts = {t["ty"]: t for t in d["tyfacts"]}

    def fn(self, path):
        return self.fns.get(path)

    def local_fns(self):
        return [f for f in self.d["fns"] if f["kind"] in ("Fn", "AssocFn") and not f.get("inlined_everywhere")]

    def find(self, self_ty=None, name=None, trait=None, pred=None):
        out = []
        for f in self.local_fns():
            if name is not None and f.get("name") != name:
                continue
            if self_ty is not None and f.get("impl_self") != self_ty:
                continue
            if trait is not None and f.get("impl_trait") != trait:
                continue
            if pred is not None and not pred(f):
                continue
            out.append(f)
        return out
