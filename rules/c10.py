"""C10 — root finder returns n values: count, dispatch, termination shape, divisor discipline, polishing, deflation."""
from .pdb import strip, walk, loc, ancestors
from .terms import Ctx, num, show, lin_add
from .common import value_before
from .common import (P, F, SIZE, LEN, EQ, effects, callee_path, call_args, in_macro, rule_termination, effective_guards, facts_x,
                     is_zero_term, ctor_summary, loops_of)
from .guards import facts, cond_atoms, norm_cmp
from .guards import for_range as raw_for_range
from .common import for_range_total as for_range

LEVEL = "other"
PC = "polynomial::Polynomial<complex::Complex<f64>>"
DEG = lin_add(SIZE(P(0)), num(-1))
CDIV = ("<complex::Complex<T> as std::ops::Div>::div", "<complex::Complex<T> as std::ops::Div<T>>::div")

# allow-list: one named symbol each, with the mathematical reason
ALLOW = {
    ("cubic_solve", "k"): "k = cbrt((d1 +- sqrt(d1^2 - 4 d0^3))/2): k = 0 forces d0 = 0, and then base = (d1 +- |d1|)/2 with the sign chosen to avoid "
                          "cancellation, so base = d1 != 0 because the d0 = d1 = 0 case was branched off",
}


def local_name(ctx, n):
    n = strip(n)
    if n.get("k") == "Local":
        return n["name"], ("var", n["v"])
    return None, None


def run(rep, pdb, tier):
    ps = pdb.fn("%s::poly_solve" % PC)
    if ps is None:
        rep.missing("anchor/poly_solve", "poly_solve exists", "not found")
        return {}
    ctx = Ctx.for_fn(pdb, ps)
    effs = effects(pdb, ctx)
    tail = ps["body"].get("expr")
    roots = ctx.term(tail) if tail is not None else None
    # ---- count
    rb = ctx.binds.get(roots[1]) if roots is not None and roots[0] == "var" else None
    rinit = ctx.term(rb.init) if rb is not None and rb.init is not None else None
    alloc = rinit is not None and rinit[0] == "call" and str(rinit[1]).endswith("Vector<T>::zeros") and rinit[2] == DEG
    rep.add("count/alloc", "poly_solve returns the vector allocated as zeros(degree), degree = len(coeffs) - 1", alloc, ps["body"], "init=%s" % (show(rinit, ctx) if rinit else None), where=loc(ps["body"]))
    repl = [e for e in effs if e.kind == "assign" and e.target == roots]
    n_ok = 0
    for e in repl:
        v = e.value
        fs = facts(ctx, e.node)
        helper = pdb.fn(v[1]) if v[0] == "call" else None
        hl = None
        if helper is not None:
            hctx = Ctx.for_fn(pdb, helper)
            ht = helper["body"].get("expr")
            outs = ([ht] if ht is not None else []) + [r_["e"] for r_ in walk(helper["body"]) if r_.get("k") == "Ret" and r_.get("e") is not None]

            def _len_of(node):
                """length of the vector an exit of the helper hands back: a local allocated zeros(k) and never re-bound,
                Vector::new(k, v), or Vector::create(vec![e1, .., ek])"""
                t_ = hctx.term(node)
                if t_[0] == "var":
                    hb = hctx.binds.get(t_[1])
                    hi = hctx.term(hb.init) if hb is not None and hb.init is not None else None
                    if hi is not None and not [a for a in hctx.assigns.get(t_[1], []) if a.get("k") == "Assign" and strip(a["l"]).get("k") == "Local"]:
                        t_ = hi
                    else:
                        return None
                if t_[0] == "call" and str(t_[1]).endswith("Vector<T>::zeros"):
                    return t_[2]
                if t_[0] == "call" and str(t_[1]).endswith("Vector<T>::new") and len(t_) == 4:
                    return t_[2]
                if t_[0] == "call" and str(t_[1]).endswith("Vector<T>::create"):
                    arrs = [x for x in walk(node if strip(node).get("k") != "Local" else (hctx.binds[t_and_var[1]].init if False else node)) if x.get("k") == "Array"]
                    if not arrs and strip(node).get("k") == "Local":
                        arrs = [x for x in walk(hctx.binds[strip(node)["v"]].init) if x.get("k") == "Array"]
                    if len(arrs) == 1 and isinstance(arrs[0].get("es"), list):
                        return num(len(arrs[0]["es"]))
                return None
            lens = [_len_of(o_) for o_ in outs]
            if lens and all(l_ is not None and l_ == lens[0] for l_ in lens):
                hl = lens[0]
        guard = [f for f in fs if f[0] == "cmp" and f[1] == "==" and {f[2], f[3]} == {DEG, hl}] if hl is not None else []
        ok = hl is not None and bool(guard)
        n_ok += ok
        rep.add("count/replace-%s" % (str(v[1]).split("::")[-1] if v[0] == "call" else "?"),
                "poly_roots is replaced only under `degree == k` by the result of a helper that allocates zeros(k)", ok, e.node, "helper length=%s guard degree==%s present=%s" % (show(hl, ctx) if hl else None, show(hl, ctx) if hl else None, bool(guard)))
    # deflation loop writes every poly_roots[j], j in (0..degree).rev()
    sets = [e for e in effs if e.kind == "set" and e.target == roots and e.loops]
    okd = len(sets) == 1
    if okd:
        r = for_range(ctx, sets[0].loops[0])
        okd = r is not None and r[1] == num(0) and r[2] == DEG and not r[3] and sets[0].index == r[0] and len(sets[0].loops) == 1
        fs = facts(ctx, sets[0].node)
        def _ne(k_):
            return any(f[0] == "cmp" and f[1] == "!=" and {f[2], f[3]} == {num(k_), DEG} for f in fs)
        # degree > 3 stated as such, or as the last arm of `match degree { 0 => .., 1 => .., 2 => .., 3 => .., _ => .. }`
        okd = okd and (any(f[0] == "cmp" and f[1] == "<" and f[2] == num(3) and f[3] == DEG for f in fs) or all(_ne(k_) for k_ in (0, 1, 2, 3)))
    rep.add("count/deflation-writes-all", "for degree > 3 the deflation loop writes poly_roots[j] for every j in (0..degree).rev()", okd, sets[0].node if sets else ps["body"], "")
    # ---- dispatch
    conds = []
    for s in ps["body"].get("stmts", []):
        e = strip(s.get("e") or {})
        while e.get("k") == "If":          # separate ifs, or one if / else-if chain (a match on the degree is canonicalised to that)
            for a in cond_atoms(ctx, e["cond"], True):
                if a[0] == "cmp" and DEG in (a[2], a[3]):
                    conds.append((a[1], a[2], a[3]))
            nxt_ = strip(e["else"]) if e.get("else") is not None else {}
            if nxt_ and nxt_.get("k") != "If" and {("==", num(k_), DEG) for k_ in (0, 1, 2, 3)} <= {(o_, a_ if a_[0] == "num" else b_, DEG) for o_, a_, b_ in conds if o_ == "=="}:
                conds.append(("<", num(3), DEG))       # the final `else` of a chain that tested 0, 1, 2 and 3: everything above
            e = nxt_
    have = set()
    for op, a, b in conds:
        if op == "==" and a[0] == "num":
            have.add(("==", int(a[1])))
        elif op == "==" and b[0] == "num":
            have.add(("==", int(b[1])))
        elif op == "<" and a[0] == "num" and b == DEG:
            have.add((">", int(a[1])))
        elif op == "<=" and a[0] == "num" and b == DEG:
            have.add((">", int(a[1]) - 1))
    cover = {("==", 0), ("==", 1), ("==", 2), ("==", 3), (">", 3)} <= have
    eff = effective_guards(pdb, ps)
    rep.add("dispatch", "the degree tests {==0 => panic, ==1, ==2, ==3, >3} cover every usize and the panic precedes any element access",
            cover and EQ(DEG, num(0)) in eff, ps["body"], "tests=%s degree-0 panic first=%s" % (sorted(have), EQ(DEG, num(0)) in eff), where=loc(ps["body"]))
    # ---- entry points
    for path, real in (("polynomial::Polynomial<f64>::roots", True), ("%s::roots" % PC, False)):
        fn = pdb.fn(path)
        key = "entry/%s" % ("f64" if real else "Cmplx")
        rule = "roots copies all len(coeffs) coefficients in order (real ones with imaginary part 0.0) and forwards refine unchanged to poly_solve"
        if fn is None:
            rep.missing(key, rule, "not found")
            continue
        c2 = Ctx.for_fn(pdb, fn)
        es = [e for e in effects(pdb, c2) if e.kind == "set"]
        t2 = fn["body"].get("expr")
        tt = c2.term(t2) if t2 is not None else None
        ok = len(es) == 1 and tt is not None and tt[0] == "call" and str(tt[1]).endswith("::poly_solve") and tt[3] == P(1)
        pus = [e for e in effects(pdb, c2) if e.kind == "push" and len(e.loops) == 1]
        if not es and len(pus) == 1 and tt is not None and tt[0] == "call" and str(tt[1]).endswith("::poly_solve") and tt[3] == P(1):
            # the copy built by in-order pushes into an empty Vec wrapped by Vector::create (an iterator chain is canonicalised to this)
            e = pus[0]
            r = for_range(c2, e.loops[0])
            src = ("idx", F(P(0), "coeffs"), r[0]) if r else None
            want = ("call", "complex::Complex<T>::new", src, num(0)) if real else src
            tb = c2.binds.get(e.target[1]) if e.target[0] == "var" else None
            ti = c2.term(tb.init) if tb is not None and tb.init is not None else None
            fresh = ti is not None and ti[0] == "call" and str(ti[1]).endswith("::new") and len(ti) == 2
            arg = tt[2]
            argd = c2.def_term(arg) if arg[0] == "var" and c2.def_term(arg) is not None else arg
            wrapped = argd == ("call", "vector::Vector<T>::create", e.target)
            ok = r is not None and r[1:5] == (num(0), LEN(F(P(0), "coeffs")), False, False) and e.value == want and fresh and wrapped
        elif ok:
            e = es[0]
            r = for_range(c2, e.loops[0]) if len(e.loops) == 1 else None
            src = ("idx", F(P(0), "coeffs"), r[0]) if r else None
            want = ("call", "complex::Complex<T>::new", src, num(0)) if real else src
            cb = c2.binds.get(e.target[1]) if e.target[0] == "var" else None
            ci = c2.term(cb.init) if cb is not None and cb.init is not None else None
            alloc2 = ci is not None and ci[0] == "call" and str(ci[1]).endswith("Vector<T>::new") and ci[2] == LEN(F(P(0), "coeffs"))
            ok = r is not None and r[1:5] == (num(0), LEN(F(P(0), "coeffs")), False, False) and e.index == r[0] and e.value == want and tt[2] == e.target and alloc2
        if not ok and not real and not es and not pus and tt is not None and tt[0] == "call" and str(tt[1]).endswith("::poly_solve") and tt[3] == P(1):
            # complex coefficients need no conversion: the whole vector cloned at once, `Vector::create(self.coeffs.clone())`
            arg = tt[2]
            argd = c2.def_term(arg) if arg[0] == "var" and c2.def_term(arg) is not None else arg
            ok = argd == ("call", "vector::Vector<T>::create", F(P(0), "coeffs")) and not c2.mutations.get(arg, []) if arg[0] == "var" else argd == ("call", "vector::Vector<T>::create", F(P(0), "coeffs"))
        rep.add(key, rule, ok, fn["body"], "", where=loc(fn["body"]))
        rule_termination(rep, pdb, fn, "termination/%s" % ("f64" if real else "Cmplx"))
    # ---- divisors
    n_div = 0
    for name in ("quadratic_solve", "cubic_solve", "poly_solve", "laguer"):
        fn = pdb.fn("%s::%s" % (PC, name))
        if fn is None:
            rep.missing("divisors/%s" % name, "function exists", "not found")
            continue
        c2 = Ctx.for_fn(pdb, fn)
        seq = 0
        for n in walk(fn["body"]):
            if n.get("k") != "Binary" or n.get("op") != "/" or in_macro(n):
                continue
            if (n.get("impl") or "") not in CDIV:
                continue
            seq += 1
            n_div += 1
            dn = strip(n["r"])
            d = c2.term(dn)
            nm, var = local_name(c2, dn)
            key = "divisors/%s#%d" % (name, seq)
            rule = ("the divisor of a complex division is a non-zero literal, a leading coefficient of the property's domain, dominated by a zero/magnitude test, "
                    "or allow-listed by name with a mathematical reason")
            status, why = classify(pdb, c2, fn, name, n, dn, d, nm, var)
            rep.add(key, rule, status, n, "divisor %s: %s" % (show(d, c2)[:80], why))
    # ---- no numerical decision is taken by the lexicographic order of complex values
    from .c01 import rule_magnitude
    n_cmp = rule_magnitude(rep, pdb, ["polynomial::Polynomial<f64>::roots", "%s::roots" % PC], key="magnitude")
    # ---- quadratic: the sign that avoids cancellation in q = -(b + sgn*sqrt(disc))/2 is that of Re(conj(b) * sqrt(disc))
    qs = pdb.fn("%s::quadratic_solve" % PC)
    if qs is not None:
        cq = Ctx.for_fn(pdb, qs)
        tested = []
        for n_ in walk(qs["body"]):
            if n_.get("k") != "If":
                continue
            for at in cond_atoms(cq, n_["cond"], True):
                if at[0] in ("cmp", "ncmp") and at[1] in ("<", "<=") and num(0) in (at[2], at[3]):
                    t_ = at[3] if at[2] == num(0) else at[2]
                    if t_[0] == "var":
                        b_ = cq.binds.get(t_[1])
                        t_ = cq.term(b_.init) if b_ is not None and b_.init is not None else t_
                    if t_[0] == "field" and t_[2] == "real":
                        tested.append((n_, t_[1]))
        okq = len(tested) == 1
        detq = "sign tests on a real part: %d" % len(tested)
        if okq:
            prod = tested[0][1]
            conj_b = ("call", "complex::Complex<T>::conj", P(1))
            issqrt = lambda x_: x_[0] == "call" and str(x_[1]).endswith("::sqrt")
            okq = prod[0] == "op" and prod[1] == "*" and ((prod[2] == conj_b and issqrt(prod[3])) or (prod[3] == conj_b and issqrt(prod[2])))
            detq = "tested quantity: Re(%s)" % show(prod, cq)[:120]
        rep.add("quadratic-sign", "the sign of sqrt(disc) in q is chosen from Re(conj(b) * sqrt(disc)): without the conjugate the test is right for real b only, and a b with a dominant imaginary part "
                "takes the cancelling branch", okq, tested[0][0] if tested else qs["body"], detq)
    # ---- the root finder gives up (panics) only for degree 0: no other `if .. { <diverges without returning> }` in the search
    from .guards import diverges as _div
    gave_up = []
    for f_ in [ps] + [x for x in (pdb.fn("%s::laguer" % PC),) if x is not None]:
        cf = Ctx.for_fn(pdb, f_)
        for n_ in walk(f_["body"]):
            if n_.get("k") == "If" and n_.get("else") is None and _div(n_["then"]) and not any(x.get("k") in ("Ret", "Break", "Continue") for x in walk(n_["then"])):
                ats = cond_atoms(cf, n_["cond"], True)
                deg0 = f_ is ps and len(ats) == 1 and ats[0][0] == "cmp" and ats[0][1] == "==" and {ats[0][2], ats[0][3]} == {DEG, num(0)}
                if not deg0:
                    gave_up.append(n_)
    rep.add("panics-only-degree-0", "poly_solve and laguer panic only for a degree-0 polynomial: every other input gets its n roots (an iteration-count or convergence guard that panics turns hard inputs into failures)",
            not gave_up, gave_up[0] if gave_up else ps["body"], "other panicking guards: %s" % [loc(g) for g in gave_up])
    # ---- Cardano: the triple-root shortcut is taken only when d0 == 0 AND d1 == 0
    cs = pdb.fn("%s::cubic_solve" % PC)
    rule = "in cubic_solve the shortcut that returns one value three times is control-dependent on both discriminant quantities being zero (d0 == 0 && d1 == 0)"
    if cs is None:
        rep.missing("cardano-branch", rule, "cubic_solve not found")
    else:
        c3 = Ctx.for_fn(pdb, cs)
        e3 = [e for e in effects(pdb, c3) if e.kind == "set"]
        copies = [e for e in e3 if e.value[0] == "idx" and e.value[1] == e.target]      # roots[1] = roots[0]
        okc = len(copies) == 2
        det = "copy assignments=%d" % len(copies)
        anchor = copies[0].node if okc else None
        if not okc:
            # the shortcut written as an early `return Vector::new(3, v)` (one value three times)
            fills = [r_ for r_ in walk(cs["body"]) if r_.get("k") == "Ret" and r_.get("e") is not None and c3.term(r_["e"])[0] == "call" and
                     str(c3.term(r_["e"])[1]).endswith("Vector<T>::new") and c3.term(r_["e"])[2] == num(3)]
            if len(fills) == 1:
                okc, anchor = True, fills[0]
                det = "early return of new(3, v)"
        if okc:
            fs = facts(c3, anchor)
            zs = [f for f in fs if f[0] == "cmp" and f[1] == "==" and (is_zero_term(f[2]) or is_zero_term(f[3]))]
            tested = set()
            for f in zs:
                tested.add(f[3] if is_zero_term(f[2]) else f[2])
            # d0 = b^2 - 3ac, d1 = 2b^3 - 9abc + 27a^2 d: two distinct tested quantities, both also used in the general branch
            okc = len(tested) == 2
            det = "shortcut guarded by %d zero tests" % len(tested)
        rep.add("cardano-branch", rule, okc, anchor if anchor is not None else cs["body"], det)
        # ... and the value it returns three times is the triple root -b / (3a)
        if okc:
            a_, b_ = P(0), P(1)
            wants = (("op", "/", ("neg", b_), ("op", "*", num(3), a_)), ("op", "/", ("neg", b_), ("op", "*", a_, num(3))))
            if copies and len(copies) == 2:
                firsts = [e for e in e3 if e.target == copies[0].target and e.index == num(0) and facts(c3, e.node) == facts(c3, copies[0].node)]
                tv = firsts[0].value if len(firsts) == 1 else None
            else:
                tt_ = c3.term(anchor["e"]) if anchor is not None and anchor.get("k") == "Ret" else None
                tv = tt_[3] if tt_ is not None and len(tt_) == 4 else None
            if tv is not None and tv[0] == "var" and c3.def_term(tv) is not None:
                tv = c3.def_term(tv)

            def _unvar(t_):
                if isinstance(t_, tuple):
                    if t_ and t_[0] == "var" and len(t_) == 2 and c3.def_term(t_) is not None:
                        return _unvar(c3.def_term(t_))
                    return tuple(_unvar(x_) if isinstance(x_, tuple) else x_ for x_ in t_)
                return t_
            tv = _unvar(tv) if tv is not None else None
            rep.add("cardano-branch/value", "the triple-root shortcut returns -b / (3a) (the coefficient of x^2 over three times the leading one), not a sibling coefficient", tv in wants,
                    anchor if anchor is not None else cs["body"], "value = %s" % (show(tv, c3) if tv is not None else None))
    # ---- snap to the real axis: the component that is dropped is the one that was tested small
    snaps = [e for e in effs if e.kind == "assign" and e.loops and e.value[0] == "call" and str(e.value[1]).endswith("Complex<T>::new") and e.value[2] == ("field", e.target, "real") and e.value[3] == num(0)]
    rule = "a computed root is snapped to the real axis (imaginary part dropped) only under |imag| <= c*|real| with the dropped component on the small side"
    class _Snap:
        pass
    if len(snaps) != 1:
        # the snapped value produced by an expression (`let x = if |x.imag| <= .. { Complex::new(x.real, 0.0) } else { x }`, an inlined helper)
        snaps = []
        for n_ in walk(ps["body"]):
            if n_.get("k") == "Call" and any(a.get("k") in ("For", "While", "Loop") for a in ancestors(n_)) and not in_macro(n_):
                t_ = ctx.term(n_)
                if t_[0] == "call" and str(t_[1]).endswith("Complex<T>::new") and len(t_) == 4 and t_[3] == num(0) and t_[2][0] == "field" and t_[2][2] == "real":
                    sn = _Snap()
                    sn.node, sn.target = n_, t_[2][1]
                    snaps.append(sn)
    if len(snaps) != 1:
        rep.missing("snap", rule, "snap statement not found (%d)" % len(snaps))
    else:
        e = snaps[0]
        x = e.target
        fs = facts(ctx, e.node)
        good = False
        for f in fs:
            if f[0] == "cmp" and f[1] in ("<=", "<") and f[2][0] == "call" and str(f[2][1]).endswith("::abs") and f[2][2] == ("field", x, "imag"):
                rhs = f[3]
                facs = []

                def fl(t):
                    if t[0] == "op" and t[1] == "*":
                        fl(t[2])
                        fl(t[3])
                    else:
                        facs.append(t)
                fl(rhs)
                if any(t[0] == "call" and str(t[1]).endswith("::abs") and t[2] == ("field", x, "real") for t in facs) and all(
                        t[0] in ("num", "def") or (t[0] == "call" and str(t[1]).endswith("::abs")) for t in facs):
                    good = True
        rep.add("snap", rule, good, e.node, "")
    # ---- Laguerre escape step cannot vanish
    lg = pdb.fn("%s::laguer" % PC)
    rule = "the fallback step of laguer (taken when both denominators vanish) has modulus positive-constant + |x|, so it cannot be zero and be mistaken for convergence (`*x == x1`)"
    if lg is None:
        rep.missing("escape-step", rule, "laguer not found")
    else:
        lc = Ctx.for_fn(pdb, lg)
        pol = [lc.term(n) for n in walk(lg["body"]) if n.get("k") == "Call" and str(callee_path(n)).endswith("::polar")]
        ok = len(pol) == 1
        if ok:
            r_ = pol[0][2]
            ok = r_[0] == "op" and r_[1] == "+" and ((r_[2][0] == "num" and r_[2][1] > 0 and r_[3][0] == "call" and str(r_[3][1]).endswith("::abs")) or
                                                  (r_[3][0] == "num" and r_[3][1] > 0 and r_[2][0] == "call" and str(r_[2][1]).endswith("::abs")))
        rep.add("escape-step", rule, ok, lg["body"], "%s" % (show(pol[0], lc)[:120] if pol else None), where=loc(lg["body"]))
    # ---- laguer stops on scale-free tests only
    if lg is not None:
        lc = Ctx.for_fn(pdb, lg)
        rets = [r_ for r_ in walk(lg["body"]) if r_.get("k") == "Ret" and any(a.get("k") in ("For", "While", "Loop") for a in ancestors(r_))]
        bad_s = []
        for r_ in rets:
            for a in ancestors(r_):
                if a.get("k") in ("For", "While", "Loop"):
                    break
                if a.get("k") != "If":
                    continue
                for at in cond_atoms(lc, a["cond"], True) + cond_atoms(lc, a["cond"], False):
                    if at[0] in ("cmp", "ncmp") and at[1] in ("<", "<=", ">", ">="):
                        consts = [t for t in (at[2], at[3]) if (t[0] == "num" and t[1] != 0) or t[0] == "def"]
                        floats = [t for t in (at[2], at[3]) if t[0] == "call" and str(t[1]).endswith(("::abs", "::norm", "::abs_sqr", "::max", "::min"))]
                        if consts and floats:
                            bad_s.append(r_)
        rep.add("scale-free-stops/laguer", "laguer stops iterating only on tests that are invariant under scaling the polynomial (|p(x)| <= its own rounding bound, x unchanged): an "
                "ordered comparison of a magnitude with a constant stops at once on every polynomial whose coefficients are uniformly small (p and c*p have the same roots)",
                not bad_s, bad_s[0] if bad_s else lg["body"], "returns inside the iteration: %d, guarded by an absolute threshold: %d" % (len(rets), len(bad_s)),
                where=loc(bad_s[0]) if bad_s else loc(lg["body"]))
    # ---- a Newton correction divides the value by the FIRST derivative of the Horner sweep
    rule_n = ("where a Horner sweep accumulates b <- x*b + a_j (the value), d <- x*d + b (the first derivative), f <- x*f + d (half the second derivative), a correction "
              "`x - b / q` (or `x -= b / q`) divides by d: dividing the value by another accumulator of the sweep is not Newton's step (b / f tends to p'(r)/(3a) at an inflection-point root)")
    n_sweeps, n_corr, bad_c = 0, 0, []
    for f_ in pdb.local_fns():
        if f_.get("file") != "src/polynomial/mod.rs" or f_.get("body") is None:
            continue
        cf = Ctx.for_fn(pdb, f_)
        try:
            ef = [e for e in effects(pdb, cf) if e.kind == "assign" and e.loops and e.target[0] == "var"]
        except Exception:
            continue
        roles = {}
        changed = True
        while changed:
            changed = False
            for e in ef:
                v = e.value
                if e.target in roles or not (v[0] == "op" and v[1] == "+"):
                    continue
                for prod, add in ((v[2], v[3]), (v[3], v[2])):
                    if prod[0] == "op" and prod[1] == "*" and e.target in (prod[2], prod[3]):
                        if add[0] == "idx":
                            roles[e.target] = 0
                            changed = True
                        elif add in roles:
                            roles[e.target] = roles[add] + 1
                            changed = True
        if 0 in roles.values() and 1 in roles.values():
            n_sweeps += 1
        if not roles:
            continue
        for n_ in walk(f_["body"]):
            if n_.get("k") == "Binary" and n_.get("op") == "/" and not in_macro(n_):
                par = n_.get("_p") or {}
                while par.get("k") == "Paren" or (par.get("k") == "Block" and not par.get("stmts")):
                    par = par.get("_p") or {}
                minus = (par.get("k") == "Binary" and par.get("op") == "-" and strip(par.get("r")) is n_) or (par.get("k") == "AssignOp" and par.get("op") in ("-=", "-") and strip(par.get("r")) is n_)
                num_, den_ = cf.term(n_["l"]), cf.term(n_["r"])
                if minus and roles.get(num_) == 0 and den_ in roles:
                    n_corr += 1
                    if roles[den_] != 1:
                        bad_c.append(n_)
    rep.add("newton-correction", rule_n, not bad_c, bad_c[0] if bad_c else ps["body"], "Horner sweeps with value and derivative accumulators: %d; corrections value / accumulator: %d; not by the first derivative: %d" % (
        n_sweeps, n_corr, len(bad_c)), where=loc(bad_c[0]) if bad_c else loc(ps["body"]))
    # ---- polish
    rule = "refinement runs laguer on each poly_roots[j], j in 0..degree, against a clone of the undeflated coefficients that is never written"
    lag = pdb.fn("%s::laguer" % PC)
    calls = [n for n in walk(ps["body"]) if n.get("k") == "Call" and callee_path(n) == "%s::laguer" % PC]
    pol = [c for c in calls if any(a.get("k") == "If" and ctx.term(a["cond"]) == P(1) for a in ancestors(c))]
    ok = len(pol) == 1 and lag is not None
    det = "refine-guarded laguer calls=%d" % len(pol)
    if ok:
        c = pol[0]
        lp = [a for a in ancestors(c) if a.get("k") == "For"]
        r = for_range(ctx, lp[0]) if len(lp) == 1 else None
        args = call_args(c)
        a0 = ctx.term(strip(args[0])["e"]) if strip(args[0]).get("k") == "AddrOf" else ctx.term(args[0])
        a1 = ctx.term(args[1])
        adef = ctx.def_term(a0) if a0[0] == "var" else None
        lctx = Ctx.for_fn(pdb, lag)
        lag_pure = not lctx.mutations.get(P(0))
        other_mut = [m for (kind, m) in ctx.mutations.get(a0, []) if not (m.get("k") == "AddrOf" and any(x is c for x in ancestors(m)))] if a0[0] == "var" else ["?"]
        full_ = r is not None and (r[1:5] == (num(0), DEG, False, False) or (r[1] == num(0) and r[2] in (("len", ("field", roots, "vec")), ("len", roots)) and not r[3] and not r[4]))
        elem_ = r is not None and a1 in (("idx", roots, r[0]), ("idx", ("field", roots, "vec"), r[0]))
        det0 = "r=%s a1=%s" % (r, a1)
        ok = full_ and elem_ and adef == P(0) and lag_pure and not other_mut
        det = det0 + " j in 0..degree=%s polishes poly_roots[j]=%s against coeffs.clone()=%s laguer never writes its coefficient argument=%s no other write=%s" % (
            r is not None and r[1:5] == (num(0), DEG, False, False), a1 == ("idx", roots, r[0]) if r else None, adef == P(0), lag_pure, not other_mut)
    rep.add("polish", rule, ok, pol[0] if pol else ps["body"], det)
    # ---- deflate
    rule = "synthetic division: b = ad[j+1]; for jj descending over 0..=j: c = ad[jj]; ad[jj] = b; b = x*b + c"
    dsets = [e for e in effs if e.kind == "set" and len(e.loops) == 2 and e.value[0] == "var" and e.target[0] == "var" and e.target != roots and ctx.binds.get(e.value[1]) is not None and ctx.binds[e.value[1]].mut]
    ok = len(dsets) == 1
    det = ""
    if ok:
        e = dsets[0]
        ad, bvar = e.target, e.value
        ro, ri = for_range(ctx, e.loops[0]), for_range(ctx, e.loops[1])
        j, jj = ro[0], ri[0]
        bas = [x for x in effs if x.kind == "assign" and x.target == bvar]
        pre = [x for x in bas if len(x.loops) == 1]
        upd = [x for x in bas if len(x.loops) == 2]
        xr = [s for s in effs if s.kind == "set" and s.target == roots and s.loops][0].value if sets else None
        b0 = value_before(ctx, bvar, e.loops[1])      # `let mut b; b = ad[j+1]` or `let mut b = ad[j+1]`
        okp = b0 == ("idx", ad, lin_add(j, num(1)))
        oku = len(upd) == 1 and _pos(upd[0].node) > _pos(e.node)
        if oku:
            v = upd[0].value
            cdef = None
            if v[0] == "op" and v[1] == "+":
                cvar = v[3]
                cdef = ctx.def_term(cvar) if cvar[0] == "var" else cvar
                cb = ctx.binds.get(cvar[1]) if cvar[0] == "var" else None
                saved_before = cb is not None and cb.node is not None and _pos(cb.node) < _pos(e.node)
                oku = v[2] in (("op", "*", xr, bvar), ("op", "*", bvar, xr)) and cdef == ("idx", ad, jj) and saved_before
            else:
                oku = False
        rng = ri[1] == num(0) and ri[2] == lin_add(j, num(1)) and ri[4] and not ri[3] and e.index == jj
        addef = ctx.def_term(ad)
        if addef != P(0) and ad[0] == "var":
            # `let mut coeffs = coeffs;` (the parameter re-bound) and similar moves: follow the value the working copy
            # was cloned from back to the parameter, as long as nothing wrote it in between
            t_, at_ = ad, e.loops[0] if e.loops else e.node
            for _ in range(4):
                v_ = value_before(ctx, t_, at_) if t_[0] == "var" else None
                if v_ is None or v_ == t_:
                    break
                b_ = ctx.binds.get(t_[1])
                at_ = b_.node if b_ is not None and b_.node is not None else at_
                t_ = v_
            addef = t_
        ok = okp and oku and rng and addef == P(0)
        det = "b starts as ad[j+1]=%s jj descending over 0..=j=%s c saved before overwrite, b = x*b + c=%s ad is a working copy of coeffs=%s" % (okp, rng, oku, addef == P(0))
    rep.add("deflate", rule, ok, dsets[0].node if dsets else ps["body"], det)
    rep.floor("count/", 4)
    rep.floor("entry/", 2)
    rep.floor("termination/", 2)
    rep.floor("divisors/", 14)
    rep.assumptions += ["leading coefficient non-zero (the property's domain)", "accuracy (backward error), finiteness in general, one-to-one matching with the true roots and "
                        "convergence of Laguerre's iteration are numerical and not decided statically"]
    return {"complex_divisions": n_div, "allow_list": {"%s::%s" % k: v for k, v in ALLOW.items()}}


def classify(pdb, ctx, fn, name, node, dn, d, nm, var):
    # literal
    if d[0] == "num":
        return d[1] != 0, "non-zero literal"
    # leading coefficients
    if name == "quadratic_solve" and d == P(0):
        return True, "leading coefficient a"
    if name == "cubic_solve":
        if d == P(0) or (d[0] == "op" and d[1] == "*" and ((d[2][0] == "num" and d[2][1] != 0 and d[3] == P(0)) or (d[3][0] == "num" and d[3][1] != 0 and d[2] == P(0)))):
            return True, "non-zero constant times the leading coefficient a"
    if name == "poly_solve":
        fs = facts(ctx, node)
        if d[0] == "idx" and d[1] in (P(0), F(P(0), "vec")) and any(f[0] == "cmp" and f[1] == "==" and {f[2], f[3]} == {DEG, d[2]} for f in fs):
            return True, "leading coefficient coeffs[degree] under the degree test"
    # guarded
    fs = facts_x(pdb, ctx, node)
    for f in fs:
        if f[0] == "ncmp" and f[1] == "<=" and f[2][0] == "call" and str(f[2][1]).endswith("::abs") and f[2][2] in (d, var):
            return True, "dominated by the early return on `|%s| <= err`: past it |%s| > err >= 0 or the value is NaN, never zero" % (nm or "divisor", nm or "divisor")
        if f[0] != "cmp":
            continue
        a, b = f[2], f[3]
        if f[1] == "!=" and ((a == d and is_zero_term(b)) or (b == d and is_zero_term(a))):
            return True, "dominated by `divisor != zero`"
        if var is not None and f[1] == "!=" and ((a == var and is_zero_term(b)) or (b == var and is_zero_term(a))):
            return True, "dominated by `%s != zero`" % nm
        if f[1] == "<" and b[0] == "call" and str(b[1]).endswith("::abs") and b[2] in (d, var):
            return True, "dominated by a magnitude test `.. < |%s|` (the early return on |%s| <= err)" % (nm or "divisor", nm or "divisor")
    # gp: |gp| = max(abp, abm) > 0
    if var is not None:
        b_ = ctx.binds.get(var[1])
        for f in fs:
            if f[0] == "cmp" and f[1] == "<" and f[2] == num(0) and f[3][0] == "call" and str(f[3][1]).endswith("::max") and len(f[3]) == 4:
                A, B = f[3][2], f[3][3]
                Ad = ctx.def_term(A) if A[0] == "var" else A
                Bd = ctx.def_term(B) if B[0] == "var" else B
                init = ctx.term(b_.init) if b_ is not None and b_.init is not None else None
                reass = [a for a in ctx.assigns.get(var[1], [])]
                if init is not None and Ad in (("call", "complex::Complex<f64>::abs", init), ("call", "complex::Complex<f64>::abs", var)) and len(reass) == 1:
                    alt = ctx.term(reass[0]["r"])
                    conds = [x for x in ancestors(reass[0]) if x.get("k") == "If"]
                    ct = ctx.term(conds[0]["cond"]) if conds else None
                    if Bd == ("call", "complex::Complex<f64>::abs", alt) and ct is not None and ct[:2] == ("op", "<") and ct[2] in (A, Ad) and ct[3] in (B, Bd):
                        return True, "dominated by max(|gp|, |gm|) > 0 and gp is the candidate of larger modulus"
    # the same selection written as an expression: `if |P| < |M| { M } else { P }` under max(|P|, |M|) > 0
    def res(t):
        r = ctx.def_term(t) if t[0] == "var" else None
        return r if r is not None else t
    dd = res(d)
    if dd[0] == "ite" and dd[1][0] == "op" and dd[1][1] in ("<", ">", "<=", ">="):
        X, Y = res(dd[1][2]), res(dd[1][3])
        T, E = dd[2], dd[3]
        if dd[1][1] in (">", ">="):
            X, Y = Y, X
        ab = lambda z: ("call", "complex::Complex<f64>::abs", z)
        picks_larger = X in (ab(E), ab(res(E))) and Y in (ab(T), ab(res(T)))      # |E| < |T| -> T, else E
        for f in fs:
            if f[0] == "cmp" and f[1] == "<" and f[2] == num(0) and f[3][0] == "call" and str(f[3][1]).endswith("::max") and len(f[3]) == 4:
                if picks_larger and {res(f[3][2]), res(f[3][3])} == {X, Y}:
                    return True, "dominated by max(|P|, |M|) > 0 and the divisor is the candidate of larger modulus (selected by an if-expression)"
    # allow-list
    for (fname, sym), why in ALLOW.items():
        if fname != name:
            continue
        if nm == sym:
            return True, "allow-listed symbol `%s`: %s" % (sym, why[:60])
        # product of non-zero constants (u, u*u) and the symbol
        facs = []

        def fl(x):
            x = strip(x)
            if x.get("k") == "Binary" and x.get("op") == "*":
                fl(x["l"])
                fl(x["r"])
            else:
                facs.append(x)
        fl(dn)
        names = [strip(x).get("name") for x in facs if strip(x).get("k") == "Local"]
        if names.count(sym) == 1 and all(nn in (sym, "u", "u2") for nn in names) and len(names) == len(facs):
            return True, "non-zero constant(s) times allow-listed symbol `%s`" % sym
    return False, "computed, unguarded divisor"


def _pos(n):
    sp = n.get("sp")
    return (sp[0], sp[1]) if sp else (0, 0)
