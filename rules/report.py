"""Rule results, evidence files, known findings, replay files."""
import json
import os
import re
import time

from .pdb import VERIF, loc


class Result:
    """One evaluated rule instance."""
    __slots__ = ("key", "rule", "status", "where", "msg", "nontrivial", "proof", "fn")

    def __init__(self, key, rule, status, where="", msg="", nontrivial=True, proof=False, fn=None):
        assert status in ("ok", "violation", "missing-anchor", "info")
        self.key, self.rule, self.status, self.where, self.msg = key, rule, status, where, msg
        self.nontrivial, self.proof = nontrivial, proof
        self.fn = fn          # canonical path of the function the instance is anchored in (when known)

    def as_dict(self):
        return {"key": self.key, "rule": self.rule, "verdict": self.status, "where": self.where, "detail": self.msg}


class Report:
    def __init__(self, prop):
        self.prop = prop
        self.results = []
        self.notes = []
        self.floors = {}      # rule-prefix -> (floor, counted)
        self.assumptions = []
        self.trusted = []

    def add(self, key, rule, ok, node=None, msg="", where=None, nontrivial=True, proof=False, status=None):
        if status is None:
            status = "ok" if ok else "violation"
        w = where if where is not None else (loc(node) if node is not None else "")
        f = node.get("_fn") if isinstance(node, dict) else None
        self.results.append(Result("%s/%s" % (self.prop, key), rule, status, w, msg, nontrivial, proof, fn=f["path"] if f else None))
        return status == "ok"

    def ok(self, key, rule, node=None, msg="", **kw):
        return self.add(key, rule, True, node, msg, **kw)

    def bad(self, key, rule, node=None, msg="", **kw):
        return self.add(key, rule, False, node, msg, **kw)

    def missing(self, key, rule, msg="", where=""):
        self.results.append(Result("%s/%s" % (self.prop, key), rule, "missing-anchor", where, msg))

    def info(self, key, rule, msg="", node=None):
        self.results.append(Result("%s/%s" % (self.prop, key), rule, "info", loc(node) if node is not None else "", msg, nontrivial=False))

    def floor(self, prefix, n):
        """Fail closed if fewer than n instances whose key starts with prefix were evaluated."""
        pre = "%s/%s" % (self.prop, prefix)
        got = sum(1 for r in self.results if r.key.startswith(pre) and r.status in ("ok", "violation"))
        self.floors[prefix] = (n, got)
        if got < n:
            self.results.append(Result("%s/floor/%s" % (self.prop, prefix), "floor",
                                       "missing-anchor", "", "rule matched %d instance(s), floor is %d: anchors disappeared" % (got, n)))

    def violations(self):
        return [r for r in self.results if r.status in ("violation", "missing-anchor")]


def load_known(path=None):
    """known_findings.txt: lines `open: property=<id> key=<exact key> <what fails>` and
    `fixed: property=<id> <commit> <what failed>`.  Only `open:` entries suppress, by exact key."""
    path = path or os.path.join(VERIF, "known_findings.txt")
    open_, fixed = {}, []
    if not os.path.exists(path):
        return open_, fixed
    for line in open(path):
        line = line.strip()
        if not line or line.startswith("#"):
            continue
        m = re.match(r"open:\s+property=(\S+)\s+key=(\S+)\s+(.*)$", line)
        if m:
            open_[m.group(2)] = (m.group(1), m.group(3))
            continue
        if line.startswith("fixed:"):
            fixed.append(line)
    return open_, fixed


def safe_name(key):
    return re.sub(r"[^A-Za-z0-9_.-]+", "_", key)[:180]


def finish(rep, tier, t0, seed=0, extra_cov=None, level="other", pdb_info=None, write=True):
    """Write evidence + replay files, print VIOLATION / KNOWN-FINDING lines, return exit code."""
    prop = rep.prop
    known, _fixed = load_known()
    viol = rep.violations()
    unlisted = []
    listed = []
    for r in viol:
        if r.key in known and known[r.key][0] == prop:
            print("KNOWN-FINDING: property=%s %s [%s at %s]" % (prop, known[r.key][1], r.key, r.where))
            listed.append({"key": r.key, "where": r.where, "what": known[r.key][1]})
        else:
            unlisted.append(r)
    evaluated = [r for r in rep.results if r.status in ("ok", "violation")]
    distinct = len({(r.key) for r in evaluated if r.nontrivial})
    samples = [r.as_dict() for r in rep.results if r.status != "info"]
    # keep the evidence readable: all violations + a spread of ok instances
    okays = [s for s in samples if s["verdict"] == "ok"]
    per_rule = {}
    spread = []
    for s_ in okays:          # a spread of ok instances: up to 6 per rule name
        name = s_["key"].split("/")[1] if "/" in s_["key"] else s_["key"]
        per_rule[name] = per_rule.get(name, 0) + 1
        if per_rule[name] <= 6:
            spread.append(s_)
    shown = [s for s in samples if s["verdict"] != "ok"] + spread[:120]
    proof_obl = [r for r in evaluated if r.proof]
    cov = {
        "explanation": "static rule evaluation over the typed HIR of /repo's current working tree "
                       "(rustc_private driver under cargo +nightly check; no ohsl code is executed). "
                       "Each sample is one rule instance: key, rule text, verdict, file:line.",
        "evaluations": len(evaluated),
        "distinct_nontrivial": distinct,
        "rule": "one evaluation = one rule instance at one anchor (function, call site, index site, loop, "
                "operator impl or identity); non-trivial = the instance carries an obligation that some "
                "compiling edit of that construct would break; distinct = distinct instance keys",
        "samples": shown,
        "floors": {k: {"floor": v[0], "matched": v[1]} for k, v in rep.floors.items()},
        "by_rule": _by_rule(rep),
        "obligations": len(proof_obl),
        "discharged": sum(1 for r in proof_obl if r.status == "ok"),
        "checker_cmd": "./check %s --tier %s" % (prop, tier),
        "trusted_base": ["rustc nightly type checker and name resolution (typeck results, Instance::try_resolve, is_freeze)",
                         "the rule engine under /verif/rules"] + rep.trusted,
        "notes": rep.notes,
        "exhaustive": True,
    }
    if listed:
        cov["known_findings_reported"] = listed      # genuine defects recorded in known_findings.txt (exact-key match), still present
    if pdb_info:
        cov["analysed"] = pdb_info
    if extra_cov:
        cov.update(extra_cov)
    ev = {
        "property_id": prop,
        "tier": tier,
        "seed": seed,
        "level": level,
        "coverage": cov,
        "assumptions": rep.assumptions,
        "wall_s": round(time.time() - t0, 2),
        "violations": len(unlisted),
    }
    if write:
        os.makedirs(os.path.join(VERIF, "evidence"), exist_ok=True)
        with open(os.path.join(VERIF, "evidence", "%s.json" % prop), "w") as f:
            json.dump(ev, f, indent=1, sort_keys=False)
            f.write("\n")
    code = 0
    if unlisted:
        d = os.path.join(VERIF, "replay", prop)
        os.makedirs(d, exist_ok=True)
        for r in unlisted:
            p = os.path.join(d, safe_name(r.key) + ".json")
            with open(p, "w") as f:
                json.dump({"property": prop, **r.as_dict(),
                           "how_to_replay": "./check %s --tier quick   (re-analyses /repo's working tree; the rule instance with this key is re-evaluated)" % prop},
                          f, indent=1)
            print("%s: %s — %s [%s]" % (r.where, r.rule, r.msg, r.key))
            print("VIOLATION property=%s replay=%s" % (prop, p))
        code = 1
    return code


def _by_rule(rep):
    out = {}
    for r in rep.results:
        if r.status == "info":
            continue
        name = r.key.split("/")[1] if "/" in r.key else r.key
        d = out.setdefault(name, {"ok": 0, "violation": 0, "missing-anchor": 0})
        d[r.status] = d.get(r.status, 0) + 1
    return out
