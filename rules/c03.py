"""C03 — dense matrix algebra and editing follow their definitions for every shape."""
from .pdb import walk, strip, loc
from .terms import Ctx, lin_add, lin_sub, num, show, base_ty, ty_of, deref
from .common import (P, F, LEN, SIZE, rule_index_kinds, rule_elementwise, effects, elem_ref, loop_var_ranges, same_dim,
                     forwards_to, callee_path, callee_generic, call_args, is_call_like, adt_of, OP_OF_TRAIT, single_expr_body,
                     ctor_summary, eq_classes, in_macro)
from .guards import facts
from .common import swap_events, early_exits
from .guards import for_range as raw_for_range
from .common import for_range_total as for_range

LEVEL = "other"
MATRIX_FILES = ("src/matrix/mod.rs", "src/matrix/operations.rs", "src/matrix/arithmetic.rs", "src/matrix/functions.rs")
M = "matrix::Matrix<T>"
ROWS, COLS = F(P(0), "rows"), F(P(0), "cols")


def matrix_fns(pdb):
    from .common import involves_adt
    solve = ("max_abs_in_column", "backsolve", "partial_pivot", "gauss_with_pivot", "solve_basic", "lu_decomp_in_place", "solve_lu", "determinant", "inverse")
    return [f for f in pdb.local_fns() if not f.get("derived") and f["file"] != "src/matrix/solve.rs" and
            (f["file"] in MATRIX_FILES or (involves_adt(f, "matrix::Matrix") and f.get("name") not in solve))]


def _need(rep, pdb, path, key, rule):
    fn = pdb.fn(path)
    if fn is None:
        rep.missing(key, rule, "function %s not found" % path)
    return fn


def _ranges_ok(pdb, ctx, node, ranges, want):
    """want: {var_term: dim_term}; every var must range over exactly 0..dim."""
    det, ok = [], True
    for v, D in want.items():
        r = ranges.get(v)
        if r is None:
            ok = False
            det.append("%s is not a loop variable" % show(v, ctx))
            continue
        lo, hi, rev = r
        g = lo == num(0) and same_dim(pdb, ctx, node, hi, D)
        ok = ok and g
        det.append("%s in %s..%s vs 0..%s" % (show(v, ctx), show(lo, ctx), show(hi, ctx), show(D, ctx)))
    return ok, "; ".join(det)


def rule_accessors(rep, pdb):
    """get/set/fill row/col: element (r,c) map, full range, result length."""
    spec = {
        # name: (kind, fixed: 'row'|'col'|None, vector role)
        "get_row": ("get", "row"), "get_col": ("get", "col"),
        "set_row": ("set", "row"), "set_col": ("set", "col"),
        "fill_row": ("fill", "row"), "fill_col": ("fill", "col"),
    }
    for name, (kind, fixed) in spec.items():
        path = "%s::%s" % (M, name)
        key = "accessor/%s" % name
        rule = {"get": "result[k] = self(row,k) / self(k,col) for k over the full other dimension; result has that length",
                "set": "self(row,k) / self(k,col) = vec[k] for k over the full other dimension",
                "fill": "self(row,k) / self(k,col) = elem for k over the full other dimension"}[kind]
        fn = _need(rep, pdb, path, key, rule)
        if fn is None:
            continue
        ctx = Ctx.for_fn(pdb, fn)
        effs = [e for e in effects(pdb, ctx) if e.kind == "set" and e.loops]
        if kind == "get" and not effs:
            # other ways to build the same vector: in-order pushes into an empty Vec / Vector, or (rows only) a copy of the
            # contiguous slice row*cols .. row*cols + cols of the row-major storage
            other = COLS if fixed == "row" else ROWS
            tail = fn["body"].get("expr")
            tt = ctx.term(tail) if tail is not None else None
            inner = tt[2] if tt is not None and tt[0] == "call" and str(tt[1]).endswith("Vector<T>::create") and len(tt) == 3 else tt
            pushes = [e for e in effects(pdb, ctx) if e.kind == "push" and len(e.loops) == 1]
            MAT_ = F(P(0), "mat")
            from .terms import lin_mul
            if len(pushes) == 1 and inner == pushes[0].target:
                e = pushes[0]
                r = for_range(ctx, e.loops[0])
                src = elem_ref(pdb, ctx, _first_index(e.vnode))
                tb = ctx.binds.get(e.target[1]) if e.target[0] == "var" else None
                ti = ctx.term(tb.init) if tb is not None and tb.init is not None else None
                fresh = ti is not None and ti[0] == "call" and (str(ti[1]).endswith("::new") or str(ti[1]).endswith("::empty")) and len(ti) == 2
                good = r is not None and r[1:5] == (num(0), other, False, False) and src is not None and len(src) == 3 and src[0] == P(0) and \
                    ((fixed == "row" and src[1] == P(1) and src[2] == r[0]) or (fixed == "col" and src[2] == P(1) and src[1] == r[0]))
                rep.add(key, rule, bool(good and fresh), e.node, "in-order pushes over 0..%s of self(%s) into an empty vector: %s" % (show(other, ctx), "row,k" if fixed == "row" else "k,col", good and fresh))
                continue
            if fixed == "row" and inner is not None and inner[0] == "call" and str(inner[1]).endswith("to_vec") and inner[2][0] == "idx" and inner[2][1] == MAT_ and inner[2][2][0] == "range":
                lo, hi = inner[2][2][1], inner[2][2][2]
                good = lo == lin_mul(P(1), COLS) and hi == lin_add(lo, COLS) and not inner[2][2][3]
                rep.add(key, rule, good, fn["body"], "copy of the storage slice %s..%s" % (show(lo, ctx), show(hi, ctx)), where=loc(fn["body"]))
                continue
        if len(effs) != 1:
            rep.bad(key, rule, fn["body"], "expected one element write in a loop, found %d" % len(effs))
            continue
        e = effs[0]
        ranges = loop_var_ranges(ctx, e.loops)
        lv = list(ranges)
        ok, det = len(lv) == 1, []
        k = lv[0] if lv else None
        other = COLS if fixed == "row" else ROWS
        if kind == "get":
            src = elem_ref(pdb, ctx, e.vnode)
            good = src is not None and len(src) == 3 and src[0] == P(0) and \
                ((fixed == "row" and src[1] == P(1) and src[2] == k) or (fixed == "col" and src[2] == P(1) and src[1] == k))
            det.append("source %s" % ([show(x, ctx) for x in src] if src else None))
            ok = ok and good and e.index == k
            # result length
            tb = e.target
            ok_len = same_dim(pdb, ctx, e.node, SIZE(tb), other) or same_dim(pdb, ctx, e.node, LEN(F(tb, "vec")), other)
            det.append("len(result)=%s: %s" % (show(other, ctx), ok_len))
            ok = ok and ok_len
        else:
            tgt = elem_ref(pdb, ctx, strip(e.node["l"]))
            good = tgt is not None and len(tgt) == 3 and tgt[0] == P(0) and \
                ((fixed == "row" and tgt[1] == P(1) and tgt[2] == k) or (fixed == "col" and tgt[2] == P(1) and tgt[1] == k))
            det.append("target %s" % ([show(x, ctx) for x in tgt] if tgt else None))
            ok = ok and good
            if kind == "set":
                v = e.value
                gv = v[0] == "idx" and v[1] in (P(2), F(P(2), "vec")) and v[2] == k
                det.append("value %s" % show(v, ctx))
                ok = ok and gv
            else:
                gv = e.value == P(2)
                det.append("value %s" % show(e.value, ctx))
                ok = ok and gv
        if k is not None:
            g, d2 = _ranges_ok(pdb, ctx, e.node, ranges, {k: other})
            ok = ok and g
            det.append(d2)
        rep.add(key, rule, ok, e.node, "; ".join(det))

    # fill
    fn = _need(rep, pdb, "%s::fill" % M, "accessor/fill", "self(i,j) = elem for all i<rows, j<cols")
    if fn is not None:
        ctx = Ctx.for_fn(pdb, fn)
        effs = [e for e in effects(pdb, ctx) if e.kind == "set" and e.loops]
        ok, det = len(effs) == 1, ""
        if ok:
            e = effs[0]
            tgt = elem_ref(pdb, ctx, strip(e.node["l"]))
            ranges = loop_var_ranges(ctx, e.loops)
            ok = tgt is not None and len(tgt) == 3 and tgt[0] == P(0) and e.value == P(1) and tgt[1] != tgt[2]
            if ok:
                g, det = _ranges_ok(pdb, ctx, e.node, ranges, {tgt[1]: ROWS, tgt[2]: COLS})
                ok = ok and g
            elif len(e.loops) == 1 and e.target == F(P(0), "mat") and e.value == P(1):
                # every element of the flat storage: `self.mat.fill(elem)` / `for x in self.mat.iter_mut() { *x = elem }`
                r = for_range(ctx, e.loops[0])
                ok = r is not None and e.index == r[0] and r[1:5] == (num(0), LEN(F(P(0), "mat")), False, False)
                det = "every element of the flat storage 0..len(mat)"
        rep.add("accessor/fill", "self(i,j) = elem for all i<rows, j<cols", ok, fn["body"], det, where=loc(fn["body"]))
    # fill_diag
    fn = _need(rep, pdb, "%s::fill_diag" % M, "accessor/fill_diag", "self(i,i) = elem for i < min(rows, cols)")
    if fn is not None:
        ctx = Ctx.for_fn(pdb, fn)
        effs = [e for e in effects(pdb, ctx) if e.kind == "set" and e.loops]
        ok, det = len(effs) == 1, ""
        if ok:
            e = effs[0]
            tgt = elem_ref(pdb, ctx, strip(e.node["l"]))
            ranges = loop_var_ranges(ctx, e.loops)
            ok = tgt is not None and len(tgt) == 3 and tgt[1] == tgt[2] and e.value == P(1) and tgt[1] in ranges
            if ok:
                lo, hi, _ = ranges[tgt[1]]
                mn1 = ("ite", ("op", "<", COLS, ROWS), COLS, ROWS)
                mn2 = ("ite", ("op", "<", ROWS, COLS), ROWS, COLS)
                mn3 = ("ite", ("op", "<=", COLS, ROWS), COLS, ROWS)
                mn4 = ("ite", ("op", "<=", ROWS, COLS), ROWS, COLS)
                isminc = hi[0] == "call" and str(hi[1]).endswith("min") and set(hi[2:]) == {ROWS, COLS}
                ok = lo == num(0) and (hi in (mn1, mn2, mn3, mn4) or isminc)
                det = "i in %s..%s" % (show(lo, ctx), show(hi, ctx))
        rep.add("accessor/fill_diag", "self(i,i) = elem for i in 0..min(rows, cols)", ok, fn["body"], det, where=loc(fn["body"]))
    # fill_band / fill_tridiag
    fn = _need(rep, pdb, "%s::fill_band" % M, "accessor/fill_band", "fill_band(offset, e): self(row, row+offset) = e for every row in 0..rows whose column row+offset lies in 0..cols")
    if fn is not None:
        ctx = Ctx.for_fn(pdb, fn)
        effs = [e for e in effects(pdb, ctx) if e.kind == "set" and e.loops]
        ok, det = len(effs) == 1, ""
        if ok:
            e = effs[0]
            ranges = loop_var_ranges(ctx, e.loops)
            tgt = elem_ref(pdb, ctx, strip(e.node["l"]))
            row = tgt[1] if tgt else None
            colt = lin_add(row, P(1)) if row is not None else None
            from .guards import norm_cmp
            fs = set(f for f in facts(ctx, e.node) if f[0] == "cmp")
            need = {norm_cmp("<", colt, COLS), norm_cmp("<=", num(0), colt)} if colt is not None else {1}
            ok = tgt is not None and len(tgt) == 3 and tgt[0] == P(0) and tgt[2] == colt and e.value == P(2) and ranges.get(row, (None, None))[:2] == (num(0), ROWS) and need <= fs
            det = "target (row, row+offset)=%s guarded by 0 <= row+offset < cols=%s" % (tgt is not None and tgt[2] == colt, need <= fs)
        rep.add("accessor/fill_band", "fill_band(offset, e): self(row, row+offset) = e for every row in 0..rows whose column row+offset lies in 0..cols", ok, fn["body"], det, where=loc(fn["body"]))
    fn = _need(rep, pdb, "%s::fill_tridiag" % M, "accessor/fill_tridiag", "fill_tridiag(l, d, u) = fill_band(-1, l); fill_diag(d); fill_band(1, u)")
    if fn is not None:
        ctx = Ctx.for_fn(pdb, fn)
        calls = [ctx.term(n) for n in walk(fn["body"]) if n.get("k") == "MethodCall" and n.get("fn_local")]
        want = {("call", "%s::fill_band" % M, P(0), num(-1), P(1)), ("call", "%s::fill_diag" % M, P(0), P(2)), ("call", "%s::fill_band" % M, P(0), num(1), P(3))}
        rep.add("accessor/fill_tridiag", "fill_tridiag(l, d, u) = fill_band(-1, l); fill_diag(d); fill_band(1, u)", set(calls) == want and len(calls) == 3, fn["body"], "", where=loc(fn["body"]))
    # eye
    fn = _need(rep, pdb, "%s::eye" % M, "shape/eye", "eye(n) is n x n zeros with one on (i,i) for i in 0..n")
    if fn is not None:
        ctx = Ctx.for_fn(pdb, fn)
        effs = [e for e in effects(pdb, ctx) if e.kind == "set" and e.loops]
        ok, det = len(effs) == 1, ""
        if ok:
            e = effs[0]
            tgt = elem_ref(pdb, ctx, strip(e.node["l"]))
            ranges = loop_var_ranges(ctx, e.loops)
            one = e.value[0] == "call" and str(e.value[1]).endswith("One::one")
            ok = tgt is not None and len(tgt) == 3 and tgt[1] == tgt[2] and one and ranges.get(tgt[1], (None,))[0] == num(0) and ranges[tgt[1]][1] == P(0)
            obj = tgt[0] if tgt else None
            okshape = obj is not None and same_dim(pdb, ctx, e.node, F(obj, "rows"), P(0)) and same_dim(pdb, ctx, e.node, F(obj, "cols"), P(0))
            det = "diag ok=%s shape n x n=%s" % (ok, okshape)
            ok = ok and okshape
            # base value zero
            b = ctx.binds.get(obj[1]) if obj and obj[0] == "var" else None
            it = ctx.term(b.init) if b is not None and b.init is not None else None
            zero = it is not None and it[0] == "call" and len(it) == 5 and it[4][0] == "call" and str(it[4][1]).endswith("Zero::zero")
            ok = ok and zero
            det += " base zero=%s" % zero
        elif not effs:
            # the diagonal set through the crate's own fill_diag (decided by accessor/fill_diag): `let mut id = Matrix::new(n, n, zero); id.fill_diag(one); id`
            from .pdb import ancestors
            fds = [n_ for n_ in walk(fn["body"]) if n_.get("k") == "MethodCall" and callee_path(n_) == "%s::fill_diag" % M]
            tail = fn["body"].get("expr")
            if len(fds) == 1 and tail is not None:
                obj = ctx.term(fds[0]["recv"])
                arg = ctx.term(call_args(fds[0])[1])
                b = ctx.binds.get(obj[1]) if obj[0] == "var" else None
                it = ctx.term(b.init) if b is not None and b.init is not None else None
                fresh = it is not None and it[0] == "call" and str(it[1]).endswith("Matrix<T>::new") and len(it) == 5 and it[2] == P(0) and it[3] == P(0) and it[4][0] == "call" and str(it[4][1]).endswith("Zero::zero")
                one = arg[0] == "call" and str(arg[1]).endswith("One::one")
                others = [m_ for (kind_, m_) in ctx.mutations.get(obj, []) if not any(x is fds[0] for x in [m_] + list(ancestors(m_)))] if obj[0] == "var" else ["?"]
                ok = fresh and one and ctx.term(tail) == obj and not others
                det = "n x n zeros=%s fill_diag(one)=%s returned=%s nothing else written=%s" % (fresh, one, ctx.term(tail) == obj, not others)
        rep.add("shape/eye", "eye(n) is n x n zeros with one on (i,i) for i in 0..n", ok, fn["body"], det, where=loc(fn["body"]))


def rule_norms(rep, pdb):
    M64 = "matrix::Matrix<f64>"
    for name, outer_dim, inner_dim in (("norm_1", COLS, ROWS), ("norm_inf", ROWS, COLS)):
        path = "%s::%s" % (M64, name)
        key = "norm-orientation/%s" % name
        rule = "%s: outer loop over %s, inner sum of |a_ij| over the other index (full ranges), outer reduction max" % (name, "columns" if name == "norm_1" else "rows")
        fn = _need(rep, pdb, path, key, rule)
        if fn is None:
            continue
        ctx = Ctx.for_fn(pdb, fn)
        effs = effects(pdb, ctx)
        sums = [e for e in effs if e.kind == "assignop" and e.op == "+=" and len(e.loops) == 2]
        maxs = [e for e in effs if e.kind == "assign" and len(e.loops) == 1]
        ok, det = len(sums) == 1 and len(maxs) == 1, ""
        if ok:
            s, m = sums[0], maxs[0]
            ranges = loop_var_ranges(ctx, s.loops)
            v = s.value
            isabs = v[0] == "call" and str(v[1]).endswith("::abs") and v[2][0] == "idx"
            src = elem_ref(pdb, ctx, _first_index(s.vnode)) if isabs else None
            outer = for_range(ctx, s.loops[0])
            inner = for_range(ctx, s.loops[1])
            ok = isabs and src is not None and len(src) == 3 and outer is not None and inner is not None
            if ok:
                ov, iv = outer[0], inner[0]
                # the outer variable indexes outer_dim's position
                pos = {ROWS: src[1], COLS: src[2]}
                ok = pos[outer_dim] == ov and pos[inner_dim] == iv
                g, d2 = _ranges_ok(pdb, ctx, s.node, ranges, {ov: outer_dim, iv: inner_dim})
                ok = ok and g
                det = d2
                # reduction: result = result.max(sum)  (either receiver order)
                mv = m.value
                ismax = mv[0] == "call" and str(mv[1]).endswith("::max") and set(mv[2:]) == {m.target, s.target}
                ok = ok and ismax
                det += "; reduction max=%s" % ismax
                # the inner accumulator is re-initialised to 0 inside the outer loop
                sb = ctx.binds.get(s.target[1]) if s.target[0] == "var" else None
                reinit = sb is not None and sb.node is not None and any(a is s.loops[0] for a in _anc(sb.node)) and ctx.term(sb.init) == num(0)
                ok = ok and reinit
                det += "; accumulator reset per outer iteration=%s" % reinit
        rep.add(key, rule, ok, fn["body"], det, where=loc(fn["body"]))
        # shortcuts: an early return is the general formula specialised - `norm_max()` is the max of sums of ONE term only when
        # the summed dimension is 1; 0 only when a dimension is 0
        from .guards import facts as _facts
        for r_ in [n for n in walk(fn["body"]) if n.get("k") == "Ret" and not any(a.get("k") == "Closure" for a in _anc(n))]:
            fs = _facts(ctx, r_)
            val = ctx.term(r_["e"]) if r_.get("e") is not None else None
            one = any(f[0] == "cmp" and f[1] == "==" and {f[2], f[3]} == {inner_dim, num(1)} for f in fs)
            zero = any(f[0] == "cmp" and f[1] == "==" and ({f[2], f[3]} == {inner_dim, num(0)} or {f[2], f[3]} == {outer_dim, num(0)}) for f in fs)
            good = (val is not None and val[0] == "call" and str(val[1]).endswith("::norm_max") and val[2] == P(0) and one) or (val == num(0) and zero)
            rep.add("%s/shortcut@%s" % (key, "one" if one else "zero" if zero else "other"),
                    "an early return of %s is the formula specialised: norm_max() only when the SUMMED dimension (%s) is 1, 0 only when a dimension is 0" % (name, "rows" if inner_dim == ROWS else "cols"),
                    good, r_, "returns %s under %s" % (show(val, ctx) if val else None, [show(("op", f[1], f[2], f[3]), ctx) for f in fs if f[0] == "cmp"][:4]))
    # norm_max
    fn = _need(rep, pdb, "%s::norm_max" % M64, "norm-orientation/norm_max", "norm_max = max over all entries of |a_ij|")
    if fn is not None:
        ctx = Ctx.for_fn(pdb, fn)
        maxs = [e for e in effects(pdb, ctx) if e.kind == "assign" and len(e.loops) == 2]
        flat = [e for e in effects(pdb, ctx) if e.kind == "assign" and len(e.loops) == 1]
        ok, det = len(maxs) == 1, ""
        if not maxs and len(flat) == 1:
            # one pass over the flat storage: every stored entry exactly once (the storage holds exactly the rows*cols entries)
            m = flat[0]
            r = raw_for_range(ctx, m.loops[0])
            v = m.value
            MAT = F(P(0), "mat")
            ok = r is not None and r[1] == num(0) and r[2] == LEN(MAT) and not r[3] and not early_exits(m.loops[0]) and \
                v[0] == "call" and str(v[1]).endswith("::max") and v[2] == m.target and v[3][0] == "call" and str(v[3][1]).endswith("::abs") and v[3][2] == ("idx", MAT, r[0])
            det = "single pass over self.mat: %s" % ok
            b = ctx.binds.get(m.target[1]) if m.target[0] == "var" else None
            ok = ok and b is not None and b.init is not None and ctx.term(b.init) == num(0)
        elif ok:
            m = maxs[0]
            mv = m.value
            ok = mv[0] == "call" and str(mv[1]).endswith("::max") and m.target in mv[2:]
            other = [x for x in mv[2:] if x != m.target] if ok else []
            ok = ok and len(other) == 1 and other[0][0] == "call" and str(other[0][1]).endswith("::abs")
            src = elem_ref(pdb, ctx, _first_index(m.vnode))
            ranges = loop_var_ranges(ctx, m.loops)
            if ok and src is not None and len(src) == 3:
                g, det = _ranges_ok(pdb, ctx, m.node, ranges, {src[1]: ROWS, src[2]: COLS})
                ok = ok and g and src[1] != src[2]
            else:
                ok = False
        rep.add("norm-orientation/norm_max", "norm_max = max over all entries (full ranges) of |a_ij|", ok, fn["body"], det, where=loc(fn["body"]))
    # norm_p
    fn = _need(rep, pdb, "%s::norm_p" % M64, "norm-orientation/norm_p", "norm_p = (sum |a_ij|^p)^(1/p)")
    if fn is not None:
        ctx = Ctx.for_fn(pdb, fn)
        sums = [e for e in effects(pdb, ctx) if e.kind == "assignop" and e.op == "+=" and len(e.loops) == 2]
        ok, det = len(sums) == 1, ""
        if ok:
            s = sums[0]
            v = s.value
            ok = v[0] == "call" and str(v[1]).endswith("powf") and v[3] == P(1) and v[2][0] == "call" and str(v[2][1]).endswith("::abs")
            src = elem_ref(pdb, ctx, _first_index(s.vnode))
            ranges = loop_var_ranges(ctx, s.loops)
            if ok and src is not None and len(src) == 3:
                g, det = _ranges_ok(pdb, ctx, s.node, ranges, {src[1]: ROWS, src[2]: COLS})
                ok = ok and g and src[1] != src[2]
            else:
                ok = False
            from .common import return_paths as _rp
            # the value returned on the general path (the tail, or the non-special branch of an if/else tail)
            root = any(tt is not None and tt[0] == "call" and str(tt[1]).endswith("powf") and tt[2] == s.target and tt[3] == ("op", "/", num(1), P(1))
                       for _fs, tt, _n in _rp(ctx))
            ok = ok and root
            det += "; outer root powf(sum, 1/p)=%s" % root
        rep.add("norm-orientation/norm_p", "norm_p = powf(sum over all entries of powf(|a_ij|, p), 1/p)", ok, fn["body"], det, where=loc(fn["body"]))
        # p = inf: the documented limit (the max norm) is not what the formula gives (powf(x, 1/inf) = x^0 = 1 for every matrix)
        from .common import return_paths
        rule = "norm_p(inf) is the entrywise max norm, as its documentation states: the p = inf case is returned as norm_max() before the power-sum formula (whose value there is always 1)"
        special = []
        for fs_, val_, node_ in return_paths(ctx):
            inf_test = any(f_[0] == "bool" and f_[2] and f_[1][0] == "call" and str(f_[1][1]).endswith("::is_infinite") and f_[1][2] == P(1) for f_ in fs_) or \
                any(f_[0] == "cmp" and f_[1] == "==" and P(1) in (f_[2], f_[3]) and "INFINITY" in repr(f_) for f_ in fs_)
            if inf_test:
                special.append(val_ == ("call", "%s::norm_max" % M64, P(0)))
        rep.add("norm-orientation/norm_p/inf", rule, bool(special) and all(special), fn["body"], "p = inf return paths: %s" % special, where=loc(fn["body"]))
        # every other return path is the power-sum formula: a fast path that hands a particular p to another norm
        # (norm_1 is the max column sum, not the entrywise sum of magnitudes) changes the definition
        others = []
        for fs_, val_, node_ in return_paths(ctx):
            inf_test = any(f_[0] == "bool" and f_[2] and f_[1][0] == "call" and str(f_[1][1]).endswith("::is_infinite") and f_[1][2] == P(1) for f_ in fs_) or \
                any(f_[0] == "cmp" and f_[1] == "==" and P(1) in (f_[2], f_[3]) and "INFINITY" in repr(f_) for f_ in fs_)
            if not inf_test and not (val_[0] == "call" and str(val_[1]).endswith("powf")):
                others.append((loc(node_), val_))
        rep.add("norm-orientation/norm_p/only-formula", "apart from p = inf every return path of norm_p is the power-sum formula powf(sum, 1/p)", not others, fn["body"],
                "other return paths: %s" % [(w_, show(v_, ctx)[:60]) for w_, v_ in others], where=others[0][0] if others else loc(fn["body"]))


def _anc(n):
    p = n.get("_p")
    while p is not None:
        yield p
        p = p.get("_p")


def _first_index(n, depth=0):
    for x in walk(n):
        if x.get("k") == "Index" and not in_macro(x):
            return x
    # the element was read into an immutable temporary first (`let magnitude = self[(i,j)].abs(); acc = acc.max(magnitude)`)
    if depth < 3:
        fnode = n.get("_fn")
        if fnode is not None:
            lets = {}
            for s_ in walk(fnode["body"]):
                if s_.get("k") == "Let" and (s_.get("pat") or {}).get("k") == "Bind" and not s_["pat"].get("mut") and s_.get("init") is not None:
                    lets[s_["pat"]["v"]] = s_["init"]
            for x in walk(n):
                if x.get("k") == "Local" and x.get("v") in lets:
                    r = _first_index(lets[x["v"]], depth + 1)
                    if r.get("k") == "Index":
                        return r
    return n


def rule_products(rep, pdb):
    # matrix-vector
    rule = "multiply: guard len(v)=cols; one push of get_row(row).dot(v) per row in 0..rows into an empty result"
    fn = _need(rep, pdb, "%s::multiply" % M, "product/multiply", rule)
    if fn is not None:
        ctx = Ctx.for_fn(pdb, fn)
        pushes = [e for e in effects(pdb, ctx) if e.kind == "push"]
        ok, det = len(pushes) == 1 and len(pushes[0].loops) == 1, ""
        if ok:
            e = pushes[0]
            r = for_range(ctx, e.loops[0])
            v = e.value
            ok = r is not None and r[1] == num(0) and r[2] == ROWS and not r[3]
            isdot = v[0] == "call" and str(v[1]).endswith("::dot") and v[3] == P(1) and v[2][0] == "call" and \
                str(v[2][1]).endswith("::get_row") and v[2][2] == P(0) and v[2][3] == r[0]
            tb = ctx.binds.get(e.target[1]) if e.target[0] == "var" else None
            it = ctx.term(tb.init) if tb is not None and tb.init is not None else None
            fresh = it is not None and it[0] == "call" and (str(it[1]).endswith("::empty") or str(it[1]).endswith("::new")) and len(it) == 2
            det = "range 0..rows=%s dot(get_row(row), v)=%s empty start=%s" % (ok, isdot, fresh)
            ok = ok and isdot and fresh
        rep.add("product/multiply", rule, ok, fn["body"], det, where=loc(fn["body"]))
    # matrix-matrix
    path = "<&%s as std::ops::Mul<&%s>>::mul" % (M, M)
    rule = "product: result is rows(self) x cols(rhs); for col in 0..cols(rhs): result.set_col(col, self.multiply(rhs.get_col(col))) with the same col"
    fn = _need(rep, pdb, path, "product/matmul", rule)
    if fn is not None:
        ctx = Ctx.for_fn(pdb, fn)
        calls = [n for n in walk(fn["body"]) if n.get("k") == "MethodCall" and callee_path(n) == "%s::set_col" % M]
        ok, det = len(calls) == 1, ""
        if ok:
            c = calls[0]
            loops = [a for a in _anc(c) if a.get("k") == "For"]
            ok = len(loops) == 1
            if ok:
                r = for_range(ctx, loops[0])
                args = [ctx.term(a) for a in call_args(c)]
                obj = args[0]
                colv = r[0] if r else None
                inner = args[2]
                good_inner = inner[0] == "call" and str(inner[1]).endswith("Matrix<T>::multiply") and inner[2] == P(0) and \
                    inner[3][0] == "call" and str(inner[3][1]).endswith("::get_col") and inner[3][2] == P(1) and inner[3][3] == colv
                good_rng = r is not None and r[1] == num(0) and r[2] == F(P(1), "cols") and not r[3]
                shape = same_dim(pdb, ctx, c, F(obj, "rows"), ROWS) and same_dim(pdb, ctx, c, F(obj, "cols"), F(P(1), "cols"))
                tail = strip(fn["body"].get("expr")) if fn["body"].get("expr") else None
                ret = tail is not None and ctx.term(tail) == obj
                # every column is computed: the store is not under a condition inside the loop (`skip columns that sum to zero` drops 1,-1 columns)
                uncond = not [a for a in _anc(c) if a.get("k") in ("If", "Match") and any(z is loops[0] for z in _anc(a))]
                ok = args[1] == colv and good_inner and good_rng and shape and ret and uncond
                det = "same col=%s inner=%s range 0..cols(rhs)=%s shape rows(self) x cols(rhs)=%s returns result=%s unconditional=%s" % (args[1] == colv, good_inner, good_rng, shape, ret, uncond)
        rep.add("product/matmul", rule, ok, fn["body"], det, where=loc(fn["body"]))


def rule_editing(rep, pdb):
    # swap_elem: three-step swap of (r1,c1) and (r2,c2)
    rule = "swap_elem exchanges exactly (row_1,col_1) and (row_2,col_2)"
    fn = _need(rep, pdb, "%s::swap_elem" % M, "edit/swap_elem", rule)
    if fn is not None:
        ctx = Ctx.for_fn(pdb, fn)
        evs = swap_events(pdb, ctx, fn["body"])
        a, b = (P(1), P(2)), (P(3), P(4))
        ok = len(evs) == 1 and evs[0][0][0] == "elem2" and evs[0][1][0] == "elem2" and evs[0][0][1] == P(0) and evs[0][1][1] == P(0) and \
            {(evs[0][0][2], evs[0][0][3]), (evs[0][1][2], evs[0][1][3])} == {a, b}
        # nothing else is written
        sets = [e for e in effects(pdb, ctx) if e.kind in ("set", "upd")]
        ok = ok and len(sets) <= 1
        rep.add("edit/swap_elem", rule, ok, fn["body"], "exchange events: %s" % [(show(e_[0][2], ctx), show(e_[0][3], ctx), show(e_[1][2], ctx), show(e_[1][3], ctx)) for e_ in evs if e_[0][0] == "elem2" and e_[1][0] == "elem2"],
                where=loc(fn["body"]))
    # swap_rows: for j in 0..cols swap_elem(r1, j, r2, j)
    rule = "swap_rows(a,b) = swap_elem(a,j,b,j) for every j in 0..cols"
    fn = _need(rep, pdb, "%s::swap_rows" % M, "edit/swap_rows", rule)
    if fn is not None:
        ctx = Ctx.for_fn(pdb, fn)
        calls = [n for n in walk(fn["body"]) if n.get("k") == "MethodCall" and callee_path(n) == "%s::swap_elem" % M]
        ok, det = len(calls) == 1, ""
        if ok:
            c = calls[0]
            loops = [a for a in _anc(c) if a.get("k") == "For"]
            r = for_range(ctx, loops[0]) if len(loops) == 1 else None
            args = [ctx.term(a) for a in call_args(c)]
            ok = r is not None and r[1] == num(0) and r[2] == COLS and not r[3] and args == [P(0), P(1), r[0], P(2), r[0]]
            det = "args=%s" % [show(a, ctx) for a in args]
        rep.add("edit/swap_rows", rule, ok, fn["body"], det, where=loc(fn["body"]))
    # delete_row
    rule = "delete_row(row) removes exactly the cols elements row*cols..(row+1)*cols and decrements rows by one"
    fn = _need(rep, pdb, "%s::delete_row" % M, "edit/delete_row", rule)
    if fn is not None:
        ctx = Ctx.for_fn(pdb, fn)
        drains = [n for n in walk(fn["body"]) if n.get("k") == "MethodCall" and n.get("name") == "drain"]
        decs = [e for e in effects(pdb, ctx) if e.kind == "assignop" and e.op == "-=" and e.target == ROWS and e.value == num(1)]
        ok, det = len(drains) == 1 and len(decs) == 1, ""
        if ok:
            d = drains[0]
            rng = ctx.term(d["args"][0])
            from .terms import lin_mul
            lo = lin_mul(P(1), COLS)
            hi = lin_add(lo, COLS)
            ok = ctx.term(d["recv"]) == F(P(0), "mat") and rng == ("range", lo, hi, False)
            det = "drain %s" % (show(rng[1], ctx) + ".." + show(rng[2], ctx) if rng[0] == "range" else rng,)
        rep.add("edit/delete_row", rule, ok, fn["body"], det, where=loc(fn["body"]))
    # transpose_in_place
    rule = ("transpose_in_place: square -> swap (i,j),(j,i) for j in i+1..cols, i in 0..rows; otherwise rebuild mat by pushing self(i,j) "
            "with the column index outermost over the full ranges, then exchange the rows and cols fields")
    fn = _need(rep, pdb, "%s::transpose_in_place" % M, "edit/transpose_in_place", rule)
    if fn is not None:
        ctx = Ctx.for_fn(pdb, fn)
        body = fn["body"]

        def region(node):
            """'sq' / 'ns' / None: which of rows == cols, rows != cols is known where node executes (if/else or early return)"""
            fs = facts(ctx, node)
            if any(f[0] == "cmp" and f[1] == "==" and {f[2], f[3]} == {ROWS, COLS} for f in fs):
                return "sq"
            if any(f[0] == "cmp" and f[1] == "!=" and {f[2], f[3]} == {ROWS, COLS} for f in fs):
                return "ns"
            return None
        effs = effects(pdb, ctx)
        # non-square part
        pushes = [e for e in effs if e.kind == "push"]
        okn = len(pushes) == 1 and len(pushes[0].loops) == 2 and region(pushes[0].node) == "ns"
        det = ""
        if okn:
            e = pushes[0]
            src = elem_ref(pdb, ctx, _first_index(e.vnode))
            o, i = for_range(ctx, e.loops[0]), for_range(ctx, e.loops[1])
            okn = src is not None and len(src) == 3 and src[0] == P(0) and o is not None and i is not None and \
                src[2] == o[0] and src[1] == i[0] and o[1] == num(0) and o[2] == COLS and i[1] == num(0) and i[2] == ROWS and not o[4] and not i[4]
            assigns = [x for x in effs if x.kind == "assign" and x.target == F(P(0), "mat") and x.value == e.target and region(x.node) == "ns"]
            dimsw = [ev for ev in swap_events(pdb, ctx, body) if {ev[0], ev[1]} == {("place", ROWS), ("place", COLS)} and region(ev[2]) == "ns"]
            okn = okn and len(assigns) == 1 and len(dimsw) == 1 and _pos(assigns[0].node) > _pos(e.loops[0])
            det = "non-square: col-outer push=%s mat replaced=%d dims swapped=%d" % (okn, len(assigns), len(dimsw))
        # square part: every exchange is (i,j) <-> (j,i) over the strict upper triangle, nothing else is written
        evs = [ev for ev in swap_events(pdb, ctx, body, eqs={ROWS: COLS}) if ev[0][0] == "elem2"]
        oks = len(evs) == 1 and region(evs[0][2]) == "sq"
        if oks:
            ev = evs[0]
            loops = [a_ for a_ in _anc(ev[2]) if a_.get("k") == "For"]
            loops.reverse()
            oks = len(loops) == 2
            if oks:
                o, i = for_range(ctx, loops[0]), for_range(ctx, loops[1])
                dims = (ROWS, COLS)
                oks = o is not None and i is not None and o[1] == num(0) and o[2] in dims and i[1] == lin_add(o[0], num(1)) and i[2] in dims and not o[3] and not i[3]
                if oks:
                    A, B = ev[0], ev[1]
                    oks = A[1] == P(0) and B[1] == P(0) and {(A[2], A[3]), (B[2], B[3])} == {(o[0], i[0]), (i[0], o[0])}
            other_sets = [e for e in effs if e.kind in ("set", "upd") and region(e.node) == "sq" and not any(a_ is evs[0][2] or e.node is a_ for a_ in _anc(evs[0][2]))
                          and not _part_of_swap(e, evs[0][2])]
            oks = oks and not other_sets
        det += "; square: strict upper triangle exchange (i,j)<->(j,i)=%s" % oks
        ok = okn and oks
        rep.add("edit/transpose_in_place", rule, ok, fn["body"], det, where=loc(fn["body"]))
        rets_ = []
        for x in walk(fn["body"]):
            if x.get("k") != "Ret":
                continue
            # a return that ends a branch which did its work (`.. self.mat = t; swap(rows, cols); return;`) is the if/else written with an exit; a return with
            # nothing written before it in its block leaves the matrix as it was
            blk_ = next((a for a in _anc(x) if a.get("k") == "Block"), None)
            before = []
            for st_ in (blk_.get("stmts", []) if blk_ is not None else []):
                if any(z is x for z in walk(st_)):
                    break
                before.append(st_)
            wrote = any(z.get("k") in ("Assign", "AssignOp") or (z.get("k") in ("MethodCall", "Call") and str(z.get("name") or callee_path(z) or "").endswith("swap")) for st_ in before for z in walk(st_))
            if not wrote:
                rets_.append(x)
        rep.add("edit/transpose_in_place/every-path", "transpose_in_place has no early return that leaves the matrix untouched: also a 0 x n matrix (no entries at all) must come out as n x 0 - the shape "
                "is exchanged on every path", not rets_, rets_[0] if rets_ else fn["body"], "early returns before any write: %d" % len(rets_))
    # transpose = clone + transpose_in_place
    rule = "transpose returns a clone of self transposed in place"
    fn = _need(rep, pdb, "%s::transpose" % M, "edit/transpose", rule)
    if fn is not None:
        ctx = Ctx.for_fn(pdb, fn)
        calls = [n for n in walk(fn["body"]) if n.get("k") == "MethodCall" and callee_path(n) == "%s::transpose_in_place" % M]
        tail = strip(fn["body"].get("expr")) if fn["body"].get("expr") else None
        ok = len(calls) == 1 and tail is not None
        if ok:
            recv = ctx.term(calls[0]["recv"])
            b = ctx.binds.get(recv[1]) if recv[0] == "var" else None
            ok = b is not None and b.init is not None and ctx.term(b.init) == P(0) and ctx.term(tail) == recv
        rep.add("edit/transpose", rule, ok, fn["body"], "", where=loc(fn["body"]))
    # resize
    rule = "resize(r,c): self becomes new(r,c,zero); (i,j) is copied from the old matrix for i<r, j<c exactly when i<old rows and j<old cols"
    fn = _need(rep, pdb, "%s::resize" % M, "shape/resize", rule)
    if fn is not None:
        ctx = Ctx.for_fn(pdb, fn)
        effs = effects(pdb, ctx)
        repl = [e for e in effs if e.kind == "assign" and e.target == P(0)]
        sets = [e for e in effs if e.kind == "set" and len(e.loops) == 2]
        ok, det = len(repl) == 1 and len(sets) == 1, ""
        if ok:
            rv = repl[0].value
            ok = rv[0] == "call" and str(rv[1]).endswith("Matrix<T>::new") and rv[2] == P(1) and rv[3] == P(2) and \
                rv[4][0] == "call" and str(rv[4][1]).endswith("Zero::zero")
            e = sets[0]
            tgt = elem_ref(pdb, ctx, strip(e.node["l"]))
            src = elem_ref(pdb, ctx, _first_index(e.vnode))
            ranges = loop_var_ranges(ctx, e.loops)
            ok = ok and tgt is not None and src is not None and len(tgt) == 3 and len(src) == 3 and tgt[0] == P(0) and (tgt[1], tgt[2]) == (src[1], src[2])
            if ok:
                i, j = tgt[1], tgt[2]
                old = src[0]
                # the set of copied (i, j): exactly i < r, j < c, i < old.rows, j < old.cols, whether through loop bounds
                # (incl. min(..)) or an if inside the loops; lower bounds 0, ascending or not does not matter
                from .guards import norm_cmp, term_vars
                rng = [raw_for_range(ctx, l) for l in e.loops]
                lows = all(r is not None and r[1] == num(0) for r in rng) and {r[0] for r in rng if r} == {i, j} and i != j
                fs = facts(ctx, e.node)
                mine = {f for f in fs if f[0] == "cmp" and (term_vars(f[2]) | term_vars(f[3])) & {i[1], j[1]}} if i[0] == "var" and j[0] == "var" else set()
                need = {norm_cmp("<", i, P(1)), norm_cmp("<", j, P(2)), norm_cmp("<", i, F(old, "rows")), norm_cmp("<", j, F(old, "cols"))}
                lower = {norm_cmp("<=", num(0), i), norm_cmp("<=", num(0), j)}
                exact = need <= mine and mine <= (need | lower)
                total = all(not early_exits(l) for l in e.loops)
                ok = ok and lows and exact and total
                det = "copied set is exactly {i<r, j<c, i<old.rows, j<old.cols}: %s (facts on i,j: %d)" % (exact, len(mine))
                is_old = True
                # the clone must be taken before `*self = ...`
                ob = ctx.binds.get(old[1]) if old[0] == "var" else None
                before = ob is not None and ob.kind == "let" and ob.init is not None and ctx.term(ob.init) == P(0) and _pos(ob.node) < _pos(repl[0].node)
                ok = ok and before
                det += "; old contents cloned before replacement: %s" % before
        rep.add("shape/resize", rule, ok, fn["body"], det, where=loc(fn["body"]))
    # frame: each editing operation writes only the fields its definition changes
    from .common import rule_frame
    FRAME = {"set_row": {"mat"}, "set_col": {"mat"}, "swap_rows": {"mat"}, "swap_cols": {"mat"}, "swap_elem": {"mat"}, "fill": {"mat"}, "fill_diag": {"mat"},
             "fill_band": {"mat"}, "fill_tridiag": {"mat"}, "fill_row": {"mat"}, "fill_col": {"mat"}, "delete_row": {"mat", "rows"}, "delete_col": {"mat", "cols"},
             "transpose_in_place": {"mat", "rows", "cols", "*"}, "resize": {"mat", "rows", "cols", "*"}}
    n_frame = 0
    for nm, allowed in sorted(FRAME.items()):
        f_ = pdb.fn("%s::%s" % (M, nm))
        if f_ is not None:
            rule_frame(rep, pdb, "edit/frame/%s" % nm, f_, allowed, "%s::%s" % (M, nm))
            n_frame += 1
    rep.floor("edit/frame/", 10)
    # Matrix::new shape
    rule = "new(r,c,e) pushes exactly r*c clones of e and records rows=r, cols=c"
    fn = _need(rep, pdb, "%s::new" % M, "shape/new", rule)
    if fn is not None:
        ctx = Ctx.for_fn(pdb, fn)
        summ = ctor_summary(pdb, fn)
        pushes = [e for e in effects(pdb, ctx) if e.kind == "push" and len(e.loops) == 1]
        ok = summ is not None and summ.get("rows") == P(0) and summ.get("cols") == P(1) and len(pushes) == 1
        if ok:
            r = for_range(ctx, pushes[0].loops[0])
            from .terms import lin_mul
            ok = r is not None and r[1] == num(0) and r[2] == lin_mul(P(0), P(1)) and not r[3] and pushes[0].value == P(2) and summ.get("mat") == pushes[0].target
        rep.add("shape/new", rule, ok, fn["body"], "", where=loc(fn["body"]))


def _pos(n):
    sp = n.get("sp")
    return (sp[0], sp[1]) if sp else (0, 0)


FILE_ADTS = {("src/matrix/arithmetic.rs",): ("matrix::Matrix",), ("src/vector/arithmetic.rs",): ("vector::Vector",),
             ("src/polynomial/arithmetic.rs",): ("polynomial::Polynomial",), ("src/banded.rs",): ("banded::Banded",), ("src/tridiagonal.rs",): ("tridiagonal::Tridiagonal",)}


def rule_delegation(rep, pdb, files, key="delegation"):
    """Consuming operator impls are a single call of the borrowing impl on (&self,&rhs) in operand order."""
    from .c20 import OPS
    n = 0
    for fn in pdb.local_fns():
        from .common import involves_adt
        if not (fn["file"] in files or any(involves_adt(fn, a_) for a_ in FILE_ADTS.get(files, ()))):
            continue
        tr = fn.get("impl_trait")
        if tr not in OP_OF_TRAIT or fn["impl_self"].startswith("&"):
            continue
        fw = forwards_to(pdb, fn)
        if fw is None:
            continue
        callee, idxs, node = fw
        cf = pdb.fn(callee) if callee else None
        if cf is None:
            continue
        n += 1
        in_order = idxs == list(range(len(fn["params"])))
        same = cf.get("impl_trait") == tr or cf.get("name") in ("multiply",)
        rep.add("%s/%s" % (key, fn["path"]), "a forwarding operator impl passes its operands on in the same order to an impl of the same operator",
                in_order and same, node, "forwards to %s with parameter order %s" % (callee, idxs))
    return n


def run(rep, pdb, tier):
    fns = matrix_fns(pdb)
    n_sites = rule_index_kinds(rep, pdb, fns)
    n_el = 0
    for fn in fns:
        tr = fn.get("impl_trait")
        from .common import involves_adt
        if (fn["file"] == "src/matrix/arithmetic.rs" or involves_adt(fn, "matrix::Matrix")) and tr in OP_OF_TRAIT and forwards_to(pdb, fn) is None:
            # Matrix*Matrix and Matrix*Vector are products, not element-wise
            args = fn.get("impl_trait_args", [])
            rhs = args[1] if len(args) > 1 else ""
            if tr == "std::ops::Mul" and ("Matrix" in rhs.lstrip("&") and fn["impl_self"] != "f64" or "Vector" in rhs):
                continue
            rule_elementwise(rep, pdb, fn, container_param=0)
            n_el += 1
    rule_accessors(rep, pdb)
    rule_norms(rep, pdb)
    rule_products(rep, pdb)
    rule_editing(rep, pdb)
    n_del = rule_delegation(rep, pdb, ("src/matrix/arithmetic.rs",))
    rep.floor("index-kinds/", 70)
    rep.floor("elementwise-polarity/", 12)
    rep.floor("elementwise-coindex/", 12)
    rep.floor("elementwise-fullrange/", 12)
    rep.floor("accessor/", 10)
    rep.floor("norm-orientation/", 4)
    rep.floor("product/", 2)
    rep.floor("edit/", 5)
    rep.floor("shape/", 3)
    rep.floor("delegation/", 9)
    rep.assumptions += ["decides shape, polarity, index discipline, range and delegation of each operation for all shapes at once; "
                        "equality with a reference model for all values and histories is not decided statically"]
    return {"index_sites": n_sites, "elementwise_impls": n_el, "delegating_impls": n_del}


def _part_of_swap(e, swapnode):
    """the write-back `A = temp` of the temp-swap idiom sits in the same block as the mem::swap call"""
    blk = None
    for a_ in _anc(swapnode):
        if a_.get("k") == "Block":
            blk = a_
            break
    return blk is not None and any(a_ is blk for a_ in _anc(e.node))
