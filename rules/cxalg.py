"""Exact algebra for the inverse complex functions (C14).

A straight-line body extracted by algebra.SymExec (a tree over the complex argument z, complex constants, `sqrt` and `ln`)
is normalised into

    T(z)  =  c0  +  sum_j  c_j * ln(u_j)            c_j, c0, u_j  in  R = Q[z, i, h, s_1, .., s_m] / (i^2 + 1, s_k^2 - r_k)

where every s_k stands for one `sqrt(r_k)` (r_k a polynomial), `h` stands for pi/2, and fractions of ring elements are kept
as (numerator, denominator).  The relations i^2 = -1 and s_k^2 = r_k form a Groebner basis (coprime leading monomials), so
"reduces to the zero polynomial" is exact ideal membership: an identity proven here holds for EVERY choice of the branches
of the square roots and logarithms (exp(ln u) = u and sqrt(r)^2 = r are the only facts used).

Nothing is evaluated numerically and nothing of ohsl is executed: this is normalisation of one expression tree.
"""
import math
from fractions import Fraction


class NotAlgebraic(Exception):
    pass


# ------------------------------------------------------------------ polynomials (dict: monomial -> Fraction)

def p_const(c):
    c = Fraction(c)
    return {(): c} if c != 0 else {}


def p_var(v):
    return {((v, 1),): Fraction(1)}


def p_add(a, b, s=1):
    out = dict(a)
    for m, c in b.items():
        x = out.get(m, 0) + s * c
        if x == 0:
            out.pop(m, None)
        else:
            out[m] = x
    return out


def p_mul_raw(a, b):
    out = {}
    for m1, c1 in a.items():
        for m2, c2 in b.items():
            d = dict(m1)
            for v, e in m2:
                d[v] = d.get(v, 0) + e
            m = tuple(sorted(d.items()))
            x = out.get(m, 0) + c1 * c2
            if x == 0:
                out.pop(m, None)
            else:
                out[m] = x
    return out


class Ring:
    def __init__(self):
        self.rads = []      # radicand polynomial of s_k (normal form)
        self.lns = []       # ln atoms: elements (N, D)

    # -- normal form modulo i^2 = -1, s_k^2 = r_k
    def reduce(self, p):
        while True:
            again = False
            out = {}
            for m, c in p.items():
                red = None
                for v, e in m:
                    if e >= 2 and (v == "i" or v.startswith("s")):
                        red = (v, e)
                        break
                if red is None:
                    x = out.get(m, 0) + c
                    if x == 0:
                        out.pop(m, None)
                    else:
                        out[m] = x
                    continue
                again = True
                v, e = red
                rest = tuple((w, f) for w, f in m if w != v) + (((v, e - 2),) if e - 2 > 0 else ())
                rest = tuple(sorted(rest))
                repl = p_const(-1) if v == "i" else self.rads[int(v[1:])]
                for m2, c2 in p_mul_raw({rest: c}, repl).items():
                    x = out.get(m2, 0) + c2
                    if x == 0:
                        out.pop(m2, None)
                    else:
                        out[m2] = x
            p = out
            if not again:
                return p

    def mul(self, a, b):
        return self.reduce(p_mul_raw(a, b))

    # -- fractions (N, D)
    def e_const(self, c):
        return (p_const(c), p_const(1))

    def e_add(self, a, b, s=1):
        return (p_add(self.mul(a[0], b[1]), self.mul(b[0], a[1]), s), self.mul(a[1], b[1]))

    def e_mul(self, a, b):
        return (self.mul(a[0], b[0]), self.mul(a[1], b[1]))

    def e_div(self, a, b):
        if not b[0]:
            raise NotAlgebraic("division by the zero element")
        return (self.mul(a[0], b[1]), self.mul(a[1], b[0]))

    def e_neg(self, a):
        return (p_add({}, a[0], -1), a[1])

    def e_eq(self, a, b):
        return not p_add(self.mul(a[0], b[1]), self.mul(b[0], a[1]), -1)

    def e_is_zero(self, a):
        return not a[0]

    def e_pow(self, a, n):
        if n < 0:
            a, n = self.e_div(self.e_const(1), a), -n
        out = self.e_const(1)
        for _ in range(n):
            out = self.e_mul(out, a)
        return out

    def as_const(self, a):
        """the element as a rational number, or None"""
        n, d = a
        if set(n) <= {()} and set(d) == {()}:
            return n.get((), Fraction(0)) / d[()]
        # constants may hide behind a common factor: compare with every small candidate is not needed here
        return None

    def sqrt_atom(self, a):
        c = self.as_const_poly_den(a)
        for k, r in enumerate(self.rads):
            if r == c:
                return (p_var("s%d" % k), p_const(1))
        self.rads.append(c)
        return (p_var("s%d" % (len(self.rads) - 1)), p_const(1))

    def as_const_poly_den(self, a):
        n, d = a
        if set(d) != {()}:
            raise NotAlgebraic("square root of a proper fraction")
        inv = 1 / d[()]
        return {m: c * inv for m, c in n.items()}

    def ln_atom(self, a):
        for j, u in enumerate(self.lns):
            if self.e_eq(u, a):
                return j
        self.lns.append(a)
        return len(self.lns) - 1


class LogLin:
    """c0 + sum_j c_j ln(u_j)"""
    def __init__(self, ring, c0=None, terms=None):
        self.R = ring
        self.c0 = c0 if c0 is not None else ring.e_const(0)
        self.terms = dict(terms or {})

    def is_alg(self):
        return all(self.R.e_is_zero(c) for c in self.terms.values())

    def add(self, o, s=1):
        t = dict(self.terms)
        for j, c in o.terms.items():
            t[j] = self.R.e_add(t[j], c, s) if j in t else (c if s == 1 else self.R.e_neg(c))
        return LogLin(self.R, self.R.e_add(self.c0, o.c0, s), t)

    def scale(self, e, div=False):
        f = self.R.e_div if div else self.R.e_mul
        return LogLin(self.R, f(self.c0, e), {j: f(c, e) for j, c in self.terms.items()})


HALF_PI = math.pi / 2


def evaluate(tree, ring, z, resolver=None):
    """tree (algebra.SymExec form) -> LogLin.  `z` is the LogLin bound to the function's argument;
    resolver(path) -> tree of a local complex function of one argument (for calls such as self.asin())."""
    R = ring

    def alg(v):
        if not v.is_alg():
            raise NotAlgebraic("a logarithm occurs where an algebraic value is needed")
        return v.c0

    def ev(t):
        k = t[0]
        if k == "num":
            q = t[1]
            f = float(q)
            for mult, name in ((1, "h"), (2, "h2")):
                if abs(f - mult * HALF_PI) < 1e-12:
                    return LogLin(R, (p_mul_raw(p_const(mult), p_var("h")), p_const(1)))
            return LogLin(R, R.e_const(q))
        if k == "const":
            p = str(t[1])
            if p.endswith("FRAC_PI_2"):
                return LogLin(R, (p_var("h"), p_const(1)))
            if p.endswith("consts::PI"):
                return LogLin(R, (p_mul_raw(p_const(2), p_var("h")), p_const(1)))
            raise NotAlgebraic("constant %s" % p)
        if k == "in":
            if t[1] == ("param", 0):
                return z
            raise NotAlgebraic("component access %r" % (t[1],))
        if k == "neg":
            v = ev(t[1])
            return v.scale(R.e_const(-1))
        if k == "cplx":
            re, im = ev(t[1]), ev(t[2])
            return LogLin(R, R.e_add(alg(re), R.e_mul((p_var("i"), p_const(1)), alg(im))))
        if k in ("cop", "op"):
            sym = t[1]
            if k == "cop":
                s = str(t[1])
                sym = "+" if "::Add" in s else "-" if "::Sub" in s else "*" if "::Mul" in s else "/" if "::Div" in s else None
                if sym is None:
                    raise NotAlgebraic("operator %s" % s)
            a, b = ev(t[2]), ev(t[3])
            if sym == "+":
                return a.add(b)
            if sym == "-":
                return a.add(b, -1)
            if sym == "*":
                if b.is_alg():
                    return a.scale(b.c0)
                if a.is_alg():
                    return b.scale(a.c0)
                raise NotAlgebraic("product of two logarithmic terms")
            if sym == "/":
                return a.scale(alg(b), div=True)
        if k == "ccall":
            name = str(t[1]).split("::")[-1]
            args = [ev(x) for x in t[2:]]
            if name == "sqrt" and len(args) == 1:
                return LogLin(R, R.sqrt_atom(alg(args[0])))
            if name == "ln" and len(args) == 1:
                j = R.ln_atom(alg(args[0]))
                return LogLin(R, None, {j: R.e_const(1)})
            if resolver is not None and len(args) == 1:
                sub = resolver(t[1])
                if sub is not None:
                    return evaluate(sub, ring, args[0], resolver)
            raise NotAlgebraic("call of %s" % t[1])
        raise NotAlgebraic("node %s" % k)

    return ev(tree)


def exp_of(ring, T, lam):
    """E(lam * T) as a ring fraction, using only exp(ln u) = u and exp(i k pi/2) = i^k; lam is a ring fraction (a constant)."""
    R = ring
    out = R.e_const(1)
    for j, c in T.terms.items():
        n = R.as_const(R.e_mul(lam, c))
        if n is None or n.denominator != 1:
            raise NotAlgebraic("exp of a non-integer multiple of a logarithm (%s)" % (n,))
        out = R.e_mul(out, R.e_pow(R.lns[j], int(n)))
    c0 = R.e_mul(lam, T.c0)
    # c0 must be  i * k * h  with k an integer
    n, d = c0
    if set(d) != {()}:
        raise NotAlgebraic("constant term of the exponent")
    inv = 1 / d[()]
    k = None
    for m, c in n.items():
        if m == (("h", 1), ("i", 1)) and (c * inv).denominator == 1:
            k = int(c * inv)
        else:
            raise NotAlgebraic("exp of a constant other than i k pi/2")
    if k:
        ipow = {0: p_const(1), 1: p_var("i"), 2: p_const(-1), 3: p_add({}, p_var("i"), -1)}[k % 4]
        out = R.e_mul(out, (ipow, p_const(1)))
    return out


def forward(ring, f, T):
    """the forward function f applied to T through its exponential definition"""
    R = ring
    I = (p_var("i"), p_const(1))
    one, two = R.e_const(1), R.e_const(2)
    if f in ("sin", "cos"):
        a, b = exp_of(R, T, I), exp_of(R, T, R.e_neg(I))
        if f == "sin":
            return R.e_div(R.e_add(a, b, -1), R.e_mul(two, I))
        return R.e_div(R.e_add(a, b), two)
    if f in ("sinh", "cosh"):
        a, b = exp_of(R, T, one), exp_of(R, T, R.e_const(-1))
        return R.e_div(R.e_add(a, b, -1 if f == "sinh" else 1), two)
    if f == "tan":
        e = exp_of(R, T, R.e_mul(two, I))
        return R.e_mul(R.e_neg(I), R.e_div(R.e_add(e, one, -1), R.e_add(e, one)))
    if f == "tanh":
        e = exp_of(R, T, two)
        return R.e_div(R.e_add(e, one, -1), R.e_add(e, one))
    raise NotAlgebraic("forward function %s" % f)


def show_poly(p):
    if not p:
        return "0"
    out = []
    for m, c in sorted(p.items(), key=lambda kv: repr(kv[0])):
        mon = "*".join(v if e == 1 else "%s^%d" % (v, e) for v, e in m)
        out.append(("%s*%s" % (c, mon)) if mon and c != 1 else (mon or str(c)))
    return " + ".join(out)


def show_elem(ring, e):
    n, d = e
    return show_poly(n) if d == p_const(1) else "(%s)/(%s)" % (show_poly(n), show_poly(d))


def show_loglin(ring, T):
    parts = []
    if not ring.e_is_zero(T.c0):
        parts.append(show_elem(ring, T.c0))
    for j, c in T.terms.items():
        if not ring.e_is_zero(c):
            parts.append("(%s)*ln(%s)" % (show_elem(ring, c), show_elem(ring, ring.lns[j])))
    s = " + ".join(parts) or "0"
    if ring.rads:
        s += "   where " + ", ".join("s%d^2 = %s" % (k, show_poly(r)) for k, r in enumerate(ring.rads))
    return s


def signature(ring, T):
    """A branch-structure signature that does not depend on atom numbering: c0, and the list of (c_j, u_j) with the square
    roots replaced by their radicands' normal forms."""
    def canon_elem(e):
        # normalise the fraction to a constant denominator when possible
        n, d = e
        if set(d) == {()}:
            inv = 1 / d[()]
            return ("p", tuple(sorted(((m, c * inv) for m, c in n.items()), key=repr)))
        return ("f", tuple(sorted(n.items(), key=repr)), tuple(sorted(d.items(), key=repr)))
    rads = tuple(tuple(sorted(r.items(), key=repr)) for r in ring.rads)
    terms = sorted(((canon_elem(c), canon_elem(ring.lns[j])) for j, c in T.terms.items() if not ring.e_is_zero(c)), key=repr)
    return (canon_elem(T.c0), tuple(terms), rads)


def rename_poly(p, ren):
    out = {}
    for m, c in p.items():
        m2 = tuple(sorted((ren.get(v, v), e) for v, e in m))
        out[m2] = c
    return out


def same_loglin(R1, T1, R2, T2):
    """T1 (over ring R1) and T2 (over R2) are the same expression up to the numbering of the sqrt and ln atoms."""
    import itertools
    if len(R1.rads) != len(R2.rads):
        return False
    n = len(R1.rads)
    for perm in itertools.permutations(range(n)):
        ren = {"s%d" % k: "s%d" % perm[k] for k in range(n)}
        if any(rename_poly(R1.rads[k], ren) != R2.rads[perm[k]] for k in range(n)):
            continue

        def mv(e):
            return (rename_poly(e[0], ren), rename_poly(e[1], ren))
        if not R2.e_eq(mv(T1.c0), T2.c0):
            continue
        t1 = [(mv(c), mv(R1.lns[j])) for j, c in T1.terms.items() if not R1.e_is_zero(c)]
        t2 = [(c, R2.lns[j]) for j, c in T2.terms.items() if not R2.e_is_zero(c)]
        if len(t1) != len(t2):
            continue
        used = set()
        ok = True
        for c, u in t1:
            hit = None
            for idx, (c2, u2) in enumerate(t2):
                if idx not in used and R2.e_eq(c, c2) and R2.e_eq(u, u2):
                    hit = idx
                    break
            if hit is None:
                ok = False
                break
            used.add(hit)
        if ok:
            return True
    return False
