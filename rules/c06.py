"""C06 — all views of a sparse matrix agree; compressed-column form stays well-formed.
   (C07 reuses the walk analysis.)"""
from .pdb import strip, walk, loc, ancestors
from .terms import Ctx, num, show, lin_add, lin_sub
from .common import (P, F, SIZE, LEN, GE, effects, callee_path, call_args, ctor_summary, in_macro, effective_guards, entry_guards,
                     is_push, same_dim, local_ties, is_zero_term, canon_atom, guard_alts)
from .common import value_before
from .guards import facts, cond_atoms, norm_cmp
from .guards import for_range as raw_for_range
from .common import for_range_total as for_range

LEVEL = "other"
S = "sparse::Sparse<T>"
ROWS, COLS, NNZ = F(P(0), "rows"), F(P(0), "cols"), F(P(0), "nonzero")
VAL, RI, CS = F(P(0), "val"), F(P(0), "row_index"), F(P(0), "col_start")


def csc_walk(ctx, loops, pdb=None):
    """Recognise `for j in 0..cols { for k in col_start[j]..col_start[j+1] {` ; return (j, k) or None."""
    if len(loops) < 2:
        return None
    o, i = for_range(ctx, loops[0]), for_range(ctx, loops[1])
    if o is None or i is None:
        return None
    j, k = o[0], i[0]
    hi_ok = o[2] == COLS
    if not hi_ok and pdb is not None:
        # the column loop runs over a vector whose length a guard has tied to cols (`for (j, xj) in x.iter().enumerate()`)
        from .common import same_dim
        hi_ok = same_dim(pdb, ctx, loops[0], o[2], COLS)
    if o[1] != num(0) or not hi_ok or o[3] or o[4]:
        return None
    if i[1] != ("idx", CS, j) or i[2] != ("idx", CS, lin_add(j, num(1))) or i[3] or i[4]:
        return None
    return j, k


def uses_of(t, base):
    """All index terms with which `base` is indexed inside term t."""
    out = []

    def rec(x):
        if isinstance(x, tuple):
            if x and x[0] == "idx" and x[1] == base:
                out.append(x[2])
            for y in x:
                if isinstance(y, tuple):
                    rec(y)
    rec(t)
    return out


def check_walks(rep, pdb, names, key="csc-walk"):
    """Every traversal has the one CSC shape, val/row_index co-indexed by the inner variable."""
    res = {}
    for name in names:
        fn = pdb.fn("%s::%s" % (S, name))
        rule = ("every traversal is `for j in 0..cols { for k in col_start[j]..col_start[j+1] {..} }`; val and row_index are indexed by the same k; "
                "the value read from row_index is used only in row positions, j only in column positions")
        if fn is None:
            rep.missing("%s/%s" % (key, name), rule, "function not found")
            continue
        ctx = Ctx.for_fn(pdb, fn)
        effs = [e for e in effects(pdb, ctx) if len(e.loops) >= 2 and e.kind in ("upd", "set", "push")]
        n = 0
        for e in effs:
            w = csc_walk(ctx, e.loops, pdb)
            n += 1
            kk = "%s/%s#%d" % (key, name, n)
            if w is None:
                rep.bad(kk, rule, e.node, "loop nest is not the CSC walk")
                continue
            j, k = w
            whole = ("x", e.value, e.index if e.index is not None else ("unit",), e.target)
            vi = uses_of(whole, VAL)
            ri = uses_of(whole, RI)
            co = all(x == k for x in vi + ri)
            res.setdefault(name, []).append((e, j, k))
            rep.add(kk, rule, co, e.node, "val indexed by %s, row_index by %s (walk variable %s)" % ([show(x, ctx) for x in vi], [show(x, ctx) for x in ri], show(k, ctx)))
    return res


def run(rep, pdb, tier):
    walks = check_walks(rep, pdb, ["multiply", "transpose_multiply", "transpose", "to_triplets", "to_dense"])
    # ---- roles
    for name, checker in (("to_triplets", "trip"), ("to_dense", "dense")):
        fn = pdb.fn("%s::%s" % (S, name))
        if fn is None or name not in walks:
            rep.missing("role/%s" % name, "walk found", "not found")
            continue
        ctx = Ctx.for_fn(pdb, fn)
        e, j, k = walks[name][0]
        rowv = ("idx", RI, k)
        if checker == "trip":
            ok = e.kind == "push" and e.value == ("tup", rowv, j, ("idx", VAL, k))
            det = "pushes %s" % show(e.value, ctx)
        else:
            tb = ctx.binds.get(e.target[1]) if e.target[0] == "var" else None
            it = ctx.term(tb.init) if tb is not None and tb.init is not None else None
            shape = it is not None and it[0] == "call" and str(it[1]).endswith("Matrix<T>::new") and it[2:4] == (ROWS, COLS) and is_zero_term(it[4])
            ok = e.kind == "set" and e.index == ("tup", rowv, j) and e.value == ("idx", VAL, k) and shape
            det = "dense[(%s)] = %s; dense is rows x cols zeros: %s" % (show(e.index, ctx), show(e.value, ctx), shape)
        rep.add("role/%s" % name, "the triplet / dense entry is (row_index[k], j, val[k]): row from row_index, column from the walk", ok, e.node, det)
    rule_construction(rep, pdb)
    rule_lookup(rep, pdb)
    rule_scale_values_only(rep, pdb)
    # ---- transpose shape / scatter
    check_transpose(rep, pdb, walks, "transpose-shape")
    rep.floor("csc-walk/", 7)
    rep.floor("role/", 2)
    rep.floor("lengths/", 3)
    rep.floor("lookup/", 3)
    rep.assumptions += ["raw arrays given to from_vecs are well-formed (the property quantifies over well-formed raw input; the function performs no validation)",
                        "independence of the triplet order and equality with a reference model over all patterns and histories are not decided statically; monotonicity of col_start follows from the prefix-sum rule"]
    return {}


def rule_construction(rep, pdb):
    """constructors establish the compressed-column invariants (also evaluated under C07: the products walk these arrays)"""
    # ---- lengths: constructors
    fn = pdb.fn("%s::new_nonzero" % S)
    rule = "new_nonzero(rows, cols, nnz) allocates len(val) = len(row_index) = nnz and len(col_start) = cols + 1"
    if fn is None:
        # the private allocator written out at its only caller: the same obligation on the struct literal in transpose (checked there as well)
        tp_ = pdb.fn("%s::transpose" % S)
        lit_ = None
        if tp_ is not None:
            c_ = Ctx.for_fn(pdb, tp_)
            for st_ in tp_["body"].get("stmts", []):
                if st_.get("k") == "Let" and st_.get("init") is not None:
                    t_ = c_.term(st_["init"])
                    if t_[0] == "struct" and str(t_[1]).endswith("Sparse"):
                        lit_ = dict((f_[0], f_[1]) for f_ in t_[2:])
                        break
        def _fe(t, n_):
            return t is not None and t[0] == "call" and str(t[1]).endswith("from_elem") and t[3] == n_
        if lit_ is None:
            rep.missing("lengths/new_nonzero", rule, "not found")
        else:
            okl_ = _fe(lit_.get("val"), lit_.get("nonzero")) and _fe(lit_.get("row_index"), lit_.get("nonzero")) and _fe(lit_.get("col_start"), lin_add(lit_.get("cols"), num(1)))
            rep.add("lengths/new_nonzero", rule, okl_, tp_["body"], "written out in transpose", where=loc(tp_["body"]))
    else:
        summ = ctor_summary(pdb, fn)

        def velen(t):
            return t[3] if t is not None and t[0] == "call" and str(t[1]).endswith("from_elem") else None
        ok = summ is not None and summ.get("rows") == P(0) and summ.get("cols") == P(1) and summ.get("nonzero") == P(2) and \
            velen(summ.get("val")) == P(2) and velen(summ.get("row_index")) == P(2) and velen(summ.get("col_start")) == lin_add(P(1), num(1))
        rep.add("lengths/new_nonzero", rule, ok, fn["body"], "", where=loc(fn["body"]))
    fn = pdb.fn("%s::from_vecs" % S)
    rule = ("from_vecs(rows, cols, val, row_index, col_start) stores its five arguments in the fields of the same name and takes nonzero from the end of the "
            "column starts (col_start[len-1] or col_start[cols]) or from the length of val / row_index")
    if fn is None:
        rep.missing("lengths/from_vecs", rule, "not found")
    else:
        summ = ctor_summary(pdb, fn)
        ok, det = summ is not None, ""
        if ok:
            nz = summ.get("nonzero")
            cs = P(4)
            good_nz = (("idx", cs, lin_add(LEN(cs), num(-1))), ("idx", cs, P(1)), LEN(P(2)), LEN(P(3)))
            ok = summ.get("rows") == P(0) and summ.get("cols") == P(1) and summ.get("val") == P(2) and summ.get("row_index") == P(3) and summ.get("col_start") == cs and nz in good_nz
            ctx_ = Ctx.for_fn(pdb, fn)
            det = "nonzero = %s" % (show(nz, ctx_) if nz is not None else None)
        rep.add("lengths/from_vecs", rule, ok, fn["body"], det, where=loc(fn["body"]))
        # ---- a validation of the raw arrays must accept what the crate itself produces: equal consecutive column starts are an empty column
        rule_e = ("no panic guard of from_vecs holds for two EQUAL neighbouring entries of one array (`w[0] >= w[1]`, `col_start[j] >= col_start[j+1]`): equal consecutive "
                  "column starts are how compressed-column storage encodes an empty column (from_triplets, insert and transpose produce them), so a strictness test rejects well-formed matrices")
        ctx_ = Ctx.for_fn(pdb, fn)
        bad_e, n_cmp = [], 0
        for site in walk(fn["body"]):
            if site.get("ty") != "!" or site.get("k") in ("Ret", "Break", "Continue", "Loop") or any(a.get("ty") == "!" for a in ancestors(site)):
                continue
            chain = [site] + list(ancestors(site))
            for i_, a in enumerate(chain):
                if a.get("k") != "If" or i_ == 0:
                    continue
                pol0 = True if any(z is a.get("then") for z in chain[:i_]) else (False if any(z is a.get("else") for z in chain[:i_]) else None)
                if pol0 is None:
                    continue

                def scan(n_, pol):
                    n_ = strip(n_)
                    k_ = n_.get("k")
                    if k_ == "Unary" and n_.get("op") == "!":
                        return scan(n_["e"], not pol)
                    if k_ == "Binary" and n_.get("op") in ("&&", "||"):
                        return scan(n_["l"], pol) + scan(n_["r"], pol)
                    if k_ == "Binary" and n_.get("op") in ("<", "<=", ">", ">=", "==", "!="):
                        l_, r_ = strip(n_["l"]), strip(n_["r"])
                        while l_.get("k") == "Unary" and l_.get("op") == "*":
                            l_ = strip(l_["e"])
                        while r_.get("k") == "Unary" and r_.get("op") == "*":
                            r_ = strip(r_["e"])
                        if l_.get("k") == "Index" and r_.get("k") == "Index":
                            try:
                                same_base = ctx_.term(l_["base"]) == ctx_.term(r_["base"]) and ctx_.term(l_["idx"]) != ctx_.term(r_["idx"])
                            except Exception:
                                same_base = False
                            if same_base:
                                op = n_["op"] if pol else {"<": ">=", "<=": ">", ">": "<=", ">=": "<", "==": "!=", "!=": "=="}[n_["op"]]
                                return [(n_, op)]
                        return []
                    if k_ == "MethodCall":
                        out = scan(n_["recv"], pol)
                        for x in n_.get("args", []):
                            out += scan(x, pol)
                        return out
                    if k_ == "Closure":
                        return scan(n_["body"], pol)
                    if k_ == "Block" and not n_.get("stmts") and n_.get("expr") is not None:
                        return scan(n_["expr"], pol)
                    return []
                for cn, op in scan(a["cond"], pol0):
                    n_cmp += 1
                    if op in ("<=", ">=", "=="):
                        bad_e.append(cn)
        rep.add("lengths/from_vecs/accepts-empty-columns", rule_e, not bad_e, bad_e[0] if bad_e else fn["body"],
                "comparisons of neighbouring entries in panic guards: %d, satisfied by equal entries: %d" % (n_cmp, len(bad_e)), where=loc(bad_e[0]) if bad_e else loc(fn["body"]))
    fn = pdb.fn("%s::from_triplets" % S)
    rule = "from_triplets: one push to each of row_index (.0), col_index (.1), val (.2) and nonzero += 1 per drained triplet; col_start computed from the column indices; rows/cols recorded"
    if fn is None:
        rep.missing("lengths/from_triplets", rule, "not found")
    else:
        ctx = Ctx.for_fn(pdb, fn)
        effs = effects(pdb, ctx)
        inloop = [e for e in effs if e.loops]
        pushes = [e for e in inloop if e.kind == "push"]
        incs = [e for e in inloop if e.kind == "assignop" and e.op == "+=" and e.value == num(1)]
        ok = len(pushes) == 3 and len(incs) <= 1 and len({id(e.loops[0]) for e in pushes + incs}) == 1 and all(len(e.loops) == 1 for e in pushes + incs)
        det = "pushes=%d increments=%d" % (len(pushes), len(incs))
        counted_by_len = ok and not incs
        if counted_by_len:
            # nonzero taken as the length of one of the three vectors after the loop instead of a running counter
            class _Z:
                pass
            z = _Z()
            z.target, z.node, z.loops = None, pushes[0].node, pushes[0].loops
            incs = [z]
        if ok:
            lp = pushes[0].loops[0]
            tv = ("var", lp["pat"]["v"]) if lp["pat"].get("k") == "Bind" else None
            it = ctx.term(lp["iter"])
            drains = it[0] == "call" and str(it[1]).endswith("drain") and it[2] == P(2)
            comp = {e.value[2] if e.value[0] == "field" and e.value[1] == tv else None: e.target for e in pushes}
            # each push is unconditional inside the loop body (no enclosing if)
            uncond = all(not [a for a in ancestors(e.node) if a.get("k") == "If" and any(x is lp for x in ancestors(a))] for e in pushes + ([] if counted_by_len else incs))
            tail = fn["body"].get("expr")
            sp = ctx.term(tail) if tail is not None else None
            sb = ctx.binds.get(sp[1]) if sp is not None and sp[0] == "var" else None
            st = ctx.term(sb.init) if sb is not None and sb.init is not None else None
            fields = dict(st[2:]) if st is not None and st[0] == "struct" else {}
            nzf = fields.get("nonzero")
            if counted_by_len:
                nzd = ctx.def_term(nzf) if nzf is not None and nzf[0] == "var" and ctx.def_term(nzf) is not None else nzf
                nz_ok = nzd is not None and nzd[0] == "len" and nzd[1] in (comp.get("0"), comp.get("1"), comp.get("2"))
            else:
                nz_ok = nzf == incs[0].target
            okf = fields.get("rows") == P(0) and fields.get("cols") == P(1) and nz_ok and \
                fields.get("val") == comp.get("2") and fields.get("row_index") == comp.get("0")
            cs = [e for e in effs if e.kind == "assign" and e.target == ("field", sp, "col_start")] if sp else []
            okc = len(cs) == 1 and cs[0].value[0] == "call" and str(cs[1 - 1].value[1]).endswith("col_start_from_index") and cs[0].value[2] == sp and \
                cs[0].value[3] == ("call", "vector::Vector<T>::create", comp.get("1"))
            if counted_by_len:
                okn = all((lambda tb: tb is not None and tb.init is not None and ctx.term(tb.init)[0] == "call" and str(ctx.term(tb.init)[1]).endswith("::new") and len(ctx.term(tb.init)) == 2)(
                    ctx.binds.get(t_[1]) if t_ is not None and t_[0] == "var" else None) for t_ in comp.values())      # the three vectors start empty
            else:
                nz0 = ctx.binds.get(incs[0].target[1])
                okn = nz0 is not None and nz0.init is not None and ctx.term(nz0.init) == num(0)
            ok = drains and set(comp) == {"0", "1", "2"} and uncond and okf and okc and okn
            det = "drains the argument=%s components .0/.1/.2 each pushed once=%s unconditional=%s struct fields=%s col_start from col_index=%s nonzero starts at 0=%s" % (
                drains, set(comp) == {"0", "1", "2"}, uncond, okf, okc, okn)
            # sort by column, stable
            sorts = [n for n in walk(fn["body"]) if n.get("k") == "MethodCall" and n.get("name") in ("sort_by_key", "sort_by", "sort_unstable_by_key", "sort_unstable_by", "sort", "sort_unstable")]
            oks = len(sorts) == 1 and sorts[0]["name"] in ("sort_by_key", "sort_unstable_by_key", "sort_by_cached_key") and ctx.term(sorts[0]["recv"]) == P(2)
            if oks:
                cl = strip(sorts[0]["args"][0])
                par = cl["params"][0] if cl.get("k") == "Closure" and len(cl.get("params", [])) == 1 else None
                key_is_col = False
                if par is not None and par.get("k") == "Bind":
                    key_is_col = ctx.term(cl["body"]) == ("field", ("var", par["v"]), "1")
                elif par is not None:
                    q_ = par["p"] if par.get("k") == "Ref" else par          # |&( _, col, _ )| col
                    if q_.get("k") == "Tuple" and len(q_.get("ps", [])) == 3 and q_["ps"][1].get("k") == "Bind":
                        b_ = strip(cl["body"])
                        key_is_col = b_.get("k") == "Local" and b_.get("v") == q_["ps"][1]["v"]
                # the sort runs on every path: skipping it "when the list is already ordered" makes the result depend on that test being right
                uncond = not [a_ for a_ in ancestors(sorts[0]) if a_.get("k") in ("If", "Match", "For", "While", "Loop", "Closure")]
                oks = key_is_col and _pos(sorts[0]) < _pos(lp) and uncond
            rep.add("lengths/from_triplets-sort", "triplets are sorted by column (a *_by_key sort on component .1; stability is not needed for duplicate-free input) before they are drained", oks, sorts[0] if sorts else fn["body"], "")
        # the triplets are reordered, never filtered: every entry handed in is stored
        TR = P(2)
        calls_on = [n for n in walk(fn["body"]) if n.get("k") == "MethodCall" and ctx.term(n["recv"]) == TR and not n.get("x")]
        okm = ("sort", "sort_by", "sort_by_key", "sort_unstable", "sort_unstable_by", "sort_unstable_by_key", "sort_by_cached_key", "len", "is_empty", "iter", "drain", "into_iter", "iter_mut", "clone", "as_slice", "as_mut_slice")
        badc = [n for n in calls_on if n.get("name") not in okm]
        rep.add("lengths/from_triplets/keeps-all", "from_triplets only reorders its input (sort) and then stores every triplet: nothing filters, deduplicates or truncates the list "
                "(a de-duplication keyed on a wrong stride drops distinct entries of tall matrices)", not badc, badc[0] if badc else fn["body"],
                "calls on the triplet list: %s" % sorted({n.get("name") for n in calls_on}))
        rep.add("lengths/from_triplets", rule, ok, fn["body"], det, where=loc(fn["body"]))
        # ---- a special case that returns early must build a well-formed matrix too (cols + 1 column starts)
        ctx_t = Ctx.for_fn(pdb, fn)
        bad_r = []
        for x in walk(fn["body"]):
            if x.get("k") != "Ret" or x.get("e") is None or any(a.get("k") == "Closure" for a in ancestors(x)):
                continue
            t_ = ctx_t.term(x["e"])
            good = False
            if t_[0] == "call" and str(t_[1]).endswith("::from_vecs") and len(t_) == 7:
                cs_ = t_[6]
                good = cs_[0] == "call" and str(cs_[1]).endswith("from_elem") and cs_[2] == num(0) and cs_[3] == lin_add(P(1), num(1)) and t_[2] == P(0) and t_[3] == P(1)
            elif t_[0] == "call" and str(t_[1]).endswith("Sparse<T>::new") and t_[2:4] == (P(0), P(1)):
                good = True
            if not good:
                bad_r.append(x)
        rep.add("lengths/from_triplets/early-return", "an early return of from_triplets (a special case for an empty list ..) hands back a matrix with cols + 1 column starts, like every other path",
                not bad_r, bad_r[0] if bad_r else fn["body"], "early returns not shown to be well-formed: %d" % len(bad_r))
    # ---- col_start_from_index
    fn = pdb.fn("%s::col_start_from_index" % S)
    rule = ("col_start_from_index: zeros(cols+1); counting pass over 0..nonzero increments col_start[col_index[n]]; exclusive prefix sum over 0..cols "
            "(ck = cs[k]; cs[k] = sum; sum += ck) and cs[cols] = sum")
    if fn is None:
        rep.missing("col-start", rule, "not found")
    else:
        ctx = Ctx.for_fn(pdb, fn)
        effs = effects(pdb, ctx)
        tail = fn["body"].get("expr")
        cs = ctx.term(tail) if tail is not None else None
        cb = ctx.binds.get(cs[1]) if cs is not None and cs[0] == "var" else None
        ci = ctx.term(cb.init) if cb is not None and cb.init is not None else None
        alloc = ci is not None and ci[0] == "call" and str(ci[1]).endswith("from_elem") and ci[2] == num(0) and ci[3] == lin_add(COLS, num(1))
        cnt = [e for e in effs if e.kind == "upd" and e.target == cs and len(e.loops) == 1]
        okc = len(cnt) == 1
        if okc:
            r = for_range(ctx, cnt[0].loops[0])
            okc = r[1:4] == (num(0), NNZ, False) and cnt[0].op == "+=" and cnt[0].value == num(1) and cnt[0].index in (("idx", P(1), r[0]), ("idx", F(P(1), "vec"), r[0]))
        pre = [e for e in effs if e.kind == "set" and e.target == cs and len(e.loops) == 1]
        acc = [e for e in effs if e.kind == "assignop" and e.op == "+=" and len(e.loops) == 1]
        last = [e for e in effs if e.kind == "set" and e.target == cs and not e.loops]
        okp = len(pre) == 1 and len(acc) == 1 and len(last) == 1
        if okp:
            p_, a_, l_ = pre[0], acc[0], last[0]
            r = for_range(ctx, p_.loops[0])
            k = r[0]
            s = a_.target
            ckdef = ctx.def_term(a_.value) if a_.value[0] == "var" else a_.value
            ckb = ctx.binds.get(a_.value[1]) if a_.value[0] == "var" else None
            order = ckb is not None and _pos(ckb.node) < _pos(p_.node) < _pos(a_.node) and a_.loops == p_.loops
            sb = ctx.binds.get(s[1]) if s[0] == "var" else None
            s0 = sb is not None and sb.init is not None and ctx.term(sb.init) == num(0)
            okp = r[1:5] == (num(0), COLS, False, False) and p_.index == k and p_.value == s and ckdef == ("idx", cs, k) and order and s0 and \
                l_.index == COLS and l_.value == s and _pos(l_.node) > _pos(p_.loops[0]) and _pos(cnt[0].loops[0]) < _pos(p_.loops[0]) if okc else False
        rep.add("col-start", rule, bool(alloc and okc and okp), fn["body"], "alloc cols+1 zeros=%s counting pass=%s exclusive prefix sum + final total=%s" % (alloc, okc, okp), where=loc(fn["body"]))
    # ---- col_index
    fn = pdb.fn("%s::col_index" % S)
    rule = "col_index expands, for k in 0..len(col_start)-1, gap = col_start[k+1]-col_start[k] copies of k"
    if fn is None:
        rep.missing("col-index", rule, "not found")
    else:
        ctx = Ctx.for_fn(pdb, fn)
        effs = effects(pdb, ctx)
        pushes = [e for e in effs if e.kind == "push" and len(e.loops) == 2]
        gaps = [e for e in effs if e.kind == "set" and len(e.loops) == 1]
        ok = len(pushes) == 1 and len(gaps) <= 1
        det = ""
        if ok:
            pu = pushes[0]
            ro, ri = for_range(ctx, pu.loops[0]), for_range(ctx, pu.loops[1])
            k = ro[0]
            gapv = lin_sub(("idx", CS, lin_add(k, num(1))), ("idx", CS, k))
            # the number of copies: the gap itself, or a scratch vector element set to the gap in the same outer iteration
            count, outer_hi = ri[2], ro[2]
            if gaps:
                ga = gaps[0]
                gb = ctx.binds.get(ga.target[1]) if ga.target[0] == "var" else None
                gi = ctx.term(gb.init) if gb is not None and gb.init is not None else None
                glen = gi[3] if gi is not None and gi[0] == "call" and str(gi[1]).endswith("from_elem") else None
                if count == ("idx", ga.target, k) and ga.index == k and ga.loops[0] is pu.loops[0] and _pos(ga.node) < _pos(pu.loops[1]):
                    count = ga.value
                if outer_hi == LEN(ga.target) and glen is not None:
                    outer_hi = glen
            full = ro[1] == num(0) and not ro[3] and outer_hi == lin_add(LEN(CS), num(-1))
            ok = full and pu.value == k and count == gapv and ri[1] == num(0) and not ri[3]
            tail = fn["body"].get("expr")
            ok = ok and tail is not None and ctx.term(tail) == pu.target
            det = "range 0..len(col_start)-1=%s copies per column=%s" % (full, show(count, ctx))
        rep.add("col-index", rule, ok, fn["body"], det, where=loc(fn["body"]))


def rule_lookup(rep, pdb):
    # ---- lookup: get / insert agree
    sig = {}
    for name in ("get", "insert"):
        fn = pdb.fn("%s::%s" % (S, name))
        rule = "get and insert use the same three range guards and the same membership test row_index[k]==row && col_index[k]==col over k in 0..nonzero"
        if fn is None:
            rep.missing("lookup/%s" % name, rule, "not found")
            continue
        ctx = Ctx.for_fn(pdb, fn)
        eff = effective_guards(pdb, fn)
        g = {GE(P(1), ROWS), GE(P(2), COLS), GE(P(2), LEN(CS))} <= set(eff)
        tests = []
        for n in walk(fn["body"]):
            if n.get("k") == "If" and [a for a in ancestors(n) if a.get("k") == "For"]:
                lp = [a for a in ancestors(n) if a.get("k") == "For"][-1]
                r = raw_for_range(ctx, lp)
                atoms = {canon_atom(a) for a in cond_atoms(ctx, n["cond"], True) if a[0] == "cmp"}
                tests.append((r, atoms, n))
        ok = g and len(tests) == 1
        det = "guards=%s membership tests=%d" % (g, len(tests))
        if ok:
            r, atoms, ifn = tests[0]
            k = r[0]
            ci = ("call", "%s::col_index" % S, P(0))
            want = {canon_atom(norm_cmp("==", ("idx", RI, k), P(1))), canon_atom(norm_cmp("==", ("idx", ci, k), P(2)))}
            ok = atoms == want and r[1:4] == (num(0), NNZ, False)
            from .common import subst_term
            sig[name] = (frozenset((a[0], subst_term(a[1], {k: ("walkvar",)})) for a in atoms), r[1:4])
            if name == "get":
                rets = [x for x in walk(ifn["then"]) if x.get("k") == "Ret"]
                okr = len(rets) == 1 and ctx.term(rets[0]["e"]) == ("call", "std::prelude::v1::Some", ("idx", VAL, k)) or (len(rets) == 1 and str(ctx.term(rets[0]["e"])[1]).endswith("Some") and ctx.term(rets[0]["e"])[2] == ("idx", VAL, k))
                ok = ok and okr
                det = "membership test ok, returns Some(val[k])=%s" % okr
            else:
                ow = [e for e in effects(pdb, ctx, ifn["then"]) if e.kind == "set"]
                okw = len(ow) == 1 and ow[0].target == VAL and ow[0].index == k and ow[0].value == P(3) and any(x.get("k") == "Ret" for x in walk(ifn["then"]))
                # otherwise: rebuild from to_triplets() + the new triplet with the same (rows, cols)
                effs = effects(pdb, ctx)
                pu = [e for e in effs if e.kind == "push" and not e.loops]
                rb = [e for e in effs if e.kind == "assign" and e.target == P(0)]
                okb = len(pu) == 1 and len(rb) == 1 and pu[0].value == ("tup", P(1), P(2), P(3))
                if okb:
                    tv = pu[0].target
                    okb = ctx.def_term(tv) == ("call", "%s::to_triplets" % S, P(0)) and rb[0].value == ("call", "%s::from_triplets" % S, ROWS, COLS, tv)
                # the only early return is the one after overwriting the matching entry
                all_rets = [x for x in walk(fn["body"]) if x.get("k") == "Ret"]
                in_branch = [x for x in walk(ifn["then"]) if x.get("k") == "Ret"]
                only = len(all_rets) == len(in_branch) == 1
                ok = ok and okw and okb and only
                det = "overwrites val[k] of the matching k and returns=%s; else rebuilds from to_triplets()+new triplet with the same shape=%s; no other early return=%s" % (okw, okb, only)
        rep.add("lookup/%s" % name, rule, ok, fn["body"], det, where=loc(fn["body"]))
    rep.add("lookup/agree", "get and insert use the same membership test and range", len(sig) == 2 and sig["get"] == sig["insert"], None, "", where="src/sparse.rs")


def rule_scale_values_only(rep, pdb):
    # ---- scale touches values only
    fn = pdb.fn("%s::scale" % S)
    rule = "scale multiplies every stored value val[k], k in 0..nonzero, and changes nothing else (row_index, col_start, nonzero and the shape stay as they are)"
    if fn is None:
        rep.missing("scale", rule, "not found")
    else:
        ctx = Ctx.for_fn(pdb, fn)
        effs = effects(pdb, ctx)
        muts = ctx.mutations.get(P(0), [])
        ok = len(effs) == 1
        if ok:
            e = effs[0]
            r = for_range(ctx, e.loops[0]) if len(e.loops) == 1 else None
            ok = r is not None and e.kind == "upd" and e.op == "*=" and e.target == VAL and e.index == r[0] and e.value == P(1) and r[1:5] == (num(0), NNZ, False, False) and \
                all(path == ("val",) and mode == "elem" for (path, mode), _ in muts)
        rep.add("scale", rule, ok, fn["body"], "writes through self: %s" % [k for k, _ in muts], where=loc(fn["body"]))
        rule_scale_shortcut(rep, pdb, fn, ctx)


def rule_scale_shortcut(rep, pdb, fn=None, ctx=None):
    fn = fn or pdb.fn("%s::scale" % S)
    if fn is None:
        return
    ctx = ctx or Ctx.for_fn(pdb, fn)
    # a shortcut may skip the loop only when scaling changes nothing: the factor is the multiplicative identity
    from .guards import facts as _facts
    from .pdb import ancestors as _anc
    for r_ in [n for n in walk(fn["body"]) if n.get("k") == "Ret" and not any(a.get("k") == "Closure" for a in _anc(n))]:
        fs = _facts(ctx, r_)
        one = any(f[0] == "cmp" and f[1] == "==" and P(1) in (f[2], f[3]) and any(t[0] == "call" and str(t[1]).endswith("One::one") for t in (f[2], f[3])) for f in fs)
        empty = any(f[0] == "cmp" and f[1] == "==" and {f[2], f[3]} == {NNZ, num(0)} for f in fs)
        rep.add("scale/shortcut", "an early return of scale skips the multiplication only when it changes nothing: the factor equals T::one() (or nothing is stored)", one or empty, r_,
                "known at the return: %s" % [show(("op", f[1], f[2], f[3]), ctx) for f in fs if f[0] == "cmp"][:4])


def check_transpose(rep, pdb, walks, key):
    fn = pdb.fn("%s::transpose" % S)
    rule = ("transpose allocates (cols, rows, nonzero); counts entries per row; at.col_start[j+1] = at.col_start[j] + count[j] over 0..rows; the scatter writes "
            "at.row_index[idx] = i (the source column) and at.val[idx] = val[j] at the same idx = at.col_start[r] + count[r], r = row_index[j], then count[r] += 1")
    if fn is None or "transpose" not in walks:
        rep.missing(key, rule, "transpose or its walks not found")
        return
    ctx = Ctx.for_fn(pdb, fn)
    effs = effects(pdb, ctx)
    tail = fn["body"].get("expr")
    at = ctx.term(tail) if tail is not None else None
    ab = ctx.binds.get(at[1]) if at is not None and at[0] == "var" else None
    ai = ctx.term(ab.init) if ab is not None and ab.init is not None else None
    alloc = ai is not None and ai == ("call", "%s::new_nonzero" % S, COLS, ROWS, NNZ)
    if not alloc and ai is not None and ai[0] == "struct" and str(ai[1]).endswith("Sparse"):
        # new_nonzero(cols, rows, nnz) written out: the transposed shape, nnz zero values / row indices, rows + 1 zero column starts
        lf = dict((f_[0], f_[1]) for f_ in ai[2:])
        fe = lambda t, z, n_: t is not None and t[0] == "call" and str(t[1]).endswith("from_elem") and len(t) == 4 and (is_zero_term(t[2]) if z else t[2] == num(0)) and t[3] == n_
        alloc = lf.get("rows") == COLS and lf.get("cols") == ROWS and lf.get("nonzero") == NNZ and fe(lf.get("val"), True, NNZ) and fe(lf.get("row_index"), False, NNZ) and \
            fe(lf.get("col_start"), False, lin_add(ROWS, num(1)))
    rets = [x for x in walk(fn["body"]) if x.get("k") == "Ret"]
    ok = alloc and len(walks["transpose"]) == 4 and not rets
    if rets:
        rep.bad(key + "/single-exit", "transpose has no early return: every input goes through the (cols, rows, nnz) allocation and the scatter", rets[0],
                "early return at %s" % loc(rets[0]))
    det = "alloc (cols, rows, nonzero)=%s walk statements=%d" % (alloc, len(walks.get("transpose", [])))
    if ok:
        (c1, i1, j1), w2, w3, w4 = walks["transpose"]
        # the three statements of the scatter loop, by what they write (their order is checked below, not assumed)
        _rest = [w2, w3, w4]
        _sr = [w_ for w_ in _rest if w_[0].kind == "set" and w_[0].target == ("field", at, "row_index")]
        _sv = [w_ for w_ in _rest if w_[0].kind == "set" and w_[0].target == ("field", at, "val")]
        _c2 = [w_ for w_ in _rest if w_[0].kind == "upd"]
        if len(_sr) == 1 and len(_sv) == 1 and len(_c2) == 1:
            w2, w3, w4 = _sr[0], _sv[0], _c2[0]
        (sr, i2, j2), (sv, i3, j3), (c2, i4, j4) = w2, w3, w4
        r1 = ("idx", RI, j1)
        cnt = c1.target
        okc = c1.kind == "upd" and c1.op == "+=" and c1.value == num(1) and c1.index == r1
        cb = ctx.binds.get(cnt[1]) if cnt[0] == "var" else None
        cinit = ctx.term(cb.init) if cb is not None and cb.init is not None else None
        okc = okc and cinit is not None and cinit[0] == "call" and str(cinit[1]).endswith("from_elem") and cinit[2:4] == (num(0), ROWS)
        pre = [e for e in effs if e.kind == "set" and e.target == ("field", at, "col_start")]
        okp = len(pre) == 1
        if okp:
            r = for_range(ctx, pre[0].loops[0])
            j = r[0]
            rec = pre[0].value == lin_add(("idx", ("field", at, "col_start"), j), ("idx", cnt, j))
            if not rec and pre[0].value[0] == "var":
                # a running total instead of reading the previous start back: `total += count[j]; at.col_start[j+1] = total`, total from 0
                # (at.col_start[0] is 0 from the zero-filled allocation)
                T_ = pre[0].value
                acc = [e for e in effs if e.kind == "assignop" and e.op == "+=" and e.target == T_ and e.loops and e.loops[0] is pre[0].loops[0]]
                others = [e for e in effs if e.target == T_ and e not in acc]
                tb = ctx.binds.get(T_[1])
                rec = len(acc) == 1 and not others and acc[0].value == ("idx", cnt, j) and _pos(acc[0].node) < _pos(pre[0].node) and \
                    tb is not None and tb.init is not None and ctx.term(tb.init) in (num(0), ("idx", ("field", at, "col_start"), num(0))) and not any(a is pre[0].loops[0] for a in ancestors(tb.node))
            full_rows = r[1:5] == (num(0), ROWS, False, False) or (okc and r[1] == num(0) and r[2] == ("len", cnt) and not r[3] and not r[4])    # (count has one slot per row)
            okp = full_rows and pre[0].index == lin_add(j, num(1)) and rec
        # the scatter's counters: all zero, one per row, when the scatter starts (the count vector reset by assignment or
        # fill, or a fresh vector)
        cnt2 = c2.target
        zero_rows = lambda t: t is not None and t[0] == "call" and str(t[1]).endswith("from_elem") and len(t) == 4 and t[2:4] == (num(0), ROWS)
        start = value_before(ctx, cnt2, sr.loops[0]) if cnt2[0] == "var" else None
        okr = bool(okp) and zero_rows(start) and _pos(pre[0].loops[0]) < _pos(sr.loops[0])
        if okp and not okr and cnt2[0] == "var":
            # the counters zeroed in place between the prefix sums and the scatter: `count.fill(0)` (a loop storing 0 over the whole vector)
            zs = [e for e in effs if e.kind == "set" and e.target == cnt2 and e.value == num(0) and len(e.loops) == 1
                  and _pos(pre[0].loops[0]) < _pos(e.loops[0]) < _pos(sr.loops[0])]
            if len(zs) == 1:
                rz = for_range(ctx, zs[0].loops[0])
                cb2 = ctx.binds.get(cnt2[1])
                ci2 = ctx.term(cb2.init) if cb2 is not None and cb2.init is not None else None
                full = rz is not None and rz[1] == num(0) and rz[2] in (ROWS, ("len", cnt2)) and not rz[3] and zs[0].index == rz[0]
                okr = full and ci2 is not None and ci2[0] == "call" and str(ci2[1]).endswith("from_elem") and ci2[3] == ROWS
        # ... and the prefix sums are complete before: nothing else writes cnt2 or at.col_start inside the scatter except the bump
        rr = ("idx", RI, j2)
        idx = lin_add(("idx", ("field", at, "col_start"), rr), ("idx", cnt2, rr))
        sv_idx = ctx.def_term(sv.index) if sv.index[0] == "var" else sv.index
        sr_idx = ctx.def_term(sr.index) if sr.index[0] == "var" else sr.index
        oks = sr.kind == "set" and sr.target == ("field", at, "row_index") and sr.value == i2 and sr_idx == idx and \
            sv.kind == "set" and sv.target == ("field", at, "val") and sv.value == ("idx", VAL, j3) and sv_idx == idx and \
            c2.kind == "upd" and c2.index == rr and c2.value == num(1) and c2.op == "+=" and _pos(c2.node) > _pos(sv.node) and _pos(c2.node) > _pos(sr.node)
        if not oks and sr.index[0] == "var" and sr.index == sv.index and sr_idx == idx:
            # the slot is computed into a local first (`let index = start[r] + count[r]`): the counter may be bumped any time after that
            ib = ctx.binds.get(sr.index[1])
            oks = ib is not None and not ib.mut and sr.kind == "set" and sr.target == ("field", at, "row_index") and sr.value == i2 and \
                sv.kind == "set" and sv.target == ("field", at, "val") and sv.value == ("idx", VAL, j3) and \
                c2.kind == "upd" and c2.index == rr and c2.value == num(1) and c2.op == "+=" and _pos(c2.node) > _pos(ib.node)
        if okc and okp and not oks and sr_idx == sv_idx and sr_idx[0] == "idx" and sr_idx[1][0] == "var" and sr_idx[2] == rr:
            # a next-free-slot array instead of start + count: `next = at.col_start[..rows].to_vec()`, slot next[r], then next[r] += 1
            nx = sr_idx[1]
            nb_ = ctx.binds.get(nx[1])
            ni = ctx.term(nb_.init) if nb_ is not None and nb_.init is not None else None
            CSAT = ("field", at, "col_start")
            copy = ni is not None and ni[0] == "call" and str(ni[1]).endswith(("to_vec", "to_owned")) and ni[2][0] == "idx" and ni[2][1] == CSAT and \
                ni[2][2][0] == "struct" and str(ni[2][2][1]).endswith("RangeTo") and ni[2][2][2] == ("end", ROWS)
            after_prefix = nb_ is not None and _pos(pre[0].loops[0]) < _pos(nb_.node) < _pos(sr.loops[0])
            writes = [e for e in effs if e.target == nx]
            oks = copy and after_prefix and sr.kind == "set" and sr.target == ("field", at, "row_index") and sr.value == i2 and \
                sv.kind == "set" and sv.target == ("field", at, "val") and sv.value == ("idx", VAL, j3) and \
                c2.kind == "upd" and c2.target == nx and c2.index == rr and c2.value == num(1) and c2.op == "+=" and _pos(c2.node) > _pos(sv.node) and _pos(c2.node) > _pos(sr.node) and len(writes) == 1 and writes[0].node is c2.node
            okr = okr or oks
        ok = okc and okp and okr and oks
        det = "count pass=%s prefix over rows=%s counters reset=%s scatter (same idx for row_index and val, source column stored, counter bumped after)=%s" % (okc, okp, okr, oks)
    rep.add(key, rule, ok, fn["body"], det, where=loc(fn["body"]))


def _pos(n):
    sp = n.get("sp")
    return (sp[0], sp[1]) if sp else (0, 0)
