"""Dependency closure: the value-semantic rules of OTHER properties at functions the property's own anchors call.

A property about `polydiv` is also broken by a change to `Polynomial::is_zero`, one about the cubic formula by a change to
`Complex::powf`, one about the Krylov solvers by a change to the residual bookkeeping: "two cooperating sites" mutants live
exactly there.  After a property's own rules have run, every other property's module is evaluated on the same program
database (all twenty take well under a second together) and a rule instance of property Q is imported into property P when

  * it is anchored in a function that is reachable through at least one call edge from the functions P's own rule
    instances are anchored in (resolved callees of the PDB; operators and index expressions included; for C09 also C08's
    rules at the solvers themselves), and
  * it belongs to a *functional* rule family (the operation computes what its definition says).  Rules about rejecting
    mismatched operands, leaving operands intact, clone independence and type-level witnesses (all of C20, the `intact`,
    `state`, `no-hidden-state`, `guard` families elsewhere) are never imported: breaking them does not change what a caller
    that respects the preconditions computes, so importing them would raise P's alarm on code where P holds.

Imported instances are keyed `P/dep/<Q's key>`; a violation or missing anchor among them fails P's check like one of its
own.  Instances that are recorded open findings of Q are not imported (they are reported under Q).
"""
import importlib

from .report import Report, Result, load_known

PROPS = ["C%02d" % i for i in range(1, 21)]
NEVER_FROM = {"C20"}
NEVER_INTO = set()
# rejection / non-interference does not depend on what the operations compute - but it does depend on the recorded dimensions being
# the true ones: C20 imports only the shape-bookkeeping families (constructors, resize, delete/transpose shape updates)
ONLY_FAMILIES = {"C20": ("shape", "edit", "transpose-shape", "transpose", "lookup", "lengths", "operators")}   # operators: the result records the operands' shape
# the receiver of the Krylov solvers is a Sparse matrix built through any of its constructors / editors: if those do not produce the matrix the
# caller specified (a lost or duplicated entry), the solver answers Ok for another system.  (P: (Q, families of Q imported wherever they are anchored))
RECEIVER_INVARIANT = {"C08": ("C06", ("lengths", "col-start", "col-index", "lookup", "scale", "transpose-shape")),
                      "C09": ("C06", ("lengths", "col-start", "col-index", "lookup", "scale", "transpose-shape"))}
SAME_ANCHOR = {("C09", "C08")}   # (P, Q): Q's rules at P's own anchor functions are imported too (convergence needs the residual bookkeeping)
F64_ONLY = {"C08", "C09", "C16"}   # Sparse<f64> Krylov solvers, Vector<f64>::dot_f64: their anchors are monomorphic in f64
SKIP_FAMILIES = ("floor", "engine", "intact", "state", "no-hidden-state", "no-unsafe", "guard", "witness", "pdb", "anchor",
                 "eval-count", "bounded", "schedule-free", "reject", "delegated-reject", "range-guards", "accessor-guards",
                 "step-solver", "residual-norm", "dep")


def _family(key):
    parts = key.split("/")
    return parts[1] if len(parts) > 1 else ""


def fn_of_where(pdb, where):
    """file:line -> canonical path of the local fn whose body contains the line"""
    try:
        file, line = where.rsplit(":", 1)
        line = int(line)
    except Exception:
        return None
    best = None
    for f in pdb.d["fns"]:
        if f.get("file") != file:
            continue
        sp = f.get("body", {}).get("sp") or f.get("span")
        hsp = f.get("span") or sp
        if not sp:
            continue
        lo, hi = min(hsp[0], sp[0]), sp[2] if len(sp) > 2 else sp[0]
        if lo <= line <= hi and (best is None or (hi - lo) < best[0]):
            best = (hi - lo, f["path"])
    return best[1] if best else None


def run(prop, rep, pdb):
    from .common import reachable_fns
    own = set()
    for r in rep.results:
        f = r.fn or (fn_of_where(pdb, r.where) if r.where else None)
        if f:
            own.add(f)
    if prop in NEVER_INTO:
        return {"dependency_closure": {"imported_rule_instances": 0, "note": "not applicable to this property"}}
    from .common import local_callees, is_call_like, in_macro, callee_path, callee_generic
    from .pdb import walk
    # generic code calls the element type's operations through traits (`<T as Signed>::abs`, `Div::div`, `PartialEq::eq`,
    # `Zero::zero` ..): those calls are not resolved to an impl, so every LOCAL impl of that trait method for an element type
    # (Complex<..> and the primitive impls of src/traits.rs) is a possible callee
    elem_impls = {}
    for f in pdb.local_fns():
        tr, st = f.get("impl_trait"), str(f.get("impl_self") or "")
        if prop in F64_ONLY and st.startswith("complex::Complex"):
            continue          # the property quantifies over f64 data only: no Complex impl is ever instantiated from its anchors
        if tr and (st.startswith("complex::Complex") or f.get("file") == "src/traits.rs"):
            elem_impls.setdefault("%s::%s" % (tr, f.get("name")), []).append(f)

    def trait_callees(fn):
        out = []
        for n in walk(fn["body"]):
            if is_call_like(n) and not in_macro(n):
                p_ = callee_path(n)
                if p_ and pdb.fn(p_) is not None:
                    continue
                g = str(callee_generic(n) or p_)
                # `a != b` calls `ne`, whose default is `!eq`; `<`, `<=`, `>`, `>=` default to `partial_cmp`: an impl of any
                # method of the group decides the comparison
                names = [g]
                for grp in (("std::cmp::PartialEq::eq", "std::cmp::PartialEq::ne"),
                            ("std::cmp::PartialOrd::partial_cmp", "std::cmp::PartialOrd::lt", "std::cmp::PartialOrd::le", "std::cmp::PartialOrd::gt", "std::cmp::PartialOrd::ge")):
                    if g in grp:
                        names = list(grp)
                for g_ in names:
                    for cf in elem_impls.get(g_, []):
                        out.append(cf)
        return out
    reach = {}          # functions reachable through at least one call edge from an own anchor
    work = []
    for p in own:
        fn = pdb.fn(p)
        if fn is None:
            continue
        work.extend(cf for cf, _ in local_callees(pdb, fn) if cf["path"] != fn["path"])      # a self-call (restart) is not a dependency
        work.extend(trait_callees(fn))
    while work:
        cf = work.pop()
        if cf["path"] in reach:
            continue
        seen, _c = reachable_fns(pdb, cf)
        for q_, f_ in seen.items():
            if q_ not in reach:
                reach[q_] = f_
                work.extend(x for x in trait_callees(f_) if x["path"] not in reach)
    imported, by_prop = 0, {}
    have = {r.key for r in rep.results}
    for q in PROPS:
        if q == prop or q in NEVER_FROM:
            continue
        tmp = Report(q)
        try:
            importlib.import_module("rules.%s" % q.lower()).run(tmp, pdb, "quick")
        except Exception:
            continue          # Q's own check reports what it cannot analyse; P imports nothing from it
        known, _ = load_known()
        for r in tmp.results:
            if r.status not in ("ok", "violation", "missing-anchor") or _family(r.key) in SKIP_FAMILIES:
                continue
            if prop in ONLY_FAMILIES and _family(r.key) not in ONLY_FAMILIES[prop]:
                continue
            if r.key in known and known[r.key][0] == q:
                continue
            f = r.fn or (fn_of_where(pdb, r.where) if r.where else None)
            if prop in ONLY_FAMILIES:
                pass          # shape bookkeeping anywhere in the crate: every shape check reads dimensions some constructor / edit recorded
            elif prop in RECEIVER_INVARIANT and RECEIVER_INVARIANT[prop][0] == q and _family(r.key) in RECEIVER_INVARIANT[prop][1]:
                pass
            elif f is None or not (f in reach or ((prop, q) in SAME_ANCHOR and f in own)):
                continue
            key = "%s/dep/%s" % (prop, r.key)
            if key in have:
                continue
            have.add(key)
            rep.results.append(Result(key, r.rule, r.status, r.where, r.msg, r.nontrivial, False, fn=f))
            imported += 1
            by_prop[q] = by_prop.get(q, 0) + 1
    return {"dependency_closure": {"own_anchor_functions": len(own), "reachable_functions": len(reach), "imported_rule_instances": imported, "from": by_prop}}
