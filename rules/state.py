"""History independence: results are a function of the stored data only.

Every property here is stated for values "however they were built" / "after any sequence of operations", and every check
looks at one function at a time.  That is sound only if no function can see state that another call left behind.  Two
generic rules make this explicit for the types and functions a property's own rule instances are anchored in:

hidden-state/cache/<type>   A type whose fields contain interior mutability (Cell, RefCell, OnceCell, OnceLock, Mutex, atomics) can
                            memoise results behind `&self`.  Then EVERY function that can change the data of such a value - a `&mut`
                            receiver or operand that writes a non-cache field, or that hands out a `&mut` into it (IndexMut,
                            accessors returning `&mut`) - must also reset the cache (assign the cache field, call take / set /
                            replace / borrow_mut / get_mut / clear on it, assign `*self`, or call a local method that does).  A mutator
                            without a reset leaves the cache stale: the next `&self` call answers for the old data.  Types without
                            such fields pass trivially (one instance per type, so the rule never matches nothing).
hidden-state/statics        Neither the anchored functions nor their local callees touch a `static` or a `thread_local!` (scratch
                            buffers and memo tables that survive a call make results depend on earlier calls or on the thread).

Found by independent mutant authors (rounds 3 and 4): LU-factor caches in Banded / Tridiagonal not invalidated by one operator, a
derivative / roots / is_zero memo in Polynomial not invalidated by IndexMut, a row-major copy in Sparse not invalidated by scale, thread-local
workspaces in the Jacobian and the threaded dot product.
"""
from .pdb import walk, loc, ancestors
from .terms import Ctx, lvalue_path, lvalue_root
from .common import callee_path, callee_generic, is_call_like, in_macro, reachable_fns

IM = ("std::cell::", "core::cell::", "OnceCell", "OnceLock", "LazyCell", "LazyLock", "Mutex", "RwLock", "std::sync::atomic", "core::sync::atomic")
RESET_METHODS = {"take", "set", "replace", "borrow_mut", "get_mut", "clear", "store", "lock", "write", "swap", "get_or_init"}


def _adt_of_ty(t):
    t = str(t or "").strip()
    while t.startswith("&"):
        t = t[1:].strip()
        if t.startswith("mut "):
            t = t[4:].strip()
    return t.split("<", 1)[0]


def cache_fields(adt):
    return [f["name"] for f in adt.get("fields", []) if any(m in str(f.get("ty", "")) for m in IM)]


def _resets(pdb, fn, idx, caches, memo, depth=0):
    key = (fn["path"], idx)
    if key in memo:
        return memo[key]
    memo[key] = False
    ctx = Ctx.for_fn(pdb, fn)
    res = False
    for (path, mode), node in ctx.mutations.get(("param", idx), []):
        if path and path[0] in caches:
            res = True
        if not path and mode == "replace" and node.get("k") == "Assign":
            res = True            # *self = <fresh value>
    if not res:
        for n in walk(fn["body"]):
            if n.get("k") == "MethodCall" and not in_macro(n):
                b = ctx.binds.get(lvalue_root(n["recv"])) if lvalue_root(n["recv"]) is not None else None
                if b is None or b.kind != "param" or b.idx != idx:
                    continue
                pth, _hi = lvalue_path(n["recv"])
                if pth and pth[0] in caches and n.get("name") in RESET_METHODS:
                    res = True
                    break
                if not pth and depth < 4:
                    cf = pdb.fn(callee_path(n) or "")
                    if cf is not None and cf is not fn and _resets(pdb, cf, 0, caches, memo, depth + 1):
                        res = True
                        break
    memo[key] = res
    return res


def run(prop, rep, pdb):
    own = set()
    from .deps import fn_of_where
    for r in rep.results:
        f = r.fn or (fn_of_where(pdb, r.where) if r.where else None)
        if f:
            own.add(f)
    adts = {}
    for p in own:
        fn = pdb.fn(p)
        if fn is None:
            continue
        for t in [fn.get("impl_self")] + list(fn.get("inputs", []))[:1]:
            a = _adt_of_ty(t)
            if a in pdb.adts:
                adts[a] = pdb.adts[a]
    n_types = n_mut = 0
    for a, adt in sorted(adts.items()):
        caches = cache_fields(adt)
        rule = ("a type with interior-mutable fields (memoised state behind &self) resets them in every function that can change its data; "
                "a type without such fields has no hidden state")
        n_types += 1
        if not caches:
            rep.add("hidden-state/cache/%s" % a, rule, True, None, "no interior-mutable field", where="%s:%d" % (adt.get("file"), (adt.get("span") or [0])[0]))
            continue
        memo = {}
        bad = []
        for fn in pdb.local_fns():
            ins = list(fn.get("inputs", []))
            for i, t in enumerate(ins):
                if not (str(t).startswith("&mut ") and _adt_of_ty(t) == a):
                    continue
                ctx = Ctx.for_fn(pdb, fn)
                muts = ctx.mutations.get(("param", i), [])
                data = [m for m in muts if not (m[0][0] and m[0][0][0] in caches)]
                hands_out = str(fn.get("output", "")).startswith("&mut")
                if not data and not hands_out:
                    continue
                n_mut += 1
                if not _resets(pdb, fn, i, caches, memo):
                    bad.append(fn)
        rep.add("hidden-state/cache/%s" % a, rule, not bad, bad[0]["body"] if bad else None,
                "cache fields %s; mutators that leave them stale: %s" % (caches, [b["path"] for b in bad][:6]),
                where=loc(bad[0]["body"]) if bad else "%s:%d" % (adt.get("file"), (adt.get("span") or [0])[0]))
    # statics / thread-locals in the anchored functions and their callees
    seen = {}
    for p in own:
        fn = pdb.fn(p)
        if fn is not None and p not in seen:
            s_, _c = reachable_fns(pdb, fn)
            seen.update(s_)
    bad = []
    for p, f in seen.items():
        for n in walk(f["body"]):
            if n.get("k") == "Def" and str(n.get("dk", "")).startswith("Static") and not in_macro_static_ok(n):
                bad.append((f, n, "static %s" % n.get("fn")))
            if is_call_like(n):
                cp = (callee_path(n) or "") + " " + (callee_generic(n) or "")
                if "LocalKey" in cp:
                    bad.append((f, n, "thread-local access %s" % (callee_path(n) or callee_generic(n))))
    rule = "the anchored functions and their local callees touch no static and no thread_local! (no state survives a call)"
    rep.add("hidden-state/statics", rule, not bad, bad[0][1] if bad else None, "functions inspected: %d; %s" % (len(seen), ["%s in %s" % (b[2], b[0]["path"]) for b in bad][:4]),
            where=loc(bad[0][1]) if bad else "crate ohsl")
    # dead stores in the anchored functions and their local callees: a store that the very next statement overwrites
    # unconditionally without reading it is a lost `else`, a lost accumulation or a stale statement - the computed value never
    # reaches anything
    dead = []
    n_fn = 0
    for p, f in seen.items():
        n_fn += 1
        dead.extend(dead_stores(pdb, f))
    rep.add("no-dead-store", "no store is overwritten by the next statement without having been read (an `if c { x -= a } x = b` whose `else` got lost makes the conditional update dead)",
            not dead, dead[0][1] if dead else None, "functions inspected: %d; dead stores: %s" % (n_fn, ["%s in %s" % (loc(d[1]), d[0]["path"]) for d in dead][:4]),
            where=loc(dead[0][1]) if dead else "crate ohsl")
    return {"hidden_state": {"types": n_types, "mutators_of_cached_types": n_mut, "functions_inspected_for_statics": len(seen)}}


def dead_stores(pdb, f):
    from .pdb import strip
    ctx = Ctx.for_fn(pdb, f)
    out = []

    def stores_only(e):
        """the place P if expression-statement e does nothing but store to one place P (an assignment, or an `if` whose arms do),
        and reads nothing through a call with side effects"""
        e = strip(e)
        k = e.get("k")
        if k in ("Assign", "AssignOp"):
            if any(x.get("k") in ("Call", "MethodCall") and str(x.get("ty")) == "()" for x in walk(e["r"])):
                return None
            return ctx.term(e["l"])
        if k == "If":
            ps = set()
            for br in (e["then"], e.get("else")):
                if br is None:
                    continue
                b = strip(br)
                items = [strip(x.get("e") or {}) for x in b.get("stmts", [])] + ([strip(b["expr"])] if b.get("expr") is not None else []) if b.get("k") == "Block" else [b]
                if not items or any(x_.get("k") == "Let" for x_ in b.get("stmts", [])):
                    return None
                for it in items:
                    q = stores_only(it)
                    if q is None:
                        return None
                    ps.add(q)
            return list(ps)[0] if len(ps) == 1 else None
        return None

    def mentions(t, root):
        if t == root:
            return True
        return isinstance(t, tuple) and any(mentions(x, root) for x in t if isinstance(x, tuple))
    for blk in [n for n in walk(f["body"]) if n.get("k") == "Block" and not in_macro(n)]:
        sts = [x for x in blk.get("stmts", [])]
        seq = [strip(x.get("e") or {}) if x.get("k") in ("Semi", "Expr") else None for x in sts]
        if blk.get("expr") is not None:
            seq.append(strip(blk["expr"]))
        for a, b in zip(seq, seq[1:]):
            if a is None or b is None or a.get("m") or b.get("m") or a.get("x") or b.get("x"):
                continue
            if b.get("k") != "Assign":
                continue
            P_ = stores_only(a)
            if P_ is None or P_ != ctx.term(b["l"]):
                continue
            # the overwriting right-hand side must not read the place (nor, for an element store, anything of its container)
            root = P_
            while root[0] in ("idx", "field") and len(root) > 1:
                root = root[1]
            if mentions(ctx.term(b["r"]), root):
                continue
            out.append((f, a))
    return out


def in_macro_static_ok(n):
    """statics referenced from inside std macro expansions (format strings, panic locations) are not program state"""
    return bool(n.get("m") or n.get("x") or any(a.get("m") or a.get("x") for a in ancestors(n)))
