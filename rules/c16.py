"""C16 — threaded dot product equals the sequential one for every length and CPU count."""
from .pdb import strip, walk, loc, ancestors
from .terms import Ctx, lin_add, num, show, lin_parts
from .common import (P, F, LEN, SIZE, NE, effective_guards, effects, callee_path, callee_generic, call_args, subst_term,
                     rule_no_unsafe, is_call_like, in_macro, is_push)
from .guards import for_range as raw_for_range, facts
from .common import for_range_total as for_range

LEVEL = "other"
PATH = "vector::Vector<f64>::dot_f64"


def run(rep, pdb, tier):
    fn = pdb.fn(PATH)
    if fn is None:
        rep.missing("anchor", "dot_f64 exists", "function %s not found" % PATH)
        return {}
    ctx = Ctx.for_fn(pdb, fn)
    where = "%s:%d" % (fn["file"], fn["span"][0])
    # ---- guard
    eff = effective_guards(pdb, fn)
    rep.add("guard", "sizes are compared (!=) before anything else", NE(SIZE(P(0)), SIZE(P(1))) in eff, fn["body"], "", where=where)
    # ---- locate the scope closure, the spawn loop, the worker closure, the join loop
    closures = [n for n in walk(fn["body"]) if n.get("k") == "Closure"]
    scope_calls = [n for n in walk(fn["body"]) if n.get("k") == "Call" and (callee_path(n) or "").endswith("thread::scope")]
    spawns = [n for n in walk(fn["body"]) if n.get("k") == "MethodCall" and n.get("name") == "spawn" and "thread" in (callee_path(n) or "")]
    # besides the scope closure and the worker closure only the closure of an in-order `fold` reduction may appear
    folds = [n for n in walk(fn["body"]) if n.get("k") == "MethodCall" and n.get("name") == "fold" and len(n.get("args", [])) == 2 and strip(n["args"][1]).get("k") == "Closure"]
    extra = len(closures) - 2
    if len(scope_calls) != 1 or len(spawns) != 1 or extra not in (0, len(folds)) or extra > 1:
        rep.missing("structure", "one thread::scope call, one spawn, a scope closure and a worker closure",
                    "scope calls=%d spawns=%d closures=%d (a re-implementation with another idiom needs its own rule)" % (len(scope_calls), len(spawns), len(closures)), where)
        return {}
    spawn = spawns[0]
    worker = [a for a in spawn["args"] if strip(a).get("k") == "Closure"]
    worker = strip(worker[0]) if worker else None
    spawn_loops = [a for a in ancestors(spawn) if a.get("k") == "For"]
    if worker is None or len(spawn_loops) != 1:
        rep.missing("structure", "spawn(closure) inside exactly one for loop", "worker=%s loops=%d" % (worker is not None, len(spawn_loops)), where)
        return {}
    lp = spawn_loops[0]
    r = for_range(ctx, lp)
    T = ("call", "num_cpus::get")
    # `num_cpus::get().max(1)`: the documented contract (>= 1) spelled out; the same T everywhere it is used
    T1 = ("call", "std::cmp::Ord::max", T, num(1))
    if r is not None and r[2] == T1:
        T = T1
    # ---- workers: T is num_cpus::get(), used unmodified for chunk, loop bound, last-worker test
    uses_T = r is not None and r[1] == num(0) and r[2] == T and not r[3] and not r[4]
    # ---- slices
    slices = []
    for n in walk(lp["body"]):
        if n.get("k") == "Index" and not in_macro(n):
            it = ctx.term(n["idx"])
            if it[0] == "range":
                slices.append((ctx.term(n["base"]), it, n))
    ok_struct = uses_T and len(slices) == 2
    if not ok_struct:
        rep.bad("workers", "the spawn loop is `for i in 0..num_cpus::get()` and slices both operands once each", lp,
                "range=%s slices=%d" % (r, len(slices)))
        return {}
    i = r[0]
    (b1, r1, n1), (b2, r2, n2) = slices
    start, end = r1[1], r1[2]
    chunk = ("op", "/", SIZE(P(0)), T)
    # partition identities
    s0 = subst_term(start, {i: num(0)})
    rep.add("partition/start0", "start_0 = 0 (substituting i := 0 in the start expression)", s0 == num(0), n1, "start=%s; start[i:=0]=%s" % (show(start, ctx), show(s0, ctx)), proof=True)
    is_ite = end[0] == "ite"
    last_ok, chain_ok, det = False, False, ""
    if is_ite:
        cond, th, el = end[1], end[2], end[3]
        from .terms import lin_sub
        d_fw, d_bw = lin_sub(i, lin_add(T, num(-1))), lin_sub(lin_add(T, num(-1)), i)
        cop = cond[1] if cond[0] == "op" else None
        dd = lin_sub(cond[2], cond[3]) if cop in ("==", "!=", "<", ">=", ">", "<=") else None
        if dd == d_bw and cop in ("<", ">=", ">", "<="):
            cop, dd = {"<": ">", ">": "<", "<=": ">=", ">=": "<="}[cop], d_fw         # T - 1 > i  is  i < T - 1
        is_last = dd in (d_fw, d_bw) and cop in ("==", "!=", "<", ">=")
        # inside `for i in 0..T`: i <= T-1, so `i >= T-1` (i + 1 >= T) is `i == T-1` and `i < T-1` (i + 1 < T) is `i != T-1`
        lastc = is_last and cop in ("==", ">=")          # i == T-1, i + 1 == T, T - 1 == i, ...
        notlast = is_last and cop in ("!=", "<")
        if notlast:
            th, el, lastc = el, th, True
        nxt = subst_term(start, {i: lin_add(i, num(1))})
        last_ok = lastc and th == SIZE(P(0))
        chain_ok = lastc and el == nxt
        det = "end = if %s { %s } else { %s }; start[i:=i+1] = %s" % (show(cond, ctx), show(th, ctx), show(el, ctx), show(nxt, ctx))
    rep.add("partition/chain", "end_i = start_(i+1) for every non-last worker (polynomial normal forms compared)", chain_ok, n1, det, proof=True)
    rep.add("partition/last", "the last worker (i == T-1) ends at len: the chunks tile 0..len exactly once for every (len, T>=1)", last_ok, n1, det, proof=True)
    # start = i * (len / T) with exactly this chunk size
    c0, atoms = lin_parts(start)
    start_ok = c0 == 0 and len(atoms) == 1 and list(atoms.items())[0] == (("mul",) + tuple(sorted([chunk, i], key=repr)), 1)
    rep.add("workers", "T = num_cpus::get() is used unmodified for the chunk size len/T, the loop bound and the last-worker test; start_i = i*(len/T)",
            uses_T and start_ok, lp, "start=%s" % show(start, ctx))
    # ---- same window
    same = r1 == r2 and {b1, b2} == {F(P(0), "vec"), F(P(1), "vec")}
    rep.add("same-window", "both operands are sliced with the same start..end", same, n1, "%s[%s] vs %s[%s]" % (show(b1, ctx), show(r1, ctx), show(b2, ctx), show(r2, ctx)))
    # ---- worker closure: captures, purity, co-indexed accumulation
    caps = worker.get("captures", [])
    # shared borrows of the two slices (`||` borrowing [f64]), or the two shared slice references themselves moved in (`move ||` with &[f64]): read-only either way
    caps_ok = len(caps) == 2 and all((c["mode"] == "ByRef(Immutable)" and c["ty"] == "[f64]") or (c["mode"] == "ByValue" and c["ty"] == "&[f64]") for c in caps)
    calls = []
    for n in walk(worker["body"]):
        if is_call_like(n) and not in_macro(n) and n.get("k") != "Index":
            calls.append(callee_path(n))
        if n.get("k") == "Def" and str(n.get("dk", "")).startswith("Static"):
            calls.append("static " + str(n.get("fn")))
    pure = all(c in ("[T]::len", "std::vec::Vec<T, A>::len", "std::cmp::min") or str(c).startswith(("<&f64 as std::ops::", "<f64 as std::ops::", "<&'a f64 as std::ops::")) for c in calls)     # (the last two come from a canonicalised zip loop)
    unsafe_free = pdb.d["unsafe_blocks"] + pdb.d["unsafe_items"] == 0
    rep.add("schedule-free", "the spawned closure captures only shared references to [f64], calls nothing but slice len/index and f64 arithmetic, "
            "and returns its partial sum by value; no unsafe in the crate: each partial sum is a pure function of its window",
            caps_ok and pure and unsafe_free, worker, "captures=%s calls=%s" % ([(c["var"], c["mode"], c["ty"]) for c in caps], calls), proof=True)
    weffs = [e for e in effects(pdb, ctx, worker["body"]) if e.kind == "assignop"]
    wok, det = len(weffs) == 1, ""
    if wok:
        e = weffs[0]
        v = e.value
        wr = for_range(ctx, e.loops[-1]) if e.loops else None
        capvars = {("idx", b1, r1), ("idx", b2, r2)}
        wok = e.op == "+=" and v[0] == "op" and v[1] == "*" and v[2][0] == "idx" and v[3][0] == "idx" and v[2][2] == v[3][2] and \
            {v[2][1], v[3][1]} == capvars and wr is not None and v[2][2] == wr[0] and wr[1] == num(0) and not wr[3] and \
            (wr[2] in (LEN(v[2][1]), LEN(v[3][1])) or (wr[2][0] == "call" and str(wr[2][1]).endswith("::min") and set(wr[2][2:]) == {LEN(v[2][1]), LEN(v[3][1])}))
        tb = ctx.binds.get(e.target[1]) if e.target[0] == "var" else None
        init0 = tb is not None and tb.init is not None and ctx.term(tb.init) == num(0)
        tail = worker["body"].get("expr")
        ret = tail is not None and ctx.term(tail) == e.target
        wok = wok and init0 and ret
        det = "acc += a[i]*b[i] over 0..len: %s; starts at 0.0: %s; returned: %s" % (wok, init0, ret)
    rep.add("worker-sum", "inside the worker the two slices are co-indexed over 0..len(slice) and accumulated from 0.0", wok, worker, det)
    # ---- ordered reduction
    pushes = [e for e in effects(pdb, ctx, lp["body"]) if e.kind == "push"]
    okr, det = len(pushes) == 1, ""
    if okr:
        hv = pushes[0].target
        joins = [n for n in walk(fn["body"]) if n.get("k") == "MethodCall" and n.get("name") == "join"]
        okr = len(joins) == 1
        jfold = [f_ for f_ in folds if okr and any(a is strip(f_["args"][1]) for a in ancestors(joins[0]))]
        if okr and jfold:
            # handles.into_iter().fold(0.0, |acc, t| acc + t.join().unwrap()): joined in the Vec's order into one accumulator
            f_ = jfold[0]
            cl = strip(f_["args"][1])
            src = strip(f_["recv"])
            into = src.get("k") == "MethodCall" and src.get("name") in ("into_iter",) and ctx.term(src["recv"]) == hv
            ps = cl.get("params", [])
            okp = len(ps) == 2 and all(p_.get("k") == "Bind" for p_ in ps)
            body_t = ctx.term(cl["body"]) if okp else None
            acc_v, th_v = (("var", ps[0]["v"]), ("var", ps[1]["v"])) if okp else (None, None)
            okb = okp and body_t[0] == "op" and body_t[1] == "+" and body_t[2] == acc_v and ctx.term(joins[0]["recv"]) == th_v
            init0 = ctx.term(f_["args"][0]) == num(0)
            spawned = pushes[0].value[0] == "call" and "spawn" in str(pushes[0].value[1])
            reorder = [n for n in walk(fn["body"]) if n.get("k") == "MethodCall" and n.get("name") in ("sort", "reverse", "swap", "sort_by", "pop", "remove", "insert", "rev") and
                       (ctx.term(n["recv"]) == hv or n is strip(f_["recv"]))]
            okr = into and okb and init0 and spawned and not reorder
            det = "handles pushed in spawn order=%s folded in the Vec's order from 0.0 with acc + join()=%s" % (spawned, okb and init0 and into)
        elif okr:
            j = joins[0]
            jl = [a for a in ancestors(j) if a.get("k") == "For"]
            okr = len(jl) == 1 and ctx.term(jl[0]["iter"]) == hv and jl[0]["pat"].get("k") == "Bind" and ctx.term(j["recv"]) == ("var", jl[0]["pat"]["v"])
            accs = [e for e in effects(pdb, ctx, jl[0]["body"]) if e.kind == "assignop"] if okr else []
            okr = okr and len(accs) == 1 and accs[0].op == "+=" and accs[0].target[0] == "var"
            # the handle vector is pushed in spawn order (push inside the spawn loop, value = the spawn call) and not reordered
            spawned = pushes[0].value[0] == "call" and "spawn" in str(pushes[0].value[1])
            reorder = [n for n in walk(fn["body"]) if n.get("k") == "MethodCall" and n.get("name") in ("sort", "reverse", "swap", "sort_by", "pop", "remove", "insert") and ctx.term(n["recv"]) == hv]
            okr = okr and spawned and not reorder
            det = "handles pushed in spawn order=%s joined by iterating that Vec in order into one accumulator=%s" % (spawned, okr)
    rep.add("ordered-reduction", "handles are pushed in spawn order and joined by iterating that Vec in order into a single accumulator in the parent thread", okr, lp, det)
    # ---- the value returned is that accumulator, untouched after the join loop (no snapping, scaling or clamping of the sum)
    okv, detv = False, "reduction not recognised"
    if okr:
        scope_cl = [a for a in ancestors(joins[0]) if a.get("k") == "Closure"]
        outer = scope_cl[-1] if scope_cl else None
        tail = strip(outer["body"]).get("expr") if outer is not None and strip(outer["body"]).get("k") == "Block" else None
        if jfold:
            okv = tail is not None and strip(tail) is jfold[0]
            detv = "the scope closure's value is the fold itself=%s" % okv
        elif tail is not None:
            acc = accs[0].target
            tail_is_acc = ctx.term(tail) == acc and strip(tail).get("k") == "Local"
            writes = [w for w in ctx.assigns.get(acc[1], [])]
            stray = [w for w in writes if not any(a is jl[0] for a in ancestors(w))]
            b_ = ctx.binds.get(acc[1])
            init0 = b_ is not None and b_.init is not None and ctx.term(b_.init) == num(0)
            okv = tail_is_acc and not stray and init0 and not ctx.mutations.get(acc, []) == None
            detv = "scope value is the accumulator=%s starts at 0.0=%s writes outside the join loop=%d" % (tail_is_acc, init0, len(stray))
        ftail = fn["body"].get("expr")
        whole = ftail is not None and outer is not None and any(a is strip(ftail) for a in ancestors(outer))
        okv = okv and whole
        detv += "; the function's value is the scope call=%s" % whole
    if okr:
      rep.add("result-unmodified", "the function returns the joined sum itself: the accumulator starts at 0.0, is written only by the join loop, and nothing post-processes it "
              "(an absolute `snap to zero` threshold turns every genuinely small dot product into 0.0)", okv, lp, detv)
    # ---- no other way out: a fast path that computes the value differently is not the partitioned sum
    rets = [r_ for r_ in walk(fn["body"]) if r_.get("k") == "Ret" and not any(a.get("k") == "Closure" for a in ancestors(r_))]
    bad_r = []
    for r_ in rets:
        v_ = ctx.term(r_["e"]) if r_.get("e") is not None else None
        fs_ = facts(ctx, r_)
        empty = any(f_[0] == "cmp" and f_[1] == "==" and {f_[2], f_[3]} & {num(0)} and ({f_[2], f_[3]} & {SIZE(P(0)), SIZE(P(1))}) for f_ in fs_)
        if not (v_ == num(0) and empty):
            bad_r.append(r_)
    rep.add("no-fast-path", "dot_f64 returns through the scoped reduction only: an early `return` is allowed for the empty vector (value 0.0) and nothing else - a shortcut for "
            "aliased, short or special operands computes the value by another formula (e.g. norm_2()^2), which is not the bit-for-bit re-associated sum the property compares",
            not bad_r, bad_r[0] if bad_r else fn["body"], "explicit returns outside the workers: %d, not the empty-vector case: %d" % (len(rets), len(bad_r)))
    # ---- the sequential reference the property compares with
    from .c15 import check_dot
    check_dot(rep, pdb, "reference/dot")
    rep.floor("partition/", 3)
    rep.assumptions += ["num_cpus::get() >= 1 (documented contract)", "std::thread::scope joins every spawned thread",
                        "(T-1)*floor(len/T) <= len (integer lemma used for slice validity, stated not proved)",
                        "the numerical distance between the re-associated and the sequential sum is not decided statically"]
    return {}
