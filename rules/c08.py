"""C08 — iterative solvers: reported success means solved to the tolerance.  (C09 reuses the solver model.)

The relational rule ("r + A*x is preserved by the loop body") is a dataflow over a linear-combination domain:
every vector variable is a linear combination of the loop-top values of the vector variables and of their
images under A / A^T, with symbolic scalar coefficients; statements of the loop body are applied in order, with
one case split on the first-iteration test (`i == 1` / `i > 1`).  Coefficients are compared as polynomials over Q.
It proves nothing about convergence and executes nothing.
"""
from fractions import Fraction

from .pdb import strip, walk, loc, ancestors
from .terms import Ctx, num, show, lin_add, base_ty
from .common import (P, F, SIZE, effects, callee_path, callee_generic, call_args, in_macro, loops_of, is_call_like, CLONE_FNS)
from .guards import for_range, facts, cond_atoms, diverges
from .algebra import rat, poly_add, poly_mul, poly_const

LEVEL = "other"
S64 = "sparse::Sparse<f64>"
SOLVERS = ["solve_cg", "solve_bicg", "solve_bicgstab", "solve_qmr"]
MULT = "sparse::Sparse<T>::multiply"
TMULT = "sparse::Sparse<T>::transpose_multiply"
IDP = "sparse::Sparse<T>::identity_preconditioner"
B_, X_, MAXIT, TOL = P(1), P(2), P(3), P(4)


def is_idp(path):
    from .canon import norm_path
    return path is not None and norm_path(path) == "sparse::Sparse::identity_preconditioner"


class Unclassified(Exception):
    pass


# ---- coefficient arithmetic: rational functions (num, den) over Q with opaque atoms

def c_const(c):
    return (poly_const(c), poly_const(1))


def c_add(a, b, s=1):
    return (poly_add(poly_mul(a[0], b[1]), poly_mul(b[0], a[1]), s), poly_mul(a[1], b[1]))


def c_mul(a, b):
    return (poly_mul(a[0], b[0]), poly_mul(a[1], b[1]))


def c_div(a, b):
    return (poly_mul(a[0], b[1]), poly_mul(a[1], b[0]))


def c_zero(a):
    return not a[0]


def freeze_vec(v):
    """hashable, order-independent copy of a vector value"""
    return tuple(sorted(((k, (tuple(sorted(c[0].items(), key=repr)), tuple(sorted(c[1].items(), key=repr)))) for k, c in v.items()), key=repr))


def v_add(a, b, s=1):
    out = dict(a)
    for k, c in b.items():
        out[k] = c_add(out[k], c, s) if k in out else (c if s == 1 else c_mul(c_const(-1), c))
    return {k: c for k, c in out.items() if not c_zero(c)}


def v_scale(a, c):
    return {k: c_mul(v, c) for k, v in a.items()}


def v_image(a, tag):
    return {(tag, k): c for k, c in a.items()}


def v_eq(a, b):
    return not v_add(a, b, -1)


class Model:
    """Abstract state of one pass over a solver's loop body."""
    _vc = 0     # versions of scalar locals are unique over all paths (two arms of an `if` never share one)

    def __init__(self, pdb, fn, ctx, vec_vars, assume=None, hyps=()):
        self.pdb, self.fn, self.ctx = pdb, fn, ctx
        self.vec_vars = vec_vars          # set of ('var', id) / ('param', i) that hold vectors
        self.vec = {v: {("top", v): c_const(1)} for v in vec_vars}
        # inductive hypotheses: (Q, P, tag) meaning top(Q) = tag-image of top(P)
        for q, p, tag in hyps:
            self.vec[q] = {(tag, ("top", p)): c_const(1)}
        self.ver = {}                     # scalar var -> version
        self.assume = dict(assume or {})  # first-iteration test term -> bool
        self.exits = []                   # (kind 'ok'|'err', node, snapshot of vec, tested info)
        self.log = []
        self.dots = {}                    # id(dot call node) -> (node, value of operand 1, value of operand 2) at evaluation time
        self.norms = {}                   # id(norm_2 call node) -> (node, value of the vector) at evaluation time
        self.cstack = []                  # versioned conditions (term, polarity) of the enclosing ifs of the statement being run
        self.sdef = {}                    # (scalar var id, version) -> rational value at the assignment (None: a merge of two paths)

    # ---- scalars
    def scalar(self, t):
        """term -> rational coefficient with versioned scalar variables as atoms"""
        k = t[0]
        if k == "num":
            return c_const(t[1])
        if k == "var":
            return rat(("in", ("sv", t[1], self.ver.get(t[1], 0))))
        if k == "param":
            return rat(("in", t))
        if k == "neg":
            return c_mul(c_const(-1), self.scalar(t[1]))
        if k == "op" and t[1] in ("+", "-", "*", "/"):
            a, b = self.scalar(t[2]), self.scalar(t[3])
            if t[1] == "+":
                return c_add(a, b)
            if t[1] == "-":
                return c_add(a, b, -1)
            if t[1] == "*":
                return c_mul(a, b)
            return c_div(a, b)
        # opaque scalar (dot products, norms, sqrt ...): an atom keyed by the term with versioned variables
        return rat(("in", ("opaque", self._versioned(t))))

    def _versioned(self, t):
        if not isinstance(t, tuple):
            return t
        if t and t[0] == "var" and len(t) == 2:
            if t in self.vec_vars:
                return ("vecstate", t, freeze_vec(self.vec[t]))
            return ("sv", t[1], self.ver.get(t[1], 0))
        return tuple(self._versioned(x) if isinstance(x, tuple) else x for x in t)

    # ---- vectors
    def is_vec(self, t):
        k = t[0]
        if t in self.vec_vars:
            return True
        if k == "op" and t[1] in ("+", "-"):
            return self.is_vec(t[2]) and self.is_vec(t[3])
        if k == "op" and t[1] in ("*", "/"):
            return self.is_vec(t[2]) != self.is_vec(t[3]) if t[1] == "*" else self.is_vec(t[2])
        if k == "neg":
            return self.is_vec(t[1])
        if k == "call" and t[1] in (MULT, TMULT):
            return True
        if k == "call" and str(t[1]).endswith("Vector<T>::new"):
            return True
        if k == "ite" and len(t) == 4:
            return self.is_vec(t[2]) and self.is_vec(t[3])
        return False

    def vecval(self, t):
        k = t[0]
        if t in self.vec_vars:
            return dict(self.vec[t])
        if k == "op" and t[1] in ("+", "-"):
            return v_add(self.vecval(t[2]), self.vecval(t[3]), 1 if t[1] == "+" else -1)
        if k == "op" and t[1] == "*":
            if self.is_vec(t[2]):
                return v_scale(self.vecval(t[2]), self.scalar(t[3]))
            return v_scale(self.vecval(t[3]), self.scalar(t[2]))
        if k == "op" and t[1] == "/":
            return v_scale(self.vecval(t[2]), c_div(c_const(1), self.scalar(t[3])))
        if k == "neg":
            return v_scale(self.vecval(t[1]), c_const(-1))
        if k == "call" and t[1] == MULT and t[2] == P(0):
            return v_image(self.vecval(t[3]), "A")
        if k == "call" and t[1] == TMULT and t[2] == P(0):
            # CG is claimed for symmetric (positive definite) matrices only: there A^T p is A p
            return v_image(self.vecval(t[3]), "A" if getattr(self, "symmetric", False) else "At")
        if k == "call" and str(t[1]).endswith("Vector<T>::new") and t[3] == num(0):
            return {}
        if k == "ite" and len(t) == 4:
            # `if i > 1 { A } else { B }` on the first-iteration test: the case split decides; any other selection: both arms
            # must denote the same vector, else the value is an opaque vector of its own
            if self._is_counter_test(t[1]):
                key = self._counter_key(t[1])
                if key not in self.assume:
                    raise NeedSplit(key)
                val = self.assume[key] if t[1] == key[1] else self._derive(t[1], key)
                return self.vecval(t[2] if val else t[3])
            a, b = self.vecval(t[2]), self.vecval(t[3])
            if v_eq(a, b):
                return a
            return {("phi", repr(self._versioned(t))): c_const(1)}
        raise Unclassified("vector expression %s" % (t,))

    def _operand(self, a):
        """Value of a vector operand of dot/norm_2 at this program point (HIR node, so that an inlined immutable let is
        looked up as the variable we track, not re-evaluated on a later state)."""
        a = strip(a)
        while a.get("k") in ("AddrOf",) or (a.get("k") == "Unary" and a.get("op") == "*") or \
                (a.get("k") == "MethodCall" and a.get("name") == "clone" and not a.get("args")):
            a = strip(a["e"] if "e" in a else a["recv"])
        if a.get("k") == "Local":
            v = self.lval(a)
            if v in self.vec_vars:
                return dict(self.vec[v])
        return self.vecval(self.ctx.term(a))

    def scan(self, n):
        """Record the inner products and norms evaluated by expression n."""
        if n is None:
            return
        for c in walk(n):
            if c.get("k") != "MethodCall" or c.get("x"):
                continue
            p = callee_path(c) or ""
            try:
                if p.endswith("::dot") and len(call_args(c)) == 2:
                    a, b = call_args(c)
                    self.dots[id(c)] = (c, self._operand(a), self._operand(b))
                elif p.endswith("::norm_2") and len(call_args(c)) == 1:
                    self.norms[id(c)] = (c, self._operand(call_args(c)[0]))
            except Unclassified:
                self.dots.setdefault(id(c), (c, None, None)) if p.endswith("::dot") else self.norms.setdefault(id(c), (c, None))

    # ---- statements
    def lval(self, n):
        t = self.ctx.term(n)
        n0 = strip(n)
        if n0.get("k") == "Local":
            b = self.ctx.binds.get(n0["v"])
            if b is not None and b.kind == "param":
                return ("param", b.idx)
            return ("var", n0["v"])
        if n0.get("k") == "Unary" and n0.get("op") == "*":
            return self.lval(n0["e"])
        return t

    def raw(self, n):
        """term of an expression with locals NOT inlined past mutable state: we evaluate in program order, so
        immutable lets are taken from the binding table as opaque variables whose value we track ourselves."""
        return self.ctx.term(n)

    def run_block(self, blk):
        """Returns False if the block never falls through."""
        for s in blk.get("stmts", []):
            if not self.stmt(s):
                return False
        if blk.get("expr") is not None:
            return self.expr_stmt(strip(blk["expr"]))
        return True

    def stmt(self, s):
        k = s.get("k")
        if k == "Let":
            pat = s["pat"]
            if s.get("init") is None:
                return True
            if pat.get("k") != "Bind":
                raise Unclassified("let pattern")
            v = ("var", pat["v"])
            self.effects_of(s["init"])
            self.scan(s["init"])
            t = self.term_now(s["init"])
            if v in self.vec_vars:
                self.vec[v] = self.vecval(t)
            else:
                self._define(v[1], t)
            return True
        return self.expr_stmt(strip(s["e"]))

    def _define(self, vid, t):
        """A scalar local gets a new version; its value (a rational function of the versions current now) is kept."""
        val = None
        if t is not None:
            try:
                val = self.scalar(t)
            except Exception:
                val = None
        Model._vc += 1
        self.ver[vid] = Model._vc
        self.sdef[(vid, self.ver[vid])] = val

    def term_now(self, n):
        """Term of n in which immutable-let locals that the normaliser inlined are fine (their inputs are
        unchanged since the let) and everything else is a variable we track."""
        return self.ctx.term(n)

    def expr_stmt(self, e):
        k = e.get("k")
        if e.get("m"):
            return True
        if k == "Assign":
            v = self.lval(e["l"])
            self.effects_of(e["r"])
            self.scan(e["r"])
            t = self.term_now(e["r"])
            if v in self.vec_vars:
                self.vec[v] = self.vecval(t)
            elif v[0] == "var":
                self._define(v[1], t)
            else:
                raise Unclassified("assignment to %s" % (v,))
            return True
        if k == "AssignOp":
            v = self.lval(e["l"])
            self.scan(e["r"])
            t = self.term_now(e["r"])
            if v in self.vec_vars:
                if e["op"] in ("+=", "+"):
                    self.vec[v] = v_add(self.vec[v], self.vecval(t))
                elif e["op"] in ("-=", "-"):
                    self.vec[v] = v_add(self.vec[v], self.vecval(t), -1)
                elif e["op"] in ("*=", "*"):
                    self.vec[v] = v_scale(self.vec[v], self.scalar(t))
                elif e["op"] in ("/=", "/"):
                    self.vec[v] = v_scale(self.vec[v], c_div(c_const(1), self.scalar(t)))
                else:
                    raise Unclassified("compound op %s on a vector" % e["op"])
            elif v[0] == "var":
                op_ = e["op"].rstrip("=")
                self._define(v[1], ("op", op_, v, t) if op_ in ("+", "-", "*", "/") else None)
            else:
                raise Unclassified("compound assignment to %s" % (v,))
            return True
        if k == "MethodCall" and is_idp(callee_path(e)):
            args = call_args(e)
            src, dst = self.ctx.term(args[1]), self.lval(strip(args[2]).get("e") or args[2]) if strip(args[2]).get("k") == "AddrOf" else self.ctx.term(args[2])
            if dst not in self.vec_vars or not self.is_vec(src):
                raise Unclassified("identity_preconditioner arguments")
            self.vec[dst] = self.vecval(src)
            return True
        if k == "If":
            return self.if_stmt(e)
        if k == "Ret":
            self.scan(e.get("e"))
            self.exit(e)
            return False
        if k == "Block":
            return self.run_block(e)
        if k in ("For", "While", "Loop"):
            raise Unclassified("nested loop")
        if k in ("MethodCall", "Call"):
            # any other call taking a tracked vector by &mut is unknown
            for a in call_args(e):
                a0 = strip(a)
                if a0.get("k") == "AddrOf" and a0.get("mut") and self.ctx.term(a0["e"]) in self.vec_vars:
                    raise Unclassified("call %s mutates a tracked vector" % callee_path(e))
            return True
        if k in ("Local", "Lit", "Binary", "Unary", "Field", "Def", "Cast", "Tup", "AddrOf", "Index", "Path"):
            self.scan(e)          # the value of a block: no effect on the tracked state
            return True
        raise Unclassified("statement kind %s" % k)

    def effects_of(self, init):
        """`let n = if c { stmts; v } else { .. }` (an inlined helper): the statements inside the value expression act on the
        tracked state before the binding is made."""
        i0 = strip(init)
        if i0.get("k") in ("If", "Block") and any(x.get("k") in ("Assign", "AssignOp", "Let") or (x.get("k") == "MethodCall" and is_idp(callee_path(x)))
                                                   for x in walk(i0) if x is not i0):
            self.expr_stmt(i0)

    def exit(self, ret):
        val = strip(ret["e"]) if ret.get("e") is not None else None
        kind, payload = "other", None
        if val is not None and val.get("k") == "Call" and strip(val["f"]).get("k") == "Def":
            p = val["f"].get("fn", "")
            kind = "ok" if p.endswith("::Ok") else ("err" if p.endswith("::Err") else "other")
            payload = val["args"][0] if val.get("args") else None
        self.exits.append((kind, ret, {v: dict(c) for v, c in self.vec.items()}, dict(self.ver), payload, list(self.cstack)))

    def if_stmt(self, e):
        self.scan(e["cond"])
        cond_t = self.ctx.term(e["cond"])
        # first-iteration case split: the condition mentions only the loop counter and constants
        if self._is_counter_test(cond_t):
            key = self._counter_key(cond_t)
            if key not in self.assume:
                raise NeedSplit(key)
            val = self.assume[key] if cond_t == key[1] else self._derive(cond_t, key)
            br = e["then"] if val else e.get("else")
            if br is None:
                return True
            return self.run_block(strip(br)) if strip(br).get("k") == "Block" else self.expr_stmt(strip(br))
        then, els = e["then"], e.get("else")
        if diverges(then) and els is None:
            # an early exit: evaluate it on a copy, continue with the fall-through state
            snap = ({v: dict(c) for v, c in self.vec.items()}, dict(self.ver))
            self.cstack.append((self._versioned(cond_t), True))
            try:
                self.run_block(strip(then))
            finally:
                self.cstack.pop()
            self.vec, self.ver = snap[0], snap[1]
            return True
        # general two-way branch that falls through: `if normb == 0.0 { normb = 1.0 }`, `if itol == 1 { err = .. }`
        cond_v = self._versioned(cond_t)
        snap = ({v: dict(c) for v, c in self.vec.items()}, dict(self.ver))
        self.cstack.append((cond_v, True))
        try:
            ft1 = (self.run_block(strip(then)) if strip(then).get("k") == "Block" else self.expr_stmt(strip(then))) and not diverges(then)
        finally:
            self.cstack.pop()
        s1 = (self.vec, self.ver)
        self.vec, self.ver = {v: dict(c) for v, c in snap[0].items()}, dict(snap[1])
        ft2 = True
        if els is not None:
            self.cstack.append((cond_v, False))
            try:
                ft2 = (self.run_block(strip(els)) if strip(els).get("k") == "Block" else self.expr_stmt(strip(els))) and not diverges(els)
            finally:
                self.cstack.pop()
        s2 = (self.vec, self.ver)
        # merge: vectors must agree (else unknown), scalar versions take the max and bump if they differ
        if ft1 and ft2:
            for v in self.vec_vars:
                if not v_eq(s1[0][v], s2[0][v]):
                    self.vec[v] = {("phi", v, e.get("id")): c_const(1)}
            for sv in set(s1[1]) | set(s2[1]):
                a, b = s1[1].get(sv, 0), s2[1].get(sv, 0)
                if a == b:
                    self.ver[sv] = a
                else:
                    Model._vc += 1
                    self.ver[sv] = Model._vc
                    self.sdef[(sv, Model._vc)] = ("ite", cond_v, ("sv", sv, a), ("sv", sv, b))
            return True
        if ft1:
            self.vec, self.ver = s1
            return True
        return ft2

    def _is_counter_test(self, t):
        cv = getattr(self, "counter", None)
        if cv is None or t[0] != "op" or t[1] not in ("==", "!=", "<", ">", "<=", ">="):
            return False
        return (t[2] == cv and t[3][0] == "num") or (t[3] == cv and t[2][0] == "num")

    def _counter_key(self, t):
        # all first-iteration tests are normalised to "counter == 1"
        return ("first", ("op", "==", self.counter, num(1)))

    def _derive(self, t, key):
        first = self.assume[key]
        cv = self.counter
        op, a, b = t[1], t[2], t[3]
        if b == cv:
            flip = {"<": ">", ">": "<", "<=": ">=", ">=": "<=", "==": "==", "!=": "!="}
            op, a, b = flip[op], b, a
        c = b[1]
        # the counter is 1 on the first iteration and >= 2 afterwards
        if op == "==" and c == 1:
            return first
        if op == "!=" and c == 1:
            return not first
        if op == ">" and c == 1:
            return not first
        if op == ">=" and c == 2:
            return not first
        if op == "<=" and c == 1:
            return first
        if op == "<" and c == 2:
            return first
        raise Unclassified("counter test %s" % (t,))


class NeedSplit(Exception):
    def __init__(self, key):
        self.key = key


class Solver:
    """Structure of one solver function."""

    def __init__(self, pdb, name):
        self.pdb, self.name = pdb, name
        self.symmetric = name.endswith("_cg")          # CG is claimed for symmetric (positive definite) matrices only
        self.fn = pdb.fn("%s::%s" % (S64, name))
        self.ok = self.fn is not None
        if not self.ok:
            return
        self.ctx = Ctx.for_fn(pdb, self.fn)
        lps = [l for l in loops_of(self.fn)]
        self.loops = lps
        self.main = lps[0] if len(lps) == 1 else None
        self.vec_vars = set()
        for v, b in self.ctx.binds.items():
            if base_ty(b.ty) == "vector::Vector<f64>":
                self.vec_vars.add(("param", b.idx) if b.kind == "param" else ("var", v))
        self.counter, self.budget = None, (False, "no main loop")
        if self.main is not None:
            self._budget()

    def _budget(self):
        ctx, lp = self.ctx, self.main
        if lp.get("k") == "For":
            r = for_range(ctx, lp)
            ok = r is not None and r[1] == num(1) and r[2] == MAXIT and r[3] and not r[4]
            self.counter = r[0] if r else None
            self.budget = (ok, "for i in 1..=max_iter" if ok else "for range %s" % (r,))
        elif lp.get("k") == "While":
            c = ctx.term(lp["cond"])
            ok = c[0] == "op" and c[1] == "<" and c[3] == MAXIT and c[2][0] == "var"
            det = "while %s" % show(c, ctx)
            if ok:
                cv = c[2]
                self.counter = cv
                writes = ctx.assigns.get(cv[1], [])
                b = ctx.binds.get(cv[1])
                init0 = b is not None and b.init is not None and ctx.term(b.init) == num(0)
                first = lp["body"].get("stmts", [None])[0]
                inc_first = first is not None and strip(first.get("e") or {}).get("k") == "AssignOp" and strip(first["e"])["op"] == "+=" and \
                    ctx.term(strip(first["e"])["r"]) == num(1) and len(writes) == 1 and writes[0] is strip(first["e"])
                conts = [n for n in walk(lp["body"]) if n.get("k") == "Continue"]
                ok = init0 and inc_first and not conts
                det += "; counter starts at 0=%s, `+= 1` is the first statement and the only write=%s, no continue=%s" % (init0, inc_first, not conts)
            self.budget = (ok, det)
        else:
            self.budget = (False, "main loop is `loop`")

    def residual_var(self):
        """The vector initialised as b - A*x before the loop."""
        ctx = self.ctx
        want = ("op", "-", B_, ("call", MULT, P(0), X_))
        cands = []
        for v in sorted(self.vec_vars, key=repr):
            if v[0] != "var":
                continue
            b = ctx.binds.get(v[1])
            if b is not None and b.init is not None and ctx.term(b.init) == want:
                cands.append(v)
                continue
            for a in ctx.assigns.get(v[1], []):
                if a.get("k") == "Assign" and ctx.term(a["r"]) == want and not any(x is self.main for x in ancestors(a)):
                    cands.append(v)
                    break
        # several locals may hold b - A*x at the start (a temporary of a destructuring assignment, a helper's local):
        # the residual is the one the loop updates
        live = [v for v in cands if any(any(x is self.main for x in ancestors(m)) for _, m in ctx.mutations.get(v, []))]
        return (live or cands or [None])[0]

    def run_entry(self):
        """Abstract state at loop entry: the statements before the main loop, applied to the parameters."""
        m = Model(self.pdb, self.fn, self.ctx, self.vec_vars, {}, ())
        m.counter = None
        m.symmetric = self.symmetric
        body = self.fn["body"]
        while body.get("k") != "Block" and body.get("e") is not None:
            body = strip(body["e"])
        for s in body.get("stmts", []):
            inner = strip(s["e"]) if s.get("k") != "Let" and s.get("e") is not None else None
            if inner is self.main:
                return m
            if any(n is self.main for n in walk(s)):
                raise Unclassified("the main loop is nested in a statement of the function body")
            if not m.stmt(s):
                raise Unclassified("the function body never reaches the main loop")
        return m

    def run_body(self, hyps=()):
        """Run the abstract interpreter over the loop body once per first-iteration case.  Returns list of Models."""
        models = []
        cases = [None]
        tried = []
        while cases:
            assume = cases.pop()
            m = Model(self.pdb, self.fn, self.ctx, self.vec_vars, assume, hyps)
            m.counter = self.counter
            m.symmetric = self.symmetric
            try:
                body = self.main["body"]
                if self.main.get("k") == "While":
                    pass
                m.fell_through = m.run_block(body)
                models.append(m)
            except NeedSplit as ns:
                if assume is not None:
                    raise Unclassified("second split %s" % (ns.key,))
                cases.append({ns.key: True})
                cases.append({ns.key: False})
        return models


def image_hypotheses(sv):
    """Pairs (Q, P) of vectors that are both zero vectors before the loop: candidates for the inductive
    invariant Q = A*P (QMR's s/d).  Kept only if the loop body re-establishes them (greatest fixpoint)."""
    ctx = sv.ctx
    zeros = []
    for v in sorted(sv.vec_vars, key=lambda v_: (v_[0], _pos(getattr(ctx.binds.get(v_[1]), "node", None) or {}), repr(v_))):   # declaration order: deterministic
        if v[0] != "var":
            continue
        b = ctx.binds.get(v[1])
        if b is not None and b.init is not None:
            t = ctx.term(b.init)
            if t[0] == "call" and str(t[1]).endswith("Vector<T>::new") and t[3] == num(0):
                # not reassigned before the loop
                pre = [a for a in ctx.assigns.get(v[1], []) if not any(x is sv.main for x in ancestors(a))]
                if not pre:
                    zeros.append(v)
    keep = []
    for q in zeros:
        for p in zeros:
            if q == p or any(k[0] == q for k in keep):
                continue
            cand = (q, p, "A")
            try:
                models = sv.run_body([cand])
            except Unclassified:
                return []
            good = True
            for m in models:
                if getattr(m, "fell_through", False) and not v_eq(m.vec[q], v_image(m.vec[p], "A")):
                    good = False
            if good:
                keep.append(cand)
    return keep


def residual_of(m, V, x, r):
    """V_now - top(r) + A*(x_now - top(x))  (must be the zero combination)."""
    dx = v_add(m[x], {("top", x): (poly_const(1), poly_const(1))}, -1)
    return v_add(v_add(m[V], {("top", r): (poly_const(1), poly_const(1))}, -1), v_image(dx, "A"))


def tested_vector(sv, node):
    """For a `return Ok(..)` node: (resid scalar var, vector var V, divisor var) if the dominating test is
    `R <= tol` / `R < tol` and R's reaching definition is `V.norm_2() / n`."""
    ctx = sv.ctx
    fs = facts(ctx, node)
    for f in fs:
        if f[0] == "cmp" and f[1] in ("<=", "<") and f[3] == TOL and f[2][0] == "var":
            R = f[2]
            d0 = ctx.def_term(R)
            rb0 = ctx.binds.get(R[1])
            nd0 = norm_def(d0) if d0 is not None and rb0 is not None and not rb0.mut and not ctx.assigns.get(R[1]) else None
            if nd0 is not None:
                V0 = nd0[0]
                if V0[0] == "var":
                    vb0 = ctx.binds.get(V0[1])
                    frozen = vb0 is not None and not vb0.mut and not ctx.assigns.get(V0[1]) and not ctx.mutations.get(V0)
                    V0 = ctx.def_term(V0) if frozen and ctx.def_term(V0) is not None else V0
                if V0 == ("op", "-", B_, ("call", MULT, P(0), X_)) and any(a_ is sv.main for a_ in ancestors(node)):
                    continue            # the confirmation on the recomputed residual, named: not the recurrence test
            # reaching definition: the last assignment to R textually before the test
            tests = [a for a in ancestors(node) if a.get("k") == "If"]
            tpos = _pos(tests[0]) if tests else _pos(node)
            defs = [a for a in ctx.assigns.get(R[1], []) if _pos(a) < tpos]
            b = ctx.binds.get(R[1])
            cand = []
            for a in defs:
                cand.append((_pos(a), a))
            if b is not None and b.kind == "let" and b.init is not None and not b.proj and _pos(b.node) < tpos:
                cand.append((_pos(b.node), {"k": "LetInit", "r": b.init, "_p": b.node.get("_p"), "sp": b.node.get("sp"), "_fn": b.node.get("_fn")}))
            cand.sort(key=lambda z: z[0])
            # all assignments between the last unconditional one and the test (BiCG: two conditional ones)
            out = []
            arms = []
            for pos, a in reversed(cand):
                inner_if = [x for x in ancestors(a) if x.get("k") == "If" and not any(z is x for z in ancestors(node))]
                if not inner_if:
                    # an unconditional definition: dead if the conditional ones after it cover every case (their conditions
                    # are exactly the alternatives of a disjunction known at the test, e.g. itol == 1 || itol == 2)
                    if arms and _covered(ctx, arms, tests[0] if tests else node):
                        break
                    out.append((a, ctx.term(a["r"])))
                    break
                out.append((a, ctx.term(a["r"])))
                # the path condition of the assignment inside the statement it belongs to: one `if`, or an `if / else if` chain
                atoms_, okarm = [], True
                for br in inner_if:
                    in_then = any(z is br.get("then") for z in [a] + list(ancestors(a)))
                    in_else = br.get("else") is not None and any(z is br.get("else") for z in [a] + list(ancestors(a)))
                    if not (in_then or in_else):
                        okarm = False
                        break
                    atoms_.extend(cond_atoms(ctx, br["cond"], in_then))
                arms.append(frozenset(atoms_) if okarm else None)
            flat = []
            for a, t in out:
                stack = [t]
                while stack:
                    y = stack.pop()
                    if y[0] == "ite" and y[3] != ("unit",):
                        stack.extend([y[3], y[2]])      # `x = if c { A } else { B }`: both arms are definitions
                    elif y[0] == "op" and y[1] == "/" and y[2][0] == "call" and str(y[2][1]).endswith("::norm_2") and y[2][2][0] == "ite" and len(y[2][2]) == 4:
                        sel = y[2][2]                   # norm_2(if c { A } else { B }) / n: one definition per arm
                        stack.extend([("op", "/", ("call", y[2][1], sel[3]), y[3]), ("op", "/", ("call", y[2][1], sel[2]), y[3])])
                    else:
                        flat.append((a, y))
            return R, flat, f[1]
    for f in fs:
        # the tested quantity is an immutable `let resid = V.norm_2() / n` that the term builder inlined: the fact carries its definition
        if f[0] == "cmp" and f[1] in ("<=", "<") and f[3] == TOL and f[2][0] != "var" and norm_def(f[2]) is not None:
            nd0 = norm_def(f[2])
            if nd0[0] == ("op", "-", B_, ("call", MULT, P(0), X_)) and any(a_ is sv.main for a_ in ancestors(node)):
                continue
            tests = [a for a in ancestors(node) if a.get("k") == "If"]
            return f[2], [(tests[0] if tests else node, f[2])], f[1]
    return None, [], None


def _covered(ctx, arms, at):
    if any(a is None for a in arms):
        return False
    want = set(arms)

    def implied(arm, alt):
        """alt (one equality x == c) makes every atom of the arm true: the arm contains it, and its other atoms are x != c' with c' != c"""
        if len(alt) != 1:
            return False
        (eq,) = tuple(alt)
        if eq not in arm or eq[0] != "cmp" or eq[1] != "==":
            return arm == alt
        for at_ in arm:
            if at_ == eq:
                continue
            if not (at_[0] == "cmp" and at_[1] == "!=" and {at_[2], at_[3]} & {eq[2], eq[3]} and
                    all(t[0] == "num" for t in ({at_[2], at_[3]} ^ {eq[2], eq[3]})) and len({at_[2], at_[3]} ^ {eq[2], eq[3]}) == 2):
                return False
        return True
    for f in facts(ctx, at):
        if f[0] == "or":
            alts = [frozenset(alt) for alt in f[1]]
            if set(alts) == want:
                return True
            if all(any(implied(arm, alt) for alt in alts) for arm in want) and all(any(implied(arm, alt) for arm in want) for alt in alts):
                return True
    return False


def _pos(n):
    sp = n.get("sp")
    return (sp[0], sp[1]) if sp else (0, 0)


def _lval(ctx, n):
    n = strip(n)
    while n.get("k") in ("AddrOf",) or (n.get("k") == "Unary" and n.get("op") == "*"):
        n = strip(n["e"])
    if n.get("k") == "Local":
        b = ctx.binds.get(n["v"])
        if b is not None and b.kind == "param":
            return ("param", b.idx)
        return ("var", n["v"])
    return ctx.term(n)


def is_initial_residual(sv, V, r, at):
    """V is r, or the copy of r made by the last identity_preconditioner(.., &mut V) before node `at`."""
    if V == r:
        return True
    ctx = sv.ctx
    if copy_source(ctx, V, 0, at) == copy_source(ctx, r, 0, at):
        return True          # plain moves / clones between the helper's residual and the solver's

    def _val(t):
        t = copy_source(ctx, t, 0, at)
        if t[0] == "var":
            d_ = ctx.def_term(t)
            return d_ if d_ is not None else t
        return t
    if _val(V) == _val(r) and _val(V)[0] != "var":
        return True          # the same expression b - A x, named on one side and inlined on the other
    into = [c for c in walk(sv.fn["body"]) if c.get("k") == "MethodCall" and is_idp(callee_path(c)) and _pos(c) < _pos(at)
            and not any(a is sv.main for a in ancestors(c)) and _lval(ctx, c["args"][1]) == V]
    if not into:
        return False
    last = max(into, key=_pos)
    # a copy on the straight path to `at` (in no `if` arm that does not also contain `at`) overwrites everything before it
    anc_at = set(id(a) for a in ancestors(at))
    straight = [c for c in into if all(id(a) in anc_at for a in ancestors(c) if a.get("k") == "Block" and a.get("_p") is not None and a["_p"].get("k") == "If")]
    if straight:
        cut = max(_pos(c) for c in straight)
        into = [c for c in into if _pos(c) >= cut]
    # when the copies sit in the arms of an if/else chain, every arm's last copy must be from r
    arms = {}
    for c in into:
        ifs = tuple(id(a) for a in ancestors(c) if a.get("k") == "Block" and a.get("_p") is not None and a["_p"].get("k") == "If")
        arms.setdefault(ifs[:1], []).append(c)
    def _src_is_r(t):
        return t == r or (_val(t) == _val(r) and _val(t)[0] != "var")        # r itself, or (an immutable name of) the same expression b - A x
    return all(_src_is_r(ctx.term(max(cs, key=_pos)["args"][0])) for cs in arms.values())


def last_copy_source(sv, V, at):
    """Source vector term of the last identity_preconditioner(&src, &mut V) that precedes node `at` in the same
    block path (statement order), or None."""
    ctx = sv.ctx
    best = None
    for c in walk(sv.fn["body"]):
        if c.get("k") == "MethodCall" and is_idp(callee_path(c)) and _lval(ctx, c["args"][1]) == V and _pos(c) < _pos(at):
            # must be on the same control path: every If-branch block enclosing c also encloses `at`
            blocks_c = [id(a) for a in ancestors(c) if a.get("k") == "Block" and a.get("_p") is not None and a["_p"].get("k") == "If"]
            anc_at = set(id(a) for a in ancestors(at))
            if all(b in anc_at for b in blocks_c):
                if best is None or _pos(c) > _pos(best):
                    best = c
    return ctx.term(best["args"][0]) if best is not None else None


def rule_normaliser(rep, sv, name):
    """Every definition of the divisor of the residual normalisations is ||b|| (or the norm of b's preconditioned copy)."""
    ctx, fn = sv.ctx, sv.fn
    divs = set()
    for n in walk(fn["body"]):
        if n.get("k") == "Binary" and n.get("op") == "/" and not n.get("x"):
            nd = norm_def(ctx.term(n))
            if nd is not None:
                divs.add(nd[1])
    rule = "the divisor of the residual normalisation is defined as the norm of the right-hand side b (or of its identity-preconditioned copy), apart from the zero-norm repair `= 1.0`"
    if len(divs) > 1:
        # a divisor named in one place and (an immutable `let`) inlined in another is one divisor
        def _nd(d):
            if d[0] == "var":
                dd = ctx.def_term(d)
                if dd is not None and repaired_norm(dd) is not None:
                    return dd
            return d
        divs = {_nd(d) for d in divs}
    if len(divs) == 1 and repaired_norm(list(divs)[0]) is not None:
        N = repaired_norm(list(divs)[0])
        arms_, stack_ = [], [N]
        while stack_:
            y_ = stack_.pop()
            if y_[0] == "ite":
                stack_.extend([a_ for a_ in y_[2:] if a_[0] != "diverge"])
            else:
                arms_.append(y_)
        first_div = min((n for n in walk(fn["body"]) if n.get("k") == "Binary" and n.get("op") == "/" and not n.get("x") and norm_def(ctx.term(n)) is not None), key=_pos)
        good = bool(arms_)
        for a_ in arms_:
            if not (a_[0] == "call" and str(a_[1]).endswith("::norm_2")):
                good = False
            elif a_[2] != B_ and last_copy_source(sv, a_[2], first_div) != B_ and not _copied_from_b_in_def(sv, a_[2]):
                good = False
        rep.add("normaliser/%s" % name, rule, good, fn["body"], "divisor is `if N == 0 { c } else { N }` with N = %s" % show(N, ctx)[:300], where="%s:%d" % (fn["file"], fn["span"][0]))
        return
    if len(divs) != 1 or list(divs)[0][0] != "var":
        rep.bad("normaliser/%s" % name, rule, fn["body"], "divisors: %s" % [show(d, ctx) for d in divs], where="%s:%d" % (fn["file"], fn["span"][0]))
        return
    nb = copy_source(ctx, list(divs)[0])
    defs = []
    b = ctx.binds.get(nb[1])
    if b is not None and b.init is not None:
        defs.append((b.node, strip(b.init)))
    for a in ctx.assigns.get(nb[1], []):
        if a.get("k") == "Assign":
            defs.append((a, strip(a["r"])))
    ok, det = bool(defs), []
    n_norm = 0
    for node, rhs in defs:
        t = ctx.term(rhs)
        if t[0] == "num" and t[1] != 0:
            det.append("repair value %s" % t[1])
            continue
        if repaired_norm(t) == nb:
            det.append("repair `n = if n == 0 { c } else { n }`")
            continue
        arms_ = []
        stack_ = [t]
        while stack_:
            y_ = stack_.pop()
            if y_[0] == "ite":
                stack_.extend([a_ for a_ in y_[2:] if a_[0] != "diverge"])      # a selection among norms (`match itol { 1 => .., 2 => .., _ => panic!() }`)
            else:
                arms_.append(y_)
        if arms_ and all(a_[0] == "call" and str(a_[1]).endswith("::norm_2") for a_ in arms_):
            for a_ in arms_:
                V = a_[2]
                src = V
                if V != B_:
                    # the copy may be made inside the defining expression itself (a block arm): look there first
                    inner = [c for c in walk(rhs) if c.get("k") == "MethodCall" and is_idp(callee_path(c)) and _lval(ctx, c["args"][1]) == V]
                    src = ctx.term(max(inner, key=_pos)["args"][0]) if inner else last_copy_source(sv, V, node)
                good = src == B_
                n_norm += 1
                ok = ok and good
                det.append("norm_2(%s) with %s holding %s" % (show(V, ctx), show(V, ctx), show(src, ctx) if src else "?"))
        else:
            ok = False
            det.append("unrecognised definition %s" % show(t, ctx))
    rep.add("normaliser/%s" % name, rule, ok and n_norm >= 1, defs[0][0] if defs else fn["body"], "; ".join(det))


def _copied_from_b_in_def(sv, V):
    """Every `V.norm_2()` taken before the main loop sees V as the identity-preconditioned copy of b (the last copy into V on
    the control path to that call is from b)."""
    ctx = sv.ctx
    sites = [c for c in walk(sv.fn["body"]) if c.get("k") == "MethodCall" and (callee_path(c) or "").endswith("::norm_2") and not c.get("x")
             and _lval(ctx, c["recv"]) == V and not any(a is sv.main for a in ancestors(c)) and _pos(c) < _pos(sv.main)]
    # a norm that is the numerator of a normalisation (`z.norm_2() / bnrm`) is a residual measure, not the divisor
    def numerator(c):
        p_ = c.get("_p")
        while p_ is not None and p_.get("k") in ("Paren", "DropTemps", "Use"):
            c, p_ = p_, p_.get("_p")
        return p_ is not None and p_.get("k") == "Binary" and p_.get("op") == "/" and strip(p_["l"]) is strip(c)
    sites = [c for c in sites if not numerator(c)]
    return bool(sites) and all(last_copy_source(sv, V, c) == B_ for c in sites)


def copy_source(ctx, v, depth=0, at=None):
    """Follow `let w = v;` / `w = v;` copies (w defined exactly once, by a plain local) back to the variable that carries
    the definitions: a helper returning (r, normb) leaves the caller's normb a copy of the helper's."""
    if v[0] != "var" or depth > 4:
        return v
    b = ctx.binds.get(v[1])
    if b is None or b.kind != "let" or b.proj:
        return v
    asg = [a for a in ctx.assigns.get(v[1], []) if at is None or _pos(a) < _pos(at)]      # only what has happened before `at`
    srcs = []
    if b.init is not None:
        srcs.append(strip(b.init))
    srcs += [strip(a["r"]) for a in asg if a.get("k") == "Assign"]
    if len(srcs) != 1 or len(asg) != (0 if b.init is not None else 1):
        return v
    s0 = srcs[0]
    while s0.get("k") == "MethodCall" and s0.get("name") == "clone" and not s0.get("args"):
        s0 = strip(s0["recv"])
    if s0.get("k") == "Local":
        sb = ctx.binds.get(s0["v"])
        if sb is not None and sb.kind == "let":
            return copy_source(ctx, ("var", s0["v"]), depth + 1, at)
    return v


def repaired_norm(t):
    """`if N == 0.0 { c } else { N }` (c a nonzero constant; either spelling): the zero-norm repair as an expression -> N"""
    if t[0] == "ite" and t[1][0] == "op" and t[1][1] in ("==", "!="):
        a, b = t[1][2], t[1][3]
        N = b if a == num(0) else (a if b == num(0) else None)
        if N is None:
            return None
        zero_arm, other = (t[2], t[3]) if t[1][1] == "==" else (t[3], t[2])
        if other == N and zero_arm[0] == "num" and zero_arm[1] != 0:
            return N
    return None


def norm_def(t):
    """`V.norm_2() / n` -> (V, n)"""
    if t[0] == "op" and t[1] == "/" and t[2][0] == "call" and str(t[2][1]).endswith("::norm_2"):
        return t[2][2], t[3]
    return None


def run(rep, pdb, tier):
    for name in SOLVERS:
        sv = Solver(pdb, name)
        if not sv.ok:
            rep.missing("anchor/%s" % name, "solver exists", "function %s::%s not found" % (S64, name))
            continue
        ctx, fn = sv.ctx, sv.fn
        where = "%s:%d" % (fn["file"], fn["span"][0])
        if sv.main is None:
            rep.missing("anchor/%s/loop" % name, "the solver has exactly one main loop", "loops=%d" % len(sv.loops), where)
            continue
        # ---- budget
        ok, det = sv.budget
        rets = [n for n in walk(fn["body"]) if n.get("k") == "Ret"]
        okv = True
        okn = 0
        for r_ in rets:
            v = strip(r_["e"]) if r_.get("e") is not None else None
            if v is not None and v.get("k") == "Call" and v["f"].get("fn", "").endswith("::Ok"):
                if not _is_ok(r_):
                    continue          # `Ok(restart? + i)`: decided by the restart rule
                okn += 1
                pv = ctx.term(v["args"][0])
                inside = any(a is sv.main for a in ancestors(r_))
                good = (inside and pv == sv.counter) or (not inside and pv == num(0) and _pos(r_) < _pos(sv.main))
                okv = okv and good
        rep.add("budget/%s" % name, "the main loop is `for i in 1..=max_iter` or `while iter < max_iter` with `iter += 1` as the only write; Ok carries 0 before the loop or that counter",
                ok and okv and okn >= 1, sv.main, det + "; Ok values are 0/counter=%s" % okv)
        # ---- initial residual
        r = sv.residual_var()
        rep.add("initial-residual/%s" % name, "r is initialised as b - self.multiply(x) (b positive)", r is not None, fn["body"], "residual variable: %s" % (show(r, ctx) if r else None), where=where)
        rule_normaliser(rep, sv, name)
        # ---- x untouched outside the loop
        xw = [e for e in effects(pdb, ctx) if e.target == X_ or (e.target[0] in ("idx", "field") and e.target[1] == X_)]
        outside = [e for e in xw if not any(a is sv.main for a in ancestors(e.node))]
        other_mut = [m for (kind, m) in ctx.mutations.get(X_, []) if not any(a is sv.main for a in ancestors(m))]
        rep.add("x-untouched/%s" % name, "every write through x is inside the main loop body (a budget of zero leaves x unchanged)", not outside and not other_mut and len(xw) >= 1,
                xw[0].node if xw else fn["body"], "writes to x: %d, outside the loop: %d" % (len(xw), len(outside) + len(other_mut)))
        # ---- breakdown-is-err, fall-through is Err
        tail = fn["body"].get("expr")
        tt = ctx.term(tail) if tail is not None else None
        ft_err = tt is not None and tt[0] == "call" and str(tt[1]).endswith("::Err")
        others, restarts = [], []
        for r_ in rets:
            v = strip(r_["e"]) if r_.get("e") is not None else None
            p = v["f"].get("fn", "") if v is not None and v.get("k") == "Call" and strip(v["f"]).get("k") == "Def" else ""
            if not (p.endswith("::Ok") or p.endswith("::Err")):
                rs = restart_of(sv, r_)
                if rs is not None:
                    restarts.append((r_, rs))
                else:
                    others.append(loc(r_))
        rep.add("breakdown-is-err/%s" % name, "every return is Ok(..), Err(..) or a restart of the same solver, and the fall-through after the loop is Err(..)", ft_err and not others, tail or fn["body"], "fall-through Err=%s other returns=%s restarts=%d" % (ft_err, others, len(restarts)))
        for k_, (r_, (okr, detr)) in enumerate(sorted(restarts, key=lambda z: _pos(z[0])), 1):
            rep.add("restart/%s#%d" % (name, k_), "a restart hands the same b, x and tol to the same solver with the budget that is left (max_iter - counter, which cannot underflow inside the loop) and adds the "
                    "counter to the count it reports: the total stays within max_iter, a budget of zero still leaves x untouched, and success is still only reported by a confirmed exit", okr, r_, detr)
        # ---- success is confirmed on the residual recomputed from the x that is returned
        oks = sorted([n for n in rets if any(a is sv.main for a in ancestors(n)) and _is_ok(n)], key=_pos)
        for k_, node in enumerate(oks, 1):
            okc, det = confirmed(sv, node)
            rep.add("confirmed-success/%s#%d" % (name, k_),
                    "every return Ok(..) inside the loop is also control-dependent on `||b - A*x|| / normb <= tol` with the residual recomputed from x itself after the last update of x "
                    "(the recurrence residual is updated independently of x: rounding in near-breakdown steps, overflow of x, or components of x that A never reads let the two part company, "
                    "and `NaN <= tol` is false, so the confirmation also keeps a non-finite x from being reported as solved)", okc, node, det)
        # pre-loop Ok(0): tested against the initial residual
        if r is None:
            continue
        for r_ in rets:
            v = strip(r_["e"]) if r_.get("e") is not None else None
            if v is not None and v.get("k") == "Call" and v["f"].get("fn", "").endswith("::Ok") and not any(a is sv.main for a in ancestors(r_)):
                R, defs, cmpop = tested_vector(sv, r_)
                vs = [norm_def(t) for _, t in defs]
                ok0 = R is not None and bool(vs) and all(x is not None and is_initial_residual(sv, x[0], r, r_) for x in vs)
                rep.add("ok-tested/%s/before-loop" % name, "the Ok(0) before the loop is control-dependent on the initial residual norm test against tol", ok0, r_,
                        "R=%s defs=%s" % (show(R, ctx) if R else None, [show(t, ctx) for _, t in defs]))
    rep.floor("budget/", 4)
    rep.floor("initial-residual/", 4)
    rep.floor("normaliser/", 4)
    rep.floor("x-untouched/", 4)
    rep.floor("breakdown-is-err/", 4)
    rep.floor("ok-tested/", 4)
    rep.floor("confirmed-success/", 5)
    rep.assumptions += ["since every in-loop success is confirmed on the recomputed residual, the consistency of the recurrences (r tracks b - A*x) is no longer a condition of this property; it is decided under C09",
                        "confirmed-success decides that a success report is conditional on the residual recomputed from x (hence on a finite x); the size of the rounding error of that one recomputation (eps*||A||*||x||) is not decided"]
    rep.trusted += ["linear-combination abstract domain with polynomial coefficient comparison over Q (rules/c08.py)"]
    return {}


def rule_recurrence(rep, sv, name, r):
    """(used by C09) the recurrence residual tracks b - A*x through the loop body, and each in-loop success exit tests the
    residual of the x it returns.  Since the solvers confirm success on the recomputed residual these are no longer
    conditions of C08 (a wrong recurrence cannot produce a false Ok any more); they are conditions of convergence: with a
    recurrence that does not track the iterate the confirmation never succeeds, or succeeds only by accident."""
    ctx, fn = sv.ctx, sv.fn
    where = "%s:%d" % (fn["file"], fn["span"][0])
    hyps = image_hypotheses(sv)
    try:
        models = sv.run_body(hyps)
    except Unclassified as u:
        rep.missing("residual-tracks-iterate/%s" % name, "the loop body can be classified statement by statement", "unclassified: %s" % u, where)
        return
    n_case = 0
    for m in models:
        n_case += 1
        case = "first" if (m.assume and list(m.assume.values())[0]) else ("later" if m.assume else "any")
        if getattr(m, "fell_through", False):
            z = residual_of(m.vec, r, X_, r)
            rep.add("residual-tracks-iterate/%s/%s" % (name, case),
                    "within one iteration *x receives sum c_i*P_i iff the residual receives -sum c_i*A*P_i with the same coefficients (r + A*x is preserved by the loop body)",
                    not z, sv.main, "r_end - r_top + A*(x_end - x_top) = %s" % (_show_vec(z, ctx) if z else "0"), proof=True)
        for kind, node, vecs, vers, payload, _conds in m.exits:
            if kind != "ok":
                continue
            R, defs, cmpop = tested_vector(sv, node)
            key = "ok-tested/%s/line-case-%s#%d" % (name, case, [e[1] for e in m.exits if e[0] == "ok"].index(node) + 1)
            if R is None:
                rep.bad(key, "every return Ok(e) is control-dependent on `R <= tol` (or <) with tol the unmodified parameter", node, "no dominating test against tol")
                continue
            tol_unmod = not ctx.assigns.get(None) and TOL[0] == "param"
            vs = []
            for a, t in defs:
                nd = norm_def(t)
                vs.append(nd)
            okd = bool(vs) and all(v is not None for v in vs)
            rep.add(key, "every return Ok(e) is control-dependent on `R <= tol` (or <), tol the unmodified parameter, and R's reaching definition(s) are `V.norm_2() / normb`",
                    okd, node, "R=%s defined as %s" % (show(R, ctx), [show(t, ctx) for _, t in defs]))
            if not okd:
                continue
            for (V, nb) in vs:
                if V not in vecs and V[0] != "var":
                    # `let s = r - v * alpha;` declared at first use: the normaliser inlined the immutable let, the walker
                    # tracks the variable: map the expression back to the variable it defines
                    named = [v_ for v_ in vecs if v_[0] == "var" and ctx.def_term(v_) == V]
                    if len(named) == 1:
                        V = named[0]
                if V not in vecs:
                    rep.bad("tested-vector/%s/%s/%s" % (name, case, show(V, ctx)), "the tested vector is a tracked vector variable", node, "%s" % (V,))
                    continue
                z = residual_of(vecs, V, X_, r)
                rep.add("tested-vector/%s/%s/%s#%d" % (name, case, show(V, ctx), [e[1] for e in m.exits if e[0] == "ok"].index(node) + 1),
                        "the vector whose norm was tested is the residual of the x that is returned (pending x updates are applied before returning)",
                        not z, node, "V - r_top + A*(x - x_top) = %s" % (_show_vec(z, ctx) if z else "0"), proof=True)


def restart_of(sv, n):
    """`return self.<this solver>(b, x, max_iter - counter, tol[, itol]).map(|k| k + counter)` (also written as a match with
    `Ok(k) => Ok(k + counter), Err(e) => Err(e)`): the solver restarted from the current iterate with what is left of the
    budget.  Returns (ok, detail) or None when n is not a call of the solver on itself."""
    ctx = sv.ctx
    from .terms import lin_add
    v = strip(n["e"]) if n.get("e") is not None else None
    if v is None:
        return None
    own = "%s::%s" % (S64, sv.name)
    inner, add_ok = None, False
    if v.get("k") == "MethodCall" and v.get("name") == "map" and len(v.get("args", [])) == 1:
        rc = strip(v["recv"])
        cl = strip(v["args"][0])
        if rc.get("k") == "MethodCall" and callee_path(rc) == own and cl.get("k") == "Closure" and len(cl.get("params", [])) == 1 and cl["params"][0].get("k") == "Bind":
            inner = rc
            k = ("var", cl["params"][0]["v"])
            add_ok = sv.counter is not None and ctx.term(cl["body"]) == lin_add(k, sv.counter)
    elif v.get("k") == "Match":
        rc = strip(v.get("e") or v.get("scrut") or {})
        if rc.get("k") == "MethodCall" and callee_path(rc) == own:
            inner = rc
            t = ctx.term(v)
            add_ok = False          # spelled as a match: not recognised (fail closed)
    elif v.get("k") == "MethodCall" and callee_path(v) == own:
        inner, add_ok = v, False    # the bare recursive result would report k, not counter + k
    args = None
    if inner is None and v.get("k") == "Call" and str(v["f"].get("fn", "")).endswith("::Ok") and len(v.get("args", [])) == 1:
        # `Ok( self.solve_x( b, x, max_iter - i, tol )? + i )` (the callee's Err passes through `?` unchanged: same Result type)
        t = ctx.term(v["args"][0])
        tries = []

        def _find(t_):
            if isinstance(t_, tuple):
                if t_ and t_[0] == "try" and len(t_) == 2 and t_[1][0] == "call" and t_[1][1] == own:
                    tries.append(t_)
                for x_ in t_:
                    _find(x_)
        _find(t)
        if len(tries) == 1:
            args = list(tries[0][1][2:])
            add_ok = sv.counter is not None and t == lin_add(tries[0], sv.counter)
            inner = v
    if inner is None:
        return None
    if args is None:
        args = [ctx.term(a) for a in call_args(inner)]
    want = [P(0), B_, X_, lin_add(MAXIT, ("lin", 0, ((sv.counter, -1),))) if False else None, TOL]
    budget_ok = False
    if sv.counter is not None and len(args) >= 5:
        from fractions import Fraction
        budget_ok = args[3] == ("lin", Fraction(0), ((MAXIT, Fraction(1)), (sv.counter, Fraction(-1)))) or args[3] == ("op", "-", MAXIT, sv.counter)
    same = len(args) >= 5 and args[0] == P(0) and args[1] == B_ and args[2] == X_ and args[4] == TOL and all(a == P(5 + i) for i, a in enumerate(args[5:]))
    inside = any(a is sv.main for a in ancestors(n))
    ok = same and budget_ok and add_ok and inside
    return ok, "same b, x, tol (and itol)=%s budget max_iter - counter=%s Ok adds the counter=%s inside the loop=%s" % (same, budget_ok, add_ok, inside)


def _is_ok(n):
    """`return Ok(e)` with a plain payload; `Ok(self.solve_x(..)? + i)` is a restart (its success is the callee's), not a success exit of its own"""
    v = strip(n["e"]) if n.get("e") is not None else None
    if not (v is not None and v.get("k") == "Call" and v["f"].get("fn", "").endswith("::Ok")):
        return False
    fnb = (n.get("_fn") or {}).get("body")
    for a in v.get("args", []):
        for x in walk(a):
            if x.get("k") == "Try":
                return False
            if x.get("k") == "Local" and fnb is not None:
                for l_ in walk(fnb):
                    if l_.get("k") == "Let" and l_.get("pat", {}).get("k") == "Bind" and l_["pat"].get("v") == x.get("v") and not l_["pat"].get("mut") and \
                            isinstance(l_.get("init"), dict) and strip(l_["init"]).get("k") == "Try":
                        return False
    return True


def confirmed(sv, node):
    """The Ok exit `node` is dominated by `norm_2(b - A*x) / n <= tol`, evaluated after the last write to x on the way to it."""
    ctx = sv.ctx
    want = ("op", "-", B_, ("call", MULT, P(0), X_))
    det = "no dominating test of the recomputed residual"
    # the conditions known at the exit: enclosing `if`s (then / else side) and earlier `if C { <diverges> }` statements of the
    # enclosing blocks (their negation holds afterwards).  Only positive `<=` / `<` atoms count: `!(R > tol)` holds for NaN.
    tests = []
    chain = [node] + list(ancestors(node))
    for i_, a in enumerate(chain):
        if a is sv.main:
            break
        if a.get("k") == "If":
            if any(z is a.get("then") for z in chain[:i_]):
                tests.append((a, True))
            elif a.get("else") is not None and any(z is a.get("else") for z in chain[:i_]):
                tests.append((a, False))
        if a.get("k") == "Block":
            inner = chain[i_ - 1] if i_ else None
            for st in a.get("stmts", []):
                e_ = strip(st.get("e") or {}) if st.get("k") != "Let" else {}
                if inner is not None and (st is inner or e_ is inner or any(z is st for z in chain[:i_])):
                    break
                if _pos(st) >= _pos(node):
                    break
                if e_.get("k") == "If" and e_.get("else") is None and diverges(e_["then"]):
                    tests.append((e_, False))
    for a, pol in tests:
        for at in cond_atoms(ctx, a["cond"], pol):
            if not (at[0] == "cmp" and at[1] in ("<=", "<") and at[3] == TOL):
                continue
            t, start = at[2], _pos(a)
            if t[0] == "var":
                b = ctx.binds.get(t[1])
                d = ctx.def_term(t)
                if d is None or b is None or b.mut or ctx.assigns.get(t[1]):
                    continue
                t, start = d, _pos(b.node)
            nd = norm_def(t)
            if nd is None:
                continue
            V = nd[0]
            if V[0] == "var":
                bv = ctx.binds.get(V[1])
                dv = ctx.def_term(V)
                if dv is None or bv is None or bv.mut or ctx.assigns.get(V[1]) or ctx.mutations.get(V):
                    continue
                V, start = dv, min(start, _pos(bv.node))
            if V != want:
                continue
            late = [m for (_, m) in ctx.mutations.get(X_, []) if start < _pos(m) < _pos(node)]
            if late:
                det = "x is written at %s after the residual was recomputed" % loc(late[0])
                continue
            return True, "confirmed by %s" % show(("op", at[1], at[2], at[3]), ctx)
    return False, det


def _show_vec(z, ctx):
    out = []
    for k, c in z.items():
        out.append("%s" % (k,))
    return " + ".join(out)[:300]
