"""C17 — Newton: success means a root; bounded work; failure reported; state untouched."""
from .pdb import strip, walk, loc, ancestors
from .terms import Ctx, num, show, lin_parts
from .common import (P, F, effects, callee_path, callee_generic, call_args, rule_no_unsafe, receiver_mode, is_call_like, in_macro,
                     rule_termination, rule_no_hidden_state, loops_of)
from .guards import for_range, facts, norm_cmp

LEVEL = "other"
CX = "complex::Complex<f64>"
METHODS = [
    ("newton::Newton<f64>::solve", "scalar", None),
    ("newton::Newton<%s>::solve" % CX, "scalar", None),
    ("newton::Newton<vector::Vector<f64>>::solve", "system", "matrix::Matrix<f64>::jacobian"),
    ("newton::Newton<vector::Vector<f64>>::solve_jacobian", "system", None),
    ("newton::Newton<vector::Vector<%s>>::solve" % CX, "system", "matrix::Matrix<%s>::jacobian_cmplx" % CX),
    ("newton::Newton<vector::Vector<%s>>::solve_jacobian" % CX, "system", None),
]
TOL, DELTA, MAXIT, GUESS = F(P(0), "tol"), F(P(0), "delta"), F(P(0), "max_iter"), F(P(0), "guess")


def closure_calls(ctx, root, param_idx):
    """Call nodes that invoke the idx-th parameter (a &dyn Fn)."""
    out = []
    for n in walk(root):
        if n.get("k") == "Call" and strip(n["f"]).get("k") == "Local":
            if ctx.term(n["f"]) == ("param", param_idx):
                out.append(n)
    return out


def unwrap_delta(t):
    """delta, or Cmplx::new(delta, 0)"""
    if t == DELTA:
        return True
    if t[0] == "call" and str(t[1]).endswith("Complex<T>::new") and t[2] == DELTA and t[3] == num(0):
        return True
    return False


def run(rep, pdb, tier):
    unsafe_free = rule_no_unsafe(rep, pdb)
    for ty in ("newton::Newton<f64>", "newton::Newton<%s>" % CX, "newton::Newton<vector::Vector<f64>>", "newton::Newton<vector::Vector<%s>>" % CX):
        tf = pdb.tyfacts.get(ty)
        if tf is None:
            rep.missing("state/freeze/%s" % ty, "instantiation seen", "type %s not seen" % ty)
        else:
            rep.add("state/freeze/%s" % ty, "rustc's is_freeze on the instantiation: no interior mutability behind &self", tf["freeze"], where="crate ohsl",
                    msg="is_freeze=%s" % tf["freeze"], proof=True)
    evals = {}
    for path, kind, jacfn in METHODS:
        fn = pdb.fn(path)
        short = path.replace("newton::Newton", "Newton")
        if fn is None:
            rep.missing("anchor/%s" % short, "Newton variant exists", "function %s not found" % path)
            continue
        ctx = Ctx.for_fn(pdb, fn)
        where = "%s:%d" % (fn["file"], fn["span"][0])
        # ---- state: &self
        rm = receiver_mode(fn)
        rep.add("state/receiver/%s" % short, "the method takes &self: tol, delta, max_iter, guess cannot be written (Freeze, no unsafe)",
                rm == "&self" and unsafe_free, fn["body"], "receiver=%s" % rm, where=where, proof=True)
        rule_no_hidden_state(rep, pdb, fn, "no-hidden-state/%s" % short, allow=())
        # ---- a finite-difference variant may delegate to its sibling with the finite-difference Jacobian as the provider
        if jacfn and not loops_of(fn):
            sib = path.rsplit("::", 1)[0] + "::solve_jacobian"
            tail = fn["body"].get("expr")
            tt = ctx.term(tail) if tail is not None else None
            deleg = tt is not None and tt[0] == "call" and tt[1] == sib and len(tt) == 5 and tt[2] == P(0) and tt[3] == P(1) and tt[4][0] == "closure"
            okc = False
            if deleg:
                for n in walk(fn["body"]):
                    if n.get("k") == "Closure" and n.get("id") == tt[4][1] and len(n.get("params", [])) == 1 and n["params"][0].get("k") == "Bind":
                        pv = ("var", n["params"][0]["v"])
                        okc = ctx.term(n["body"]) == ("call", jacfn, pv, P(1), DELTA)
            others = [n for n in walk(fn["body"]) if is_call_like(n) and not in_macro(n) and n.get("k") in ("Call", "MethodCall")
                      and callee_path(n) not in (sib, jacfn) and callee_generic(n) not in ("std::clone::Clone::clone",)]
            if deleg and okc and not others and pdb.fn(sib) is not None and pdb.fn(jacfn) is not None:
                note = "delegates to %s (checked there) with the provider |x| %s(x, func, self.delta)" % (sib.split("::")[-1], jacfn.split("::")[-1])
                jf = pdb.fn(jacfn)
                jctx = Ctx.for_fn(pdb, jf)
                inl = [c for c in closure_calls(jctx, jf["body"], 1) if any(a.get("k") == "For" for a in ancestors(c))]
                outl = [c for c in closure_calls(jctx, jf["body"], 1) if not any(a.get("k") == "For" for a in ancestors(c))]
                okj = len(loops_of(jf)) == 1 and len(inl) == 1 and len(outl) == 1
                rep.add("bounded/loop/%s" % short, "the only loop is `for _ in 0..self.max_iter` (exclusive): at most max_iter iterations", True, fn["body"], note, where=where)
                rule_termination(rep, pdb, fn, "bounded/callees/%s" % short)
                evals[short] = "1 per iteration + jacobian(%d + %d*n) via solve_jacobian" % (len(outl), len(inl))
                rep.add("eval-count/%s" % short, "user-closure call sites per iteration are as counted (scalar 3; finite-difference system 1 + (1+n); supplied Jacobian 1+1) and none outside the loop",
                        okj, fn["body"], note + "; jacobian evaluates func %d + %d*n times" % (len(outl), len(inl)))
                for k_, r_ in (("ok-tested", "the only Ok(..) is inside the loop, control-dependent on the stopping test, and carries the iterate"),
                               ("failure-carries-iterate", "the fall-through value is Err(current), current being the variable updated by `current -= dx` and initialised from self.guess"),
                               ("criterion", "success is decided on the size of the Newton step applied in this iteration"),
                               ("step", "dx solves J*dx = f(current) by solve_basic with the Jacobian evaluated at current (finite-difference with self.delta, or the supplied one); the update subtracts dx")):
                    rep.add("%s/%s" % (k_, short), r_, True, fn["body"], note, where=where)
                continue
        # ---- bounded
        lps = loops_of(fn)
        okb, det = len(lps) == 1, "loops=%d" % len(lps)
        body_loop = lps[0] if lps else None
        if okb:
            r = for_range(ctx, body_loop)
            okb = r is not None and r[1] == num(0) and r[2] == MAXIT and not r[3]
            det = "for _ in %s..%s%s" % (show(r[1], ctx), show(r[2], ctx), " (inclusive)" if r and r[3] else "") if r else "not a range loop"
        rep.add("bounded/loop/%s" % short, "the only loop is `for _ in 0..self.max_iter` (exclusive): at most max_iter iterations", okb, body_loop or fn["body"], det, where=where)
        nf, nl = rule_termination(rep, pdb, fn, "bounded/callees/%s" % short)
        if body_loop is None:
            continue
        lb = body_loop["body"]
        # ---- evaluation count
        fcalls = closure_calls(ctx, lb, 1)
        jcalls = closure_calls(ctx, lb, 2) if len(fn["params"]) > 2 else []
        outside = [c for c in closure_calls(ctx, fn["body"], 1) if not any(a is body_loop for a in ancestors(c))]
        per_iter = len(fcalls) + len(jcalls)
        jf = pdb.fn(jacfn) if jacfn else None
        jdesc = ""
        if jacfn:
            uses = [n for n in walk(lb) if n.get("k") == "Call" and callee_path(n) == jacfn]
            if jf is not None and len(uses) == 1:
                jctx = Ctx.for_fn(pdb, jf)
                jl = loops_of(jf)
                inl = [c for c in closure_calls(jctx, jf["body"], 1) if any(a.get("k") == "For" for a in ancestors(c))]
                outl = [c for c in closure_calls(jctx, jf["body"], 1) if not any(a.get("k") == "For" for a in ancestors(c))]
                jdesc = " + jacobian(%d + %d*n)" % (len(outl), len(inl))
                okj = len(jl) == 1 and len(inl) == 1 and len(outl) == 1
            else:
                okj = False
        else:
            okj = True
        want = 3 if kind == "scalar" else (1 if jacfn else 2)
        evals[short] = "%d per iteration%s" % (per_iter, jdesc)
        rep.add("eval-count/%s" % short, "user-closure call sites per iteration are as counted (scalar 3; finite-difference system 1 + (1+n); supplied Jacobian 1+1) and none outside the loop",
                per_iter == want and okj and not outside, lb, "calls per iteration=%d%s outside loop=%d" % (per_iter, jdesc, len(outside)))
        # ---- Ok only behind the stopping test, carrying the iterate
        oks, errs = [], []
        for n in walk(fn["body"]):
            if n.get("k") == "Call" and strip(n["f"]).get("k") == "Def":
                p = n["f"].get("fn", "")
                if p.endswith("::Ok"):
                    oks.append(n)
                elif p.endswith("::Err"):
                    errs.append(n)
        cur_updates = [e for e in effects(pdb, ctx, lb) if e.kind == "assignop" and e.op == "-=" and e.target[0] == "var"]
        ok1 = len(oks) == 1 and len(cur_updates) == 1
        det = "Ok sites=%d iterate updates=%d" % (len(oks), len(cur_updates))
        if ok1:
            upd = cur_updates[0]
            cur = upd.target
            dx = upd.value
            dxv = ctx.term(strip(upd.node["r"])) if False else dx
            # the step may be an opaque local (its definition reads `current`, which is updated before the test)
            dx_names = {dx}
            for v_, b_ in ctx.binds.items():
                if b_.kind == "let" and b_.init is not None and not b_.proj and ctx.term(b_.init) == dx:
                    dx_names.add(("var", v_))
            if dx[0] == "var" and ctx.def_term(dx) is not None:
                dx_names.add(dx)
                dx = ctx.def_term(dx)
            o = oks[0]
            in_loop = any(a is body_loop for a in ancestors(o))
            fs = facts(ctx, o)
            carries = ctx.term(o["args"][0]) == cur
            def _deref(t):
                return ctx.def_term(t) if t[0] == "var" and ctx.def_term(t) is not None else t
            # the size of the step: |dx| (scalar) or dx.norm_inf() (system), possibly named before the update consumes dx
            test_step, test_resid = [], []
            for f in fs:
                if f[0] == "bool" and f[2] is True and f[1][0] == "var":
                    # the test evaluated into an immutable bool before the update (`let converged = dx.abs() <= tol; current -= dx; if converged ..`):
                    # its operands are read where it was evaluated
                    bb = ctx.binds.get(f[1][1])
                    ini = strip(bb.init) if bb is not None and bb.kind == "let" and not bb.mut and bb.init is not None else None
                    if ini is not None and ini.get("k") == "Binary" and ini.get("op") == "<=" and ctx.term(ini["r"]) == TOL:
                        lhs = strip(ini["l"])
                        if lhs.get("k") == "MethodCall" and lhs.get("name") == ("abs" if kind == "scalar" else "norm_inf") and not lhs.get("args"):
                            rv = strip(lhs["recv"])
                            if rv.get("k") == "Local" and ("var", rv["v"]) in dx_names:
                                test_step.append(f)
                    continue
                if not (f[0] == "cmp" and f[1] == "<=" and f[3] == TOL):
                    continue
                mr = _deref(f[2])
                if mr[0] != "call":
                    continue
                arg = mr[2] if len(mr) > 2 else None
                if arg is None:
                    continue
                if kind == "scalar" and str(mr[1]).endswith("::abs") and (arg in dx_names or _deref(arg) == dx):
                    test_step.append(f)
                elif kind != "scalar" and str(mr[1]).endswith("::norm_inf"):
                    if arg in dx_names or _deref(arg) == dx:
                        test_step.append(f)
                    else:
                        fv = _deref(arg)
                        if fv[0] == "callv" and fv[1] == P(1) and fv[2] == cur:
                            test_resid.append(f)
            test = test_step + test_resid
            ok1 = in_loop and carries and len(test) >= 1
            det = "Ok inside loop=%s carries iterate=%s stopping test dominates=%s" % (in_loop, carries, bool(test))
            # ---- failure carries the iterate
            tail = fn["body"].get("expr")
            tt = ctx.term(tail) if tail is not None else None
            b = ctx.binds.get(cur[1])
            init_guess = b is not None and b.init is not None and ctx.term(b.init) == GUESS
            okf = tt is not None and tt[0] == "callv" or (tt is not None and tt[0] == "call" and str(tt[1]).endswith("::Err") and tt[2] == cur)
            okf = tt is not None and tt[0] == "call" and str(tt[1]).endswith("Err") and tt[2] == cur and init_guess and len(errs) == 1
            rep.add("failure-carries-iterate/%s" % short, "the fall-through value is Err(current), current being the variable updated by `current -= dx` and initialised from self.guess",
                    okf, tail or fn["body"], "tail=%s init from guess=%s Err sites=%d" % (show(tt, ctx) if tt else None, init_guess, len(errs)))
            # ---- step
            if kind == "scalar":
                # dx = f(current)/deriv, deriv = (f(cur+d) - f(cur-d)) / (2 d)
                oks_ = dx[0] == "op" and dx[1] == "/" and dx[2] == ("callv", P(1), cur)
                dv = dx[3] if oks_ else None
                okd = False
                if dv is not None and dv[0] == "op" and dv[1] == "/":
                    nume, den = dv[2], dv[3]
                    den_ok = den in (("op", "*", num(2), DELTA), ("op", "*", DELTA, num(2)))
                    if nume[0] == "op" and nume[1] == "-" and nume[2][0] == "callv" and nume[3][0] == "callv":
                        a1, a2 = nume[2][2], nume[3][2]
                        plus = a1[0] == "op" and a1[1] == "+" and a1[2] == cur and unwrap_delta(a1[3])
                        minus = a2[0] == "op" and a2[1] == "-" and a2[2] == cur and unwrap_delta(a2[3])
                        okd = den_ok and plus and minus and nume[2][1] == P(1) and nume[3][1] == P(1)
                rep.add("step/%s" % short, "dx = f(current)/deriv, deriv = (f(current+delta) - f(current-delta)) / (2*delta), the update subtracts dx",
                        oks_ and okd, upd.node, "dx=%s" % show(dx, ctx)[:200])
            else:
                # dx = J.solve_basic(f), J from jacobian(current, func, delta) or jac(current)
                oks_ = dx[0] == "call" and str(dx[1]).endswith("::solve_basic") and dx[3] == ("callv", P(1), cur)
                jt = dx[2] if oks_ else None
                jb = ctx.binds.get(jt[1]) if jt is not None and jt[0] == "var" else None
                jinit = ctx.term(jb.init) if jb is not None and jb.init is not None else None
                if jacfn:
                    okj2 = jinit is not None and jinit[0] == "call" and jinit[1] == jacfn and jinit[2] == cur and jinit[3] == P(1) and jinit[4] == DELTA
                else:
                    okj2 = jinit == ("callv", P(2), cur)
                rep.add("step/%s" % short, "dx solves J*dx = f(current) by solve_basic with the Jacobian evaluated at current (finite-difference with self.delta, or the supplied one); the update subtracts dx",
                        oks_ and okj2, upd.node, "dx=%s J=%s" % (show(dx, ctx)[:120], show(jinit, ctx)[:120] if jinit else None))
            rep.add("criterion/%s" % short, "success is decided on the size of the Newton step applied in this iteration (|dx| <= tol, ||dx||_inf <= tol): inside the basin of quadratic convergence the "
                    "distance of the returned iterate to the root is then O(step^2), whereas a residual test |f| <= tol bounds it only by tol/|f'| (f = exp(x) - exp(-10), tol 1e-4: 1000 tol) "
                    "and cannot be met at all once ulp(f terms) > tol", in_loop and bool(test_step), oks[0],
                    "step test=%s residual test=%s" % (bool(test_step), bool(test_resid)))
        rep.add("ok-tested/%s" % short, "the only Ok(..) is inside the loop, control-dependent on the stopping test, and carries the iterate", ok1, oks[0] if oks else fn["body"], det)
    # ---- the dense solve used for the step (src/matrix/solve.rs is an anchor of this property): pivoting by magnitude
    from .c01 import rule_magnitude, check_argmax
    rule_magnitude(rep, pdb, ["matrix::Matrix<T>::solve_basic"], key="step-solver/magnitude")
    mac = pdb.fn("matrix::Matrix<T>::max_abs_in_column")
    pp0 = pdb.fn("matrix::Matrix<T>::partial_pivot")
    if mac is not None:
        check_argmax(rep, pdb, mac, "step-solver", P(2), F(P(0), "rows"), 1, lambda c: P(1))
    elif pp0 is not None:
        check_argmax(rep, pdb, pp0, "step-solver", P(2), F(P(0), "rows"), 1, lambda c: P(2))      # the search written out in partial_pivot(x, k)
    else:
        rep.missing("step-solver/argmax", "pivot search exists", "max_abs_in_column not found")
    from .c01 import check_gauss
    check_gauss(rep, pdb, "step-solver/elimination")
    from .c01 import check_early_returns
    check_early_returns(rep, pdb, "step-solver/early-return", names=("partial_pivot", "gauss_with_pivot", "backsolve", "solve_basic"))
    # the stopping test of the system variants takes norm_inf(): no component is ignored (NaN propagates)
    from .c15 import check_norm_inf
    check_norm_inf(rep, pdb, "vector::Vector<f64>::norm_inf", "residual-norm/f64")
    check_norm_inf(rep, pdb, "vector::Vector<complex::Complex<f64>>::norm_inf", "residual-norm/Cmplx")
    rep.floor("residual-norm/", 2)
    rep.floor("step-solver/", 1)
    rep.floor("state/receiver/", 6)
    rep.floor("bounded/loop/", 6)
    rep.floor("bounded/callees/", 6)
    rep.floor("ok-tested/", 6)
    rep.floor("criterion/", 6)
    rep.floor("failure-carries-iterate/", 6)
    rep.floor("step/", 6)
    rep.floor("eval-count/", 6)
    rep.floor("no-hidden-state/", 6)
    rep.assumptions += ["the user closure is deterministic (then repeated calls return identical results)",
                        "`Ok => within O(tol) of the root` for functions in the basin of quadratic convergence is a theorem about Newton's method with a step-size stopping test; "
                        "the rules decide that every variant uses that test on the step it applies, not the theorem"]
    return {"evaluations_per_iteration": evals}
