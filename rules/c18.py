"""C18 — finite-difference Jacobian is m x n and equals the difference quotients."""
from .pdb import strip, walk, loc, ancestors
from .terms import Ctx, num, show
from .common import (P, F, SIZE, effects, callee_path, call_args, rule_index_kinds, same_dim, callee_param_bounds, GE, effective_guards)
from .guards import for_range as raw_for_range
from .common import for_range_total as for_range

LEVEL = "other"
CX = "complex::Complex<f64>"
JACS = [("matrix::Matrix<f64>::jacobian", False), ("matrix::Matrix<%s>::jacobian_cmplx" % CX, True)]
SETCOL = "matrix::Matrix<T>::set_col"


def is_delta(t, cplx):
    if t == P(2):
        return True
    return cplx and t[0] == "call" and str(t[1]).endswith("Complex<T>::new") and t[2] == P(2) and t[3] == num(0)


def run(rep, pdb, tier):
    sk = []
    for path, cplx in JACS:
        fn = pdb.fn(path)
        short = path.split("::")[-1]
        if fn is None:
            rep.missing("anchor/%s" % short, "Jacobian routine exists", "function %s not found" % path)
            continue
        ctx = Ctx.for_fn(pdb, fn)
        calls = [n for n in walk(fn["body"]) if n.get("k") == "MethodCall" and callee_path(n) == SETCOL]
        loops = [n for n in walk(fn["body"]) if n.get("k") == "For"]
        if len(calls) != 1 or len(loops) != 1:
            rep.bad("columns/%s" % short, "one loop storing one column per iteration with set_col", fn["body"], "set_col calls=%d loops=%d" % (len(calls), len(loops)), where=loc(fn["body"]))
            continue
        c, lp = calls[0], loops[0]
        r = for_range(ctx, lp)
        i = r[0]
        args = [ctx.term(a) for a in call_args(c)]
        jac = args[0]
        n_t = SIZE(P(0))
        f0 = ("callv", P(1), P(0))
        m_t = SIZE(f0)
        # ---- shape
        shape = same_dim(pdb, ctx, c, F(jac, "rows"), m_t) and same_dim(pdb, ctx, c, F(jac, "cols"), n_t)
        tail = fn["body"].get("expr")
        rets = [n for n in walk(fn["body"]) if n.get("k") == "Ret" and not any(a.get("k") == "Closure" for a in ancestors(n))]
        ret = tail is not None and ctx.term(tail) == jac and not rets
        rep.add("shape/%s" % short, "jac = Matrix::new(m, n, 0) with m = len(func(point)) rows and n = len(point) columns, in that order, and jac is what is returned on every path "
                "(no early return hands the job to another scheme for some step sizes or shapes)", shape and ret, rets[0] if rets else c, "m x n=%s returned=%s early returns=%d" % (shape, tail is not None and ctx.term(tail) == jac, len(rets)))
        # ---- columns: full range, column index = loop variable
        full = r[1:5] == (num(0), n_t, False, False)
        rep.add("columns/%s" % short, "for i over the full range 0..n column i is stored with set_col(i, ..)", full and args[1] == i, c, "range %s..%s set_col(%s, ..)" % (show(r[1], ctx), show(r[2], ctx), show(args[1], ctx)))
        # ---- perturb / restore
        effs = [e for e in effects(pdb, ctx, lp["body"]) if e.kind in ("upd", "set")]
        evals = [n for n in walk(lp["body"]) if n.get("k") == "Call" and strip(n["f"]).get("k") == "Local" and ctx.term(n["f"]) == P(1)]
        okp, oke, det, dete = False, False, "state writes=%d evaluations in loop=%d" % (len(effs), len(evals)), ""
        pert = None
        if effs and len(evals) == 1 and len(effs) <= 2:
            up = effs[0]
            st = up.target
            sb = ctx.binds.get(st[1]) if st[0] == "var" else None
            init_point = sb is not None and sb.init is not None and ctx.term(sb.init) == P(0)
            fresh = init_point and any(a is lp for a in ancestors(sb.init))          # `let mut state = point.clone()` inside the loop
            ev = evals[0]
            old = ("idx", st, i)
            # the perturbation: state[i] += d, or state[i] = <old value> + d
            if up.kind == "upd":
                pert_ok = up.op == "+=" and is_delta(up.value, cplx)
            else:
                v = up.value
                pert_ok = v[0] == "op" and v[1] == "+" and ((_is_old(ctx, v[2], st, i, up.node) and is_delta(v[3], cplx)) or (_is_old(ctx, v[3], st, i, up.node) and is_delta(v[2], cplx)))
            pert_ok = pert_ok and up.index == i and _pos(up.node) < _pos(ev) and [ctx.term(a) for a in ev["args"]] == [st]
            pert = up if pert_ok else None
            if len(effs) == 2:
                dn = effs[1]
                same = dn.target == st and dn.index == i and _pos(ev) < _pos(dn.node)
                inverse = dn.kind == "upd" and dn.op == "-=" and is_delta(dn.value, cplx)
                exact = dn.kind == "set" and _is_old(ctx, dn.value, st, i, up.node, direct=False)
                okp = pert_ok and init_point and not fresh and same and (inverse or exact)
                oke = okp and exact
                det = "perturb state[i] by the step=%s state starts as point.clone()=%s restore of the same coordinate after the evaluation=%s" % (pert_ok, init_point, same and (inverse or exact))
                dete = "restored by assigning the value saved before the perturbation" if exact else \
                    "restored by subtracting the step: fl(fl(x + d) - d) differs from x whenever x + d rounds, and the drift stays in the point for every later column" if inverse else "no restore recognised"
            else:
                okp = pert_ok and fresh
                oke = okp
                det = "perturb state[i] by the step=%s on a copy of the point made afresh in every iteration=%s" % (pert_ok, fresh)
                dete = "every iteration starts from a fresh copy of the point"
        rep.add("perturb-restore/%s" % short, "each iteration perturbs coordinate i by delta, evaluates, and restores it (same index) before the next perturbation", okp, lp, det)
        rep.add("restore-exact/%s" % short, "the coordinate is restored to exactly the value it had (saved copy assigned back, or a fresh copy of the point per iteration), not by arithmetic that only approximately undoes the perturbation",
                oke, lp, dete)
        # ---- quotient
        q = args[2]
        okq, det = False, show(q, ctx)
        if q[0] == "op" and q[1] == "/" and is_delta(q[3], cplx) and q[2][0] == "op" and q[2][1] == "-":
            fnew, fbase = q[2][2], q[2][3]
            fnew_d = ctx.def_term(fnew) if fnew[0] == "var" else fnew
            base_ok = fbase == f0
            new_ok = okp and fnew_d is not None and fnew_d[0] == "callv" and fnew_d[1] == P(1) and fnew_d[2] == effs[0].target
            # the base value is evaluated once, before the loop
            outside = [n for n in walk(fn["body"]) if n.get("k") == "Call" and strip(n["f"]).get("k") == "Local" and ctx.term(n["f"]) == P(1) and not any(a is lp for a in ancestors(n))]
            okq = base_ok and new_ok and len(outside) == 1 and _pos(outside[0]) < _pos(lp)
            det = "(f_new - f)/delta: base f = func(point) evaluated once before the loop=%s new value positive=%s" % (base_ok and len(outside) == 1, new_ok)
        rep.add("quotient/%s" % short, "the stored column is (f_new - f) / delta: new value positive, base value negative, divisor the perturbation step", okq, c, det)
        sk.append((shape and ret, full and args[1] == i, okp, oke, okq))
    # ---- callee: the column setter bounds its index by cols
    sc = pdb.fn(SETCOL)
    if sc is None:
        rep.missing("columns/callee", "set_col exists", "not found")
    else:
        eff = effective_guards(pdb, sc)
        rep.add("columns/callee/%s" % SETCOL, "the column setter used to store each column range-checks its index against the number of columns (so n > m and n < m both work)",
                GE(P(1), F(P(0), "cols")) in eff, sc["body"], "", where=loc(sc["body"]))
    rep.add("siblings", "the real and complex Jacobians satisfy the same rule instances", len(sk) == 2 and sk[0] == sk[1], None, "%s" % (sk,), where="src/matrix/functions.rs")
    fns = [pdb.fn(p) for p, _ in JACS if pdb.fn(p) is not None]
    n_sites = rule_index_kinds(rep, pdb, fns)
    rep.floor("shape/", 2)
    rep.floor("columns/", 3)
    rep.floor("perturb-restore/", 2)
    rep.floor("restore-exact/", 2)
    rep.floor("quotient/", 2)
    rep.assumptions += ["exactness for affine maps on dyadic data and O(delta) accuracy are numerical and not decided statically"]
    return {"index_sites": n_sites}


def _is_old(ctx, t, st, i, before, direct=True):
    """t is the value state[i] (or point[i]) had before the perturbation `before`: a let bound to it earlier, point[i],
    or (direct, i.e. inside the perturbing statement itself) state[i]."""
    if t == ("idx", P(0), i) or (direct and t == ("idx", st, i)):
        return True
    if t[0] == "var":
        b = ctx.binds.get(t[1])
        d = ctx.def_term(t)
        if d is not None and b is not None and not b.mut and _pos(b.init) < _pos(before):
            return _is_old(ctx, d, st, i, before, True)
    return False


def _pos(n):
    sp = n.get("sp")
    return (sp[0], sp[1]) if sp else (0, 0)
