"""C02 — determinant and inverse: sign bookkeeping, diagonal product, zero pivots, operand left intact."""
from .pdb import strip, walk, loc, ancestors
from .terms import Ctx, num, show, lin_add
from .common import return_paths, local_ties, rewrite_eqs
from .common import (P, F, effects, callee_path, call_args, rule_index_kinds, rule_no_unsafe, rule_freeze, receiver_mode, find_argmax,
                     reachable_fns, facts_x, in_macro, is_zero_term, _resolve, loop_var_ranges)
from .guards import facts
from .guards import for_range as raw_for_range
from .common import for_range_total as for_range

LEVEL = "other"
M = "matrix::Matrix<T>"
ROWS, COLS = F(P(0), "rows"), F(P(0), "cols")


def nonzero_fact(fs, t):
    """Is `t != zero` (or zero < t) among the facts?"""
    for f in fs:
        if f[0] != "cmp":
            continue
        a, b = f[2], f[3]
        if f[1] == "!=" and ((a == t and is_zero_term(b)) or (b == t and is_zero_term(a))):
            return True
        if f[1] == "<" and is_zero_term(a) and b == t:
            return True
    return False


def run(rep, pdb, tier):
    unsafe_free = rule_no_unsafe(rep, pdb)
    rule_freeze(rep, pdb, ["matrix::Matrix"])
    for name in ("determinant", "inverse"):
        fn = pdb.fn("%s::%s" % (M, name))
        if fn is None:
            rep.missing("intact/%s" % name, "function exists", "not found")
            continue
        rm = receiver_mode(fn)
        ctx = Ctx.for_fn(pdb, fn)
        # the in-place factorisation is applied to a clone
        lucalls = [n for n in walk(fn["body"]) if n.get("k") == "MethodCall" and callee_path(n) == "%s::lu_decomp_in_place" % M]
        on_clone = len(lucalls) == 1 and ctx.term(lucalls[0]["recv"])[0] == "var" and ctx.def_term(ctx.term(lucalls[0]["recv"])) == P(0)
        rep.add("intact/%s" % name, "%s takes &self (Matrix is Freeze, no unsafe in the crate) and factorises a clone: self cannot change" % name,
                rm == "&self" and unsafe_free and on_clone, fn["body"], "receiver=%s works on clone=%s" % (rm, on_clone), where=loc(fn["body"]), proof=True)
    lu = pdb.fn("%s::lu_decomp_in_place" % M)
    det = pdb.fn("%s::determinant" % M)
    inv = pdb.fn("%s::inverse" % M)
    if lu is None or det is None or inv is None:
        rep.missing("anchor", "lu_decomp_in_place / determinant / inverse exist", "missing")
        return {}
    ctx = Ctx.for_fn(pdb, lu)
    # ---- exchange counter
    effs = effects(pdb, ctx)
    tail = lu["body"].get("expr")
    tt = ctx.term(tail) if tail is not None else None
    cnt = tt[1] if tt is not None and tt[0] == "tup" and len(tt) == 3 else None
    incs = [e for e in effs if e.target == cnt and e.kind in ("assign", "assignop")] if cnt else []
    sws = [n for n in walk(lu["body"]) if n.get("k") == "MethodCall" and callee_path(n) == "%s::swap_rows" % M and ctx.term(n["recv"]) == P(0)]
    ok, dets = cnt is not None and len(incs) == 1 and len(sws) == 1, ""
    if ok:
        inc = incs[0]
        b = ctx.binds.get(cnt[1]) if cnt[0] == "var" else None
        init0 = b is not None and b.init is not None and ctx.term(b.init) == num(0)
        same_ctx = [a for a in ancestors(inc.node) if a.get("k") in ("If", "For", "While")] == [a for a in ancestors(sws[0]) if a.get("k") in ("If", "For", "While")]
        ok = inc.kind == "assignop" and inc.op == "+=" and inc.value == num(1) and init0 and same_ctx
        dets = "counter starts at 0=%s incremented by exactly 1=%s in the guard context of the matrix row exchange=%s" % (init0, inc.op == "+=" and inc.value == num(1), same_ctx)
    rep.add("exchange-counter", "the counter returned as .0 starts at 0 and is incremented by exactly 1 exactly where the matrix rows are exchanged, nowhere else", ok,
            incs[0].node if incs else lu["body"], dets)
    # ---- zero pivot (D)
    outer = [n for n in walk(lu["body"]) if n.get("k") == "For"]
    am = None
    for lp in outer:
        am = find_argmax(pdb, ctx, lp)
        if am is not None:
            break
    divs = [e for e in effs if e.kind == "upd" and e.op == "/=" and e.target == P(0)]
    rule = "every element division reachable from determinant is dominated by a test that the pivot magnitude found by the search differs from zero (singular input gives det = 0, not 0/0)"
    if am is None or not divs:
        rep.bad("zero-pivot/lu_decomp_in_place", rule, lu["body"], "pivot search or division not found", where=loc(lu["body"]))
    else:
        for e in divs:
            fs = facts_x(pdb, ctx, e.node)
            g = nonzero_fact(fs, am.best)
            rep.add("zero-pivot/lu_decomp_in_place", rule, g, e.node,
                    "division by %s: guard `%s != zero` dominates=%s" % (show(e.value, ctx), show(am.best, ctx), g))
    # the pivot search feeding the exchange counter and the zero-pivot test: an arg-max over magnitudes whose
    # accumulators are re-initialised for every column
    from .c01 import check_argmax
    outer0 = [n for n in walk(lu["body"]) if n.get("k") == "For"][0]
    from .guards import for_range as _raw
    r0 = _raw(ctx, outer0)
    check_argmax(rep, pdb, lu, "pivot-search", r0[0], ROWS, 1, lambda c: r0[0])
    from .c01 import check_lu_elimination
    check_lu_elimination(rep, pdb, lu, "elimination")
    # other divisions reachable from determinant (none expected besides lu's)
    seen, _ = reachable_fns(pdb, det)
    others = []
    for p, f in seen.items():
        if p == lu["path"] or f.get("impl_trait") in ("std::ops::Index", "std::ops::IndexMut"):
            continue
        for n in walk(f["body"]):
            if n.get("k") in ("Binary", "AssignOp") and n.get("op") in ("/", "/=") and not in_macro(n):
                others.append("%s at %s" % (p, loc(n)))
    rep.add("zero-pivot/other-divisions", "no other division is reachable from determinant", not others, det["body"], "%s" % others, where=loc(det["body"]))
    # ---- determinant: diag product and parity
    dctx = Ctx.for_fn(pdb, det)
    deffs = effects(pdb, dctx)
    prods = [e for e in deffs if e.kind == "assignop" and e.op == "*=" and e.loops]
    okp, dets = len(prods) == 1, ""
    if okp:
        e = prods[0]
        r = for_range(dctx, e.loops[0])
        acc = e.target
        b = dctx.binds.get(acc[1]) if acc[0] == "var" else None
        one = b is not None and b.init is not None and dctx.term(b.init)[0] == "call" and str(dctx.term(b.init)[1]).endswith("One::one")
        v = e.value
        lucall = [n for n in walk(det["body"]) if n.get("k") == "MethodCall" and callee_path(n) == "%s::lu_decomp_in_place" % M]
        tmp = dctx.term(lucall[0]["recv"]) if lucall else None
        diag = v[0] == "idx" and v[1] == tmp and r is not None and v[2] == ("tup", r[0], r[0])
        tie_d = dict(local_ties(pdb, dctx))         # temp = self.clone(): temp.rows is self.rows (the factorisation writes no dimension)
        full = r is not None and r[1] == num(0) and rewrite_eqs(r[2], tie_d) == ROWS and not r[3]
        after = bool(lucall) and _pos(lucall[0]) < _pos(e.node)
        okp = one and diag and full and after
        dets = "starts at one=%s multiplies temp[(i,i)]=%s i in 0..rows=%s after the factorisation=%s" % (one, diag, full, after)
    rep.add("diag-product", "det starts at One::one() and is multiplied by temp[(i,i)] for i over the full range 0..rows of the factorised clone", okp, prods[0].node if prods else det["body"], dets)
    lucall = [n for n in walk(det["body"]) if n.get("k") == "MethodCall" and callee_path(n) == "%s::lu_decomp_in_place" % M]
    piv = ("field", dctx.term(lucall[0]), "0") if lucall else None
    okpar, dets, tl = len(prods) == 1 and piv is not None, "", None
    if okpar:
        acc = prods[0].target
        par = ("op", "%", piv, num(2))
        paths = return_paths(dctx)
        seen = set()
        dd = []
        for fs, val, node in paths:
            tl = tl or node
            even = any(f[0] == "cmp" and ((f[1] == "==" and {f[2], f[3]} == {par, num(0)}) or (f[1] == "!=" and {f[2], f[3]} == {par, num(1)})) for f in fs)
            odd = any(f[0] == "cmp" and ((f[1] == "!=" and {f[2], f[3]} == {par, num(0)}) or (f[1] == "==" and {f[2], f[3]} == {par, num(1)})) for f in fs)
            good = (even and not odd and val == acc) or (odd and not even and val == ("neg", acc))
            seen.add("even" if even else "odd" if odd else "?")
            dd.append("%s -> %s%s" % ("even" if even else "odd" if odd else "no parity fact", show(val, dctx), "" if good else " (WRONG)"))
            okpar = okpar and good
        okpar = okpar and seen == {"even", "odd"}
        dets = "; ".join(dd)
    rep.add("parity", "determinant returns det when the exchange count is even and -det when it is odd (pairing by value, not text order)", okpar, tl or det["body"], dets)
    # ---- inverse shape
    ictx = Ctx.for_fn(pdb, inv)
    ieffs = effects(pdb, ictx)
    lucall = [n for n in walk(inv["body"]) if n.get("k") == "MethodCall" and callee_path(n) == "%s::lu_decomp_in_place" % M]
    subs = [e for e in ieffs if e.kind == "upd" and e.op == "-="]
    dvs = [e for e in ieffs if e.kind == "upd" and e.op == "/="]
    oki, dets = len(lucall) == 1 and len(subs) == 2 and len(dvs) == 1, "lu calls=%d substitution updates=%d divisions=%d" % (len(lucall), len(subs), len(dvs))
    if oki:
        lut = ictx.term(lucall[0]["recv"])
        invt = subs[0].target
        invdef = None
        for v_, b_ in ictx.binds.items():
            if ("var", v_) == invt and b_.init is not None:
                invdef = (ictx.term(b_.init), b_.proj)
        starts_perm = invdef is not None and invdef[0] == ictx.term(lucall[0]) and invdef[1] == (1,)
        fw, bw = subs[0], subs[1]

        tie = dict(local_ties(pdb, ictx))       # lu = self.clone(): lu.rows is self.rows (the factorisation never writes dimensions)

        def N(t):
            return rewrite_eqs(t, tie)

        def upd_ok(e, inner_lo_of_i, inner_hi_of_i, rev, skip_first=False):
            rj, ri, rk = [for_range(ictx, l) for l in e.loops]
            j, i, k = rj[0], ri[0], rk[0]
            # the forward sweep may start at row 1: the iteration i = 0 has the empty inner range 0..0
            lo_ok = ri[1] == num(0) or (skip_first and ri[1] == num(1) and not ri[4])
            return ((rj[1], N(rj[2]), rj[3]) == (num(0), ROWS, False) and lo_ok and N(ri[2]) == ROWS and ri[4] == rev and rk[1] == inner_lo_of_i(i) and N(rk[2]) == inner_hi_of_i(i) and not rk[3]
                    and e.target == invt and e.index == ("tup", i, j) and e.value == ("op", "*", ("idx", lut, ("tup", i, k)), ("idx", invt, ("tup", k, j)))), (i, j)
        okf, _ = upd_ok(fw, lambda i: num(0), lambda i: i, False, skip_first=True)
        okb, (bi, bj) = upd_ok(bw, lambda i: lin_add(i, num(1)), lambda i: ROWS, True)
        dv = dvs[0]
        okd = dv.target == invt and dv.index == ("tup", bi, bj) and dv.value == ("idx", lut, ("tup", bi, bi)) and dv.loops == bw.loops[:2]
        tail = inv["body"].get("expr")
        ret = tail is not None and ictx.term(tail) == invt
        oki = starts_perm and okf and okb and okd and ret and ictx.def_term(lut) == P(0)
        dets = "starts from the permutation (.1)=%s forward 0..i=%s backward rev, i+1..rows=%s divide by lu[(i,i)]=%s returns inv=%s" % (starts_perm, okf, okb, okd, ret)
    rep.add("inverse-shape", "inverse solves L U X = P column by column: forward sweep 0..i, backward sweep over (0..rows).rev() with inner i+1..rows, then division by lu[(i,i)]", oki, inv["body"], dets, where=loc(inv["body"]))
    n_sites = rule_index_kinds(rep, pdb, [lu, det, inv])
    from .c01 import check_early_returns
    check_early_returns(rep, pdb, "early-return", names=("lu_decomp_in_place", "determinant", "inverse"))
    rep.floor("early-return/", 3)
    rep.floor("intact/", 2)
    rep.floor("zero-pivot/", 2)
    rep.floor("index-kinds/", 20)
    rep.assumptions += ["decides sign bookkeeping, diagonal product, zero-pivot guarding, substitution shape and that self cannot change; equality with the exact determinant / A*inv(A)=I for every matrix is not decided statically"]
    return {"index_sites": n_sites}


def _pos(n):
    sp = n.get("sp")
    return (sp[0], sp[1]) if sp else (0, 0)
