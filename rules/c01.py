"""C01 — dense direct solvers: structure of partial pivoting, elimination and substitution."""
from .pdb import strip, walk, loc, ancestors
from .terms import Ctx, num, show, lin_add, lin_sub, base_ty
from .common import value_before, index_sequence
from .common import (P, F, SIZE, effects, callee_path, call_args, rule_index_kinds, find_argmax, ordered_cmps_on_elements,
                     reachable_fns, elem_ref, loop_var_ranges, is_abs_term, in_macro, same_dim, _resolve)
from .guards import facts
from .common import is_zero_term
from .guards import for_range as raw_for_range
from .common import for_range_total as for_range

LEVEL = "other"
M = "matrix::Matrix<T>"
ROWS, COLS = F(P(0), "rows"), F(P(0), "cols")


def fn_or_missing(rep, pdb, path, key):
    fn = pdb.fn(path)
    if fn is None:
        rep.missing(key, "anchor function exists", "function %s not found" % path)
    return fn


def rule_magnitude(rep, pdb, entry_paths, key="magnitude"):
    """Every ordered comparison on element values reachable from the entry points compares magnitudes."""
    seen = {}
    for p in entry_paths:
        fn = pdb.fn(p)
        if fn is None:
            rep.missing("%s/%s" % (key, p), "entry point exists", "function %s not found" % p)
            continue
        s, _ = reachable_fns(pdb, fn)
        seen.update(s)
    n = 0
    for p, f in sorted(seen.items()):
        if f.get("impl_trait") in ("traits::Signed", "std::cmp::PartialOrd"):
            continue    # abs / partial_cmp themselves
        ctx = Ctx.for_fn(pdb, f)
        for c in ordered_cmps_on_elements(pdb, f):
            n += 1
            L, R = _resolve(ctx, ctx.term(c["l"])), _resolve(ctx, ctx.term(c["r"]))

            def mag(t, node):
                if is_abs_term(t):
                    return True
                if t[0] == "call" and str(t[1]).endswith("Zero::zero"):
                    return True
                if t[0] == "var":
                    from .common import _reaching_values
                    vals = [_resolve(ctx, v) for v in _reaching_values(ctx, t, at=c)]
                    return bool(vals) and all(is_abs_term(v) or (v[0] == "call" and str(v[1]).endswith("Zero::zero")) or v == num(0) for v in vals)
                return False
            ok = mag(L, c["l"]) and mag(R, c["r"])
            rep.add("%s/%s" % (key, p), "an ordered comparison of element values compares magnitudes (both operands abs-derived or zero)", ok, c,
                    "%s %s %s" % (show(L, ctx), c["op"], show(R, ctx)))
    return n


def check_argmax(rep, pdb, fn, key, want_lo, want_hi, row_pos, col_term, want_idx=True):
    """The pivot search of `fn`: orientation, assigned values, search range and the matrix entry inspected."""
    ctx = Ctx.for_fn(pdb, fn)
    ams = []
    for lp in [n for n in walk(fn["body"]) if n.get("k") == "For"]:
        am = find_argmax(pdb, ctx, lp)
        if am is not None:
            ams.append(am)
    rule_a = "the pivot search is an arg-max: in `if cur > best { best = cur; idx = v }` best is on the smaller side, gets the compared value, idx gets the loop variable"
    if len(ams) != 1:
        rep.bad("argmax/%s" % key, rule_a, fn["body"], "found %d arg-max loops" % len(ams), where=loc(fn["body"]))
        return None
    am = ams[0]
    cond_above = [a for a in ancestors(am.loop) if a.get("k") in ("If", "Match")]
    ok = am.orient_ok and am.best_gets_cur and (not want_idx or (am.idx_var is not None and am.idx_val == am.var)) and am.magnitude_ok and not cond_above
    rep.add("argmax/%s" % key, rule_a + "; candidates are magnitudes; the search is executed unconditionally (no fast path skips it)", ok, am.ifnode,
            am.detail + ("; the search is skipped under a condition at %s" % loc(cond_above[0]) if cond_above else ""))
    # search range and inspected entry
    cur = _resolve(ctx, am.cur)
    ent = None
    for n in walk(am.loop["body"]):
        if n.get("k") == "Index" and not in_macro(n):
            r = elem_ref(pdb, ctx, n)
            if r is not None and len(r) == 3:
                ent = r
                break
    lo_ok = am.lo == want_lo(ctx) if callable(want_lo) else am.lo == want_lo
    hi_ok = am.hi == want_hi
    ent_ok = ent is not None and ent[row_pos] == am.var and ent[3 - row_pos] == col_term(ctx)
    rep.add("search-range/%s" % key, "the search runs from the diagonal row to the last row over the entries of the column being eliminated",
            lo_ok and hi_ok and ent_ok, am.loop, "range %s..%s entry (%s)" % (show(am.lo, ctx), show(am.hi, ctx), ", ".join(show(x, ctx) for x in ent[1:]) if ent else None))
    return am


def check_lu_elimination(rep, pdb, lu, key):
    """Doolittle step of lu_decomp_in_place: total loops, multiplier a_ji/a_ii stored at (j,i), row update over i+1..rows."""
    ctx = Ctx.for_fn(pdb, lu)
    outer = [n for n in walk(lu["body"]) if n.get("k") == "For"][0]
    ro = raw_for_range(ctx, outer)
    i = ro[0]
    effs = effects(pdb, ctx)
    divs = [e for e in effs if e.kind == "upd" and e.op == "/=" and e.target == P(0)]
    subs = [e for e in effs if e.kind == "upd" and e.op == "-=" and e.target == P(0)]
    ok, det = len(divs) == 1 and len(subs) == 1, "multiplier stores=%d row updates=%d" % (len(divs), len(subs))
    if ok:
        dv, su = divs[0], subs[0]
        rj = for_range(ctx, dv.loops[1]) if len(dv.loops) > 1 else None
        rk = for_range(ctx, su.loops[2]) if len(su.loops) > 2 else None
        j = rj[0] if rj else None
        k = rk[0] if rk else None
        okd = dv.index == ("tup", j, i) and dv.value == ("idx", P(0), ("tup", i, i))
        oks = su.index == ("tup", j, k) and su.value == ("op", "*", ("idx", P(0), ("tup", j, i)), ("idx", P(0), ("tup", i, k)))
        okr = ro[1] == num(0) and ro[2] == ROWS and rj is not None and rj[1] == lin_add(i, num(1)) and rj[2] == ROWS and rk is not None and rk[1] == lin_add(i, num(1)) and rk[2] == ROWS
        ok = okd and oks and okr
        det = "l_ji = a_ji / a_ii=%s a_jk -= l_ji*a_ik=%s ranges i:0..rows, j,k:i+1..rows with no early exit=%s" % (okd, oks, okr)
    rep.add(key, "Doolittle step: the multiplier a_ji/a_ii (pivot is the divisor) is stored at (j,i) and used for the row update over columns i+1..rows, for EVERY row j in i+1..rows",
            ok, lu["body"], det, where=loc(lu["body"]))


def check_gauss(rep, pdb, key):
    """Gaussian elimination with partial pivoting: one multiplier for matrix row and rhs entry, total loops."""
    gw = fn_or_missing(rep, pdb, "%s::gauss_with_pivot" % M, "anchor/" + key)
    if gw is not None:
        ctx = Ctx.for_fn(pdb, gw)
        effs = effects(pdb, ctx)
        mups = [e for e in effs if e.kind == "upd" and e.op == "-=" and e.target == P(0)]
        xups = [e for e in effs if e.kind == "upd" and e.op == "-=" and e.target == P(1)]
        ok, det = len(mups) == 1 and len(xups) == 1, "matrix updates=%d rhs updates=%d" % (len(mups), len(xups))
        if ok:
            mu, xu = mups[0], xups[0]
            ranges = loop_var_ranges(ctx, mu.loops)
            outer = for_range(ctx, mu.loops[0])
            k = outer[0]
            pivcalls = [n for n in walk(gw["body"]) if n.get("k") == "MethodCall" and callee_path(n) == "%s::partial_pivot" % M]
            piv_ok = len(pivcalls) == 1 and [ctx.term(a) for a in call_args(pivcalls[0])] == [P(0), P(1), k] and \
                [a for a in ancestors(pivcalls[0]) if a.get("k") == "For"] == [mu.loops[0]]
            if not pivcalls and pdb.fn("%s::partial_pivot" % M) is None:
                # the pivot step written out in the k loop: search (k, k) then both exchanges, before the row loop
                inl = [n for n in walk(gw["body"]) if n.get("k") == "MethodCall" and callee_path(n) in ("%s::max_abs_in_column" % M, "%s::swap_rows" % M, "vector::Vector<T>::swap")]
                piv_ok = len(inl) == 3 and all([a for a in ancestors(n) if a.get("k") in ("For", "If", "While")] == [mu.loops[0]] and _pos(n) < _pos(mu.loops[1]) for n in inl)
            i = for_range(ctx, mu.loops[1])[0]
            j = for_range(ctx, mu.loops[2])[0] if len(mu.loops) > 2 else None
            mv, xv = mu.value, xu.value
            # multiplier: one opaque local used in both updates, defined as self[(i,k)] / self[(k,k)]
            m1 = mv[2] if mv[0] == "op" and mv[1] == "*" else None
            m2 = xv[2] if xv[0] == "op" and xv[1] == "*" else None
            mdef = _resolve(ctx, m1) if m1 else None
            mdef2 = _resolve(ctx, m2) if m2 else None
            mult_ok = m1 is not None and (m1 == m2 or mdef == mdef2) and mdef == ("op", "/", ("idx", P(0), ("tup", i, k)), ("idx", P(0), ("tup", k, k)))
            rows_ok = mu.index == ("tup", i, j) and mv[3] == ("idx", P(0), ("tup", k, j)) and xu.index == i and xv[3] == ("idx", P(1), k)
            rng_ok = ranges.get(k, (None, None))[:2] == (num(0), lin_add(ROWS, num(-1))) and ranges.get(i, (None, None))[:2] == (lin_add(k, num(1)), ROWS) and \
                ranges.get(j, (None, None))[:2] == (k, ROWS)
            ok = piv_ok and mult_ok and rows_ok and rng_ok
            det = "pivot each step=%s multiplier=%s (same in both updates, pivot is the divisor)=%s row ops pair=%s ranges k:0..rows-1,i:k+1..rows,j:k..rows=%s" % (
                piv_ok, show(mdef, ctx) if mdef else None, mult_ok, rows_ok, rng_ok)
        rep.add(key, "elimination applies one multiplier m = a_ik/a_kk to matrix row i (columns k..) and to x[i], for i in k+1..rows, after pivoting at each k in 0..rows-1",
                ok, gw["body"], det, where=loc(gw["body"]))


def _shape_term(ctx, t):
    """rows / cols / lengths of the arguments, integer parameters, literals and arithmetic over them"""
    if not isinstance(t, tuple) or not t:
        return False
    k = t[0]
    if k == "num":
        return True
    if k == "field":
        return t[2] in ("rows", "cols", "n", "m1", "m2") and t[1][0] == "param"
    if k == "len":
        return True
    if k == "param":
        b = [b_ for b_ in ctx.binds.values() if b_.kind == "param" and b_.idx == t[1]]
        return bool(b) and base_ty(b[0].ty) in ("usize", "isize", "u32", "i32", "u64", "i64")
    if k == "var":
        b = ctx.binds.get(t[1])
        return b is not None and base_ty(getattr(b, "ty", None) or "") in ("usize", "isize", "u32", "i32", "u64", "i64")      # a loop index / integer local
    if k == "lin":
        return all(_shape_term(ctx, x[0]) for x in t[2])
    if k == "op":
        return all(_shape_term(ctx, x) for x in t[1:] if isinstance(x, tuple))
    if k == "call" and str(t[1]).rsplit("::", 1)[-1] in ("rows", "cols", "size", "len"):
        return True
    return False


def _elementary(ctx, t):
    """arithmetic over elements, locals and literals only: no call of a function of the crate (a determinant, a norm, an estimate ..)"""
    if not isinstance(t, tuple) or not t:
        return True
    if t[0] == "call":
        if ctx.pdb.fn(str(t[1])) is not None or "::" in str(t[1]) and not str(t[1]).startswith(("f64::", "std::", "core::", "traits::")):
            return False
    return all(_elementary(ctx, x) for x in t[1:] if isinstance(x, tuple))


def rule_rejects_only_shapes(rep, pdb, fns, floor=2):
    """The solvers give an answer for EVERY nonsingular system: a panic of their own may depend on the shapes of the arguments only."""
    rule = ("every panic raised by the direct solvers and their helpers is guarded by comparisons of shapes (rows, cols, lengths) only: a guard that looks at element "
            "values - a determinant, a norm, a condition estimate, a pivot threshold - rejects systems the property quantifies over (e.g. a nonsingular system whose "
            "determinant underflows)")
    n = 0
    for f in fns:
        ctx = Ctx.for_fn(pdb, f)
        k_ = 0
        for node in walk(f["body"]):
            # a panic site: the outermost expression of type `!` that is not a return / break / continue (panic!, assert!, assert_eq!, unreachable!, expect ...)
            if node.get("ty") != "!" or node.get("k") in ("Ret", "Break", "Continue", "Loop") or any(a.get("ty") == "!" for a in ancestors(node)):
                continue
            if any(x.get("k") in ("Ret", "Break", "Continue") for x in walk(node)):
                continue
            fs = facts(ctx, node)
            def atom_ok(a):
                if a[0] in ("cmp", "ncmp"):
                    if a[1] in ("==", "!=") and (is_zero_term(a[2]) or is_zero_term(a[3])):
                        v = a[3] if is_zero_term(a[2]) else a[2]
                        while v[0] == "call" and str(v[1]).rsplit("::", 1)[-1] == "abs" and len(v) == 3:
                            v = v[2]
                        if v[0] in ("idx", "var") or _elementary(ctx, v):
                            return True     # an exactly-zero matrix element / pivot (local, or its defining arithmetic) of the elimination itself: the system is singular
                    return _shape_term(ctx, a[2]) and _shape_term(ctx, a[3])
                if a[0] == "or":
                    return all(atom_ok(x) for alt in a[1] for x in alt)
                return False
            bad = [a for a in fs if not atom_ok(a)]
            k_ += 1
            n += 1
            rep.add("rejects-only-shapes/%s#%d" % (f.get("name"), k_), rule, not bad, node,
                    "guards: %d, about values: %s" % (len(fs), [show(a[2], ctx) + " " + str(a[1]) + " " + show(a[3], ctx) if a[0] in ("cmp", "ncmp") else str(a[0]) for a in bad][:3]))
    rep.floor("rejects-only-shapes/", floor)


def run(rep, pdb, tier):
    solve = ("max_abs_in_column", "backsolve", "partial_pivot", "gauss_with_pivot", "solve_basic", "lu_decomp_in_place", "solve_lu", "determinant", "inverse")
    from .common import self_adt
    solve_fns = [f for f in pdb.local_fns() if f["file"] == "src/matrix/solve.rs" or (self_adt(f) == "matrix::Matrix" and f.get("name") in solve)]
    n_sites = rule_index_kinds(rep, pdb, solve_fns)
    rule_rejects_only_shapes(rep, pdb, [f for f in solve_fns if f.get("name") in ("max_abs_in_column", "backsolve", "partial_pivot", "gauss_with_pivot", "solve_basic",
                                                                              "lu_decomp_in_place", "solve_lu")])
    n_cmp = rule_magnitude(rep, pdb, ["%s::solve_basic" % M, "%s::solve_lu" % M])
    # ---- Gaussian elimination
    mac = pdb.fn("%s::max_abs_in_column" % M)
    inline_am = None
    if mac is not None:
        check_argmax(rep, pdb, mac, "max_abs_in_column", P(2), ROWS, 1, lambda c: P(1))
    else:
        # the search written out where it is used: in partial_pivot(x, k), searching rows k.. of column k
        pp0 = pdb.fn("%s::partial_pivot" % M)
        if pp0 is None:
            rep.missing("anchor/max_abs_in_column", "the pivot search exists (as max_abs_in_column, or written out in partial_pivot)", "neither found")
        else:
            inline_am = check_argmax(rep, pdb, pp0, "max_abs_in_column", P(2), ROWS, 1, lambda c: P(2))
    # the pivot step: in partial_pivot(x, k), or written out in the elimination loop of gauss_with_pivot
    pp = pdb.fn("%s::partial_pivot" % M)
    host, kterm = (pp, P(2)) if pp is not None else (pdb.fn("%s::gauss_with_pivot" % M), None)
    if host is None:
        rep.missing("anchor/partial_pivot", "the pivot step (partial_pivot, or inline in gauss_with_pivot) exists", "neither function found")
    else:
        ctx = Ctx.for_fn(pdb, host)
        calls = {}
        for n in walk(host["body"]):
            if n.get("k") == "MethodCall":
                calls.setdefault(callee_path(n), []).append(n)
        one = lambda p_: calls.get(p_)[0] if len(calls.get(p_, [])) == 1 else None
        srch, sw, xs = one("%s::max_abs_in_column" % M), one("%s::swap_rows" % M), one("vector::Vector<T>::swap")
        if kterm is None and srch is not None:
            lps = [a_ for a_ in ancestors(srch) if a_.get("k") == "For"]
            r_ = for_range(ctx, lps[-1]) if lps else None
            kterm = r_[0] if r_ else None
        where_ = "partial_pivot" if pp is not None else "gauss_with_pivot"
        ok_s = srch is not None and kterm is not None and [ctx.term(a) for a in call_args(srch)] == [P(0), kterm, kterm]
        if srch is None and inline_am is not None and pp is not None:
            # the inlined search: its range and column were decided above against k; what remains is that it is unconditional
            srch = inline_am.loop
            ok_s = True
        # the pivot step is taken at every elimination step: neither the search nor the call of partial_pivot is conditional
        gw_ = pdb.fn("%s::gauss_with_pivot" % M)
        ppcalls = [n for n in walk(gw_["body"]) if n.get("k") == "MethodCall" and callee_path(n) == "%s::partial_pivot" % M] if gw_ is not None and pp is not None else []
        cond_ = [a_ for n_ in ([srch] if srch is not None else []) + ppcalls for a_ in ancestors(n_) if a_.get("k") in ("If", "Match")]
        ok_s = ok_s and not cond_
        rep.add("search-range/partial_pivot", "the column searched and the first row searched are both the elimination index k, and the pivot step is unconditional", ok_s, srch or host["body"],
                "in %s: max_abs_in_column args=%s" % (where_, [show(ctx.term(a), ctx) for a in call_args(srch)] if srch is not None and srch.get("k") == "MethodCall" else "search written out in place"))
        ok_x = sw is not None and xs is not None and srch is not None
        det = ""
        if ok_x:
            a = [ctx.term(x) for x in call_args(sw)]
            b = [ctx.term(x) for x in call_args(xs)]
            piv = ctx.term(srch) if inline_am is None else inline_am.idx_var
            same_ctx = [x for x in ancestors(sw) if x.get("k") in ("For", "If", "While")] == [x for x in ancestors(xs) if x.get("k") in ("For", "If", "While")] == \
                [x for x in ancestors(srch) if x.get("k") in ("For", "If", "While")]
            ok_x = a[0] == P(0) and b[0] == P(1) and set(a[1:]) == set(b[1:]) == {piv, kterm} and same_ctx and _pos(srch) < min(_pos(sw), _pos(xs))
            det = "in %s: swap_rows(%s) x.swap(%s)" % (where_, ", ".join(show(t, ctx) for t in a[1:]), ", ".join(show(t, ctx) for t in b[1:]))
        rep.add("exchange-pair/partial_pivot", "the matrix row exchange and the right-hand-side exchange use the same index pair {pivot, k}, in the same context, after the search", ok_x, sw or host["body"], det)
    check_gauss(rep, pdb, "row-op-pair/gauss_with_pivot")
    bs = fn_or_missing(rep, pdb, "%s::backsolve" % M, "anchor/backsolve")
    if bs is not None:
        ctx = Ctx.for_fn(pdb, bs)
        effs = effects(pdb, ctx)
        last = lin_add(ROWS, num(-1))
        first = [e for e in effs if e.kind == "set" and not e.loops]
        subs = [e for e in effs if e.kind == "upd" and e.op == "-="]
        divs = [e for e in effs if e.kind == "upd" and e.op == "/="]
        ok, det = len(first) == 1 and len(subs) == 1 and len(divs) == 1, ""
        if ok:
            f0, su, dv = first[0], subs[0], divs[0]
            ok0 = f0.target == P(1) and f0.index == last and f0.value == ("op", "/", ("idx", P(1), last), ("idx", P(0), ("tup", last, last)))
            o = for_range(ctx, su.loops[0])
            inn = for_range(ctx, su.loops[1]) if len(su.loops) > 1 else None
            k = su.index
            # k = rows - n, n in 2..rows+1 : k runs rows-2 down to 0
            seq = index_sequence(o, k)
            okk = seq is not None and seq == (lin_add(ROWS, num(-2)), num(0), -1)
            okj = inn is not None and inn[1] == lin_add(k, num(1)) and inn[2] == ROWS and not inn[3]
            j = inn[0] if inn else None
            oks = su.target == P(1) and su.value == ("op", "*", ("idx", P(0), ("tup", k, j)), ("idx", P(1), j))
            okd = dv.target == P(1) and dv.index == k and dv.value == ("idx", P(0), ("tup", k, k)) and dv.loops == su.loops[:1]
            ok = ok0 and okk and okj and oks and okd
            det = "last row first=%s outer k descending rows-2..0=%s inner k+1..rows=%s subtract a_kj*x_j=%s divide by a_kk=%s" % (ok0, okk, okj, oks, okd)
        rep.add("sweep-order/backsolve", "back substitution: last entry first, then k descending; inner range k+1..rows reads only finalised entries; then division by the diagonal a_kk",
                ok, bs["body"], det, where=loc(bs["body"]))
    sb = fn_or_missing(rep, pdb, "%s::solve_basic" % M, "anchor/solve_basic")
    if sb is not None:
        ctx = Ctx.for_fn(pdb, sb)
        calls = [n for n in walk(sb["body"]) if n.get("k") == "MethodCall" and callee_path(n) in ("%s::gauss_with_pivot" % M, "%s::backsolve" % M)]
        tail = sb["body"].get("expr")
        xt = ctx.term(tail) if tail is not None else None
        xb = ctx.binds.get(xt[1]) if xt is not None and xt[0] == "var" else None
        ok = [callee_path(c) for c in calls] == ["%s::gauss_with_pivot" % M, "%s::backsolve" % M] and xb is not None and xb.init is not None and \
            ctx.term(xb.init) == P(1) and all([ctx.term(a) for a in call_args(c)] == [P(0), xt] for c in calls) and not ctx.assigns.get(xt[1])
        rep.add("length/solve_basic", "the returned vector is b.clone() passed through elimination then back substitution in place (length rows)", ok, sb["body"], "", where=loc(sb["body"]))
    # ---- LU
    lu = fn_or_missing(rep, pdb, "%s::lu_decomp_in_place" % M, "anchor/lu_decomp_in_place")
    if lu is not None:
        ctx = Ctx.for_fn(pdb, lu)
        outer = [n for n in walk(lu["body"]) if n.get("k") == "For"][0]
        ro = raw_for_range(ctx, outer)     # the column loop may `continue` (checked by skip-only-zero below)
        i = ro[0]
        am = check_argmax(rep, pdb, lu, "lu_decomp_in_place", i, ROWS, 1, lambda c: i)
        # a column may be skipped only when its pivot magnitude is EXACTLY zero
        skips = [n for n in walk(lu["body"]) if n.get("k") in ("Continue", "Break") and not n.get("x")]
        rets = [n for n in walk(lu["body"]) if n.get("k") == "Ret"]
        okk = am is not None and not rets
        dets = []
        for sk in skips:
            ifs = [a for a in ancestors(sk) if a.get("k") == "If"]
            good = False
            if ifs and sk.get("k") == "Continue" and am is not None:
                from .guards import cond_atoms
                from .common import is_zero_term
                at = cond_atoms(ctx, ifs[0]["cond"], True)
                good = len(ifs) == 1 and len(at) == 1 and at[0][0] == "cmp" and at[0][1] == "==" and \
                    ((at[0][2] == am.best and is_zero_term(at[0][3])) or (at[0][3] == am.best and is_zero_term(at[0][2])))
            okk = okk and good
            dets.append("%s at %s guarded by `pivot magnitude == zero`: %s" % (sk.get("k"), loc(sk), good))
        rep.add("skip-only-zero/lu_decomp_in_place", "elimination of a column is skipped only when the pivot magnitude found by the search is exactly zero (no tolerance, no other early exit)",
                okk, skips[0] if skips else lu["body"], "; ".join(dets) or "no skip", where=loc(skips[0]) if skips else loc(lu["body"]))
        # exchange pair: permutation and self swapped with the same pair inside `if imax != i`
        sws = [n for n in walk(lu["body"]) if n.get("k") == "MethodCall" and callee_path(n) == "%s::swap_rows" % M]
        ok = len(sws) == 2 and am is not None
        det = ""
        if ok:
            a, b = [[ctx.term(x) for x in call_args(s)] for s in sws]
            objs = {a[0], b[0]}
            same_pair = set(a[1:]) == set(b[1:]) == {i, am.idx_var}
            conds = [[p for p in ancestors(s) if p.get("k") == "If"] for s in sws]
            same_ctx = conds[0] and conds[0] == conds[1]
            ct = ctx.term(conds[0][0]["cond"]) if same_ctx else None
            cond_ok = ct is not None and ct[0] == "op" and ct[1] == "!=" and {ct[2], ct[3]} == {i, am.idx_var}
            perm = [o for o in objs if o != P(0)]
            pb = ctx.binds.get(perm[0][1]) if perm and perm[0][0] == "var" else None
            pinit = ctx.term(pb.init) if pb is not None and pb.init is not None else None
            perm_ok = P(0) in objs and pinit is not None and pinit[0] == "call" and str(pinit[1]).endswith("::eye") and pinit[2] == ROWS
            tail = lu["body"].get("expr")
            tt = ctx.term(tail) if tail is not None else None
            ret_ok = tt is not None and tt[0] == "tup" and len(tt) == 3 and perm and tt[2] == perm[0]
            ok = same_pair and cond_ok and perm_ok and ret_ok
            det = "same pair=%s under `imax != i`=%s companion is eye(rows)=%s returned as .1=%s" % (same_pair, cond_ok, perm_ok, ret_ok)
        rep.add("exchange-pair/lu_decomp_in_place", "every row exchange of the matrix is mirrored on the permutation (an identity of order rows) with the same index pair, in the same guard context",
                ok, sws[0] if sws else lu["body"], det)
        check_lu_elimination(rep, pdb, lu, "row-op-pair/lu_decomp_in_place")
    sl = fn_or_missing(rep, pdb, "%s::solve_lu" % M, "anchor/solve_lu")
    if sl is not None:
        ctx = Ctx.for_fn(pdb, sl)
        effs = effects(pdb, ctx)
        lucalls = [n for n in walk(sl["body"]) if n.get("k") == "MethodCall" and callee_path(n) == "%s::lu_decomp_in_place" % M]
        fwd = [e for e in effs if e.kind == "upd" and e.op == "-=" and e.loops]
        bsc = [n for n in walk(sl["body"]) if n.get("k") == "MethodCall" and callee_path(n) == "%s::backsolve" % M]
        okp, det = len(lucalls) == 1 and len(fwd) == 1 and len(bsc) == 1, ""
        if okp:
            x = fwd[0].target
            lut = ctx.term(lucalls[0])
            # the value of x when the forward sweep starts: P * b, however the statements are arranged
            pv = value_before(ctx, x, fwd[0].loops[0])
            perm_is = pv is not None and pv[0] == "op" and pv[1] == "*" and (pv[2] == ("field", lut, "1") or _resolve(ctx, pv[2]) == ("field", lut, "1"))
            x_init = perm_is and pv[3] == P(1)
            before = _pos(lucalls[0]) < _pos(fwd[0].loops[0]) and _pos(fwd[0].node) < _pos(bsc[0])
            okp = perm_is and x_init and before
            rep.add("permute-rhs/solve_lu", "the permutation returned by the factorisation is multiplied into a copy of b before any substitution sweep", okp, fwd[0].loops[0],
                    "x = P*b with P from lu_decomp_in_place=%s (value of x at the sweep: %s) order factorise < forward < backsolve=%s" % (perm_is, show(pv, ctx) if pv else None, before))
            fw = fwd[0]
            o = for_range(ctx, fw.loops[0])
            inn = for_range(ctx, fw.loops[1]) if len(fw.loops) > 1 else None
            i_, k_ = o[0], inn[0] if inn else None
            okf = fw.target == x and fw.index == i_ and o[1] in (num(0), num(1)) and o[2] == ROWS and not o[4] and inn is not None and inn[1] == num(0) and inn[2] == i_ and not inn[3] and \
                fw.value == ("op", "*", ("idx", P(0), ("tup", i_, k_)), ("idx", x, k_))
            rep.add("sweep-order/solve_lu", "forward sweep: outer index ascending over 0..rows, inner range 0..i (finalised entries only, diagonal excluded: unit lower triangle)", okf, fw.node,
                    "x[i] -= a_ik * x[k], i in 0..rows, k in 0..i: %s" % okf)
            tail = sl["body"].get("expr")
            okl = tail is not None and ctx.term(tail) == x and [ctx.term(a) for a in call_args(bsc[0])] == [P(0), x]
            rep.add("length/solve_lu", "the returned vector is the permuted copy of b swept in place", okl, sl["body"], "", where=loc(sl["body"]))
        else:
            rep.bad("permute-rhs/solve_lu", "solve_lu = factorise, permute, forward sweep, backsolve", sl["body"],
                    "lu calls=%d forward updates=%d backsolve calls=%d" % (len(lucalls), len(fwd), len(bsc)), where=loc(sl["body"]))
    check_early_returns(rep, pdb, "early-return")
    rep.floor("early-return/", 5)
    rep.floor("index-kinds/", 30)
    rep.floor("magnitude/", 2)
    rep.floor("argmax/", 2)
    rep.floor("search-range/", 3)
    rep.floor("exchange-pair/", 2)
    rep.floor("row-op-pair/", 2)
    rep.floor("sweep-order/", 2)
    rep.floor("skip-only-zero/", 1)
    rep.floor("permute-rhs/", 1)
    rep.floor("length/", 2)
    rep.assumptions += ["decides the pivoting / elimination / substitution structure; backward error of order eps, exactness over rationals and agreement of the two solvers are numerical consequences not decided statically"]
    return {"index_sites": n_sites, "ordered_comparisons": n_cmp}


def check_early_returns(rep, pdb, key, names=("partial_pivot", "gauss_with_pivot", "backsolve", "solve_basic", "solve_lu", "lu_decomp_in_place")):
    """n >= 1 is the property's domain: an early return may only skip work that is vacuous (also evaluated under C02, C17)"""
    from .common import rule_no_skipping_return
    from .guards import norm_cmp
    dom = [norm_cmp("<=", num(1), ROWS)]
    for nm in names:
        fn = pdb.fn("%s::%s" % (M, nm))
        if fn is not None:
            rule_no_skipping_return(rep, pdb, fn, "%s/%s" % (key, nm), dom)


def _pos(n):
    sp = n.get("sp")
    return (sp[0], sp[1]) if sp else (0, 0)
