"""Iteration-map fingerprints of the Krylov solvers.

The solver model of c08 (`Model`) gives, for one pass over the loop body, the end-of-iteration value of every
loop-carried vector as a linear combination of loop-top vectors and their A / A^T images, with coefficients that are
rational functions of scalar atoms: loop-top scalars, parameters, inner products and norms (identified by the VALUES of
their operands, not by the names of the variables), and uninterpreted functions (sqrt, abs ...).

Two implementations run the same method iff there is a correspondence between their loop-carried variables under which
entry values, first-iteration maps and general-iteration maps agree as rational functions.  We decide that by colour
refinement: every carried variable gets a name = hash(entry value, first-iteration map, general map), the maps being
hashed with the carried variables they mention replaced by the names of the previous round; after K rounds the name of
`x` describes the K-fold unrolled dependency cone of the iterate.  Rational functions are hashed through their value at a
pseudo-random point of a large prime field (polynomial identity testing): equal functions always hash equally, so a
re-association, a renamed or re-ordered temporary, an inlined helper or a different-but-equal formula does not change the
name; different functions collide with negligible probability.  Nothing of the library is executed: the points are
hashes of names, not data.
"""
import hashlib

from .c08 import Unclassified, image_hypotheses, MULT, TMULT

PRIME = (1 << 127) - 1
ROUNDS = 6


def H(*parts):
    h = hashlib.sha256(repr(parts).encode()).digest()
    return int.from_bytes(h[:16], "big") % PRIME


def inv(a):
    a %= PRIME
    if a == 0:
        return H("1/0")
    return pow(a, PRIME - 2, PRIME)


class Eval:
    """Evaluates the model's symbolic values at the point given by a naming of the loop-top variables."""

    def __init__(self, model, names):
        self.m, self.names = model, names
        self.memo = {}
        self.used = set()      # loop-top variables whose names the evaluation looked up

    # -- rational (num, den) over atoms
    def poly(self, p):
        tot = 0
        for mono, c in p.items():
            v = (c.numerator % PRIME) * inv(c.denominator) % PRIME
            for atom, e in mono:
                v = v * pow(self.atom(atom), e, PRIME) % PRIME
            tot = (tot + v) % PRIME
        return tot

    def rat(self, c):
        n = self.poly(c[0] if isinstance(c[0], dict) else dict(c[0]))
        d = self.poly(c[1] if isinstance(c[1], dict) else dict(c[1]))
        return n * inv(d) % PRIME

    def atom(self, a):
        r = self.memo.get(a)
        if r is None:
            r = self.memo[a] = self._atom(a)
        return r

    def _atom(self, a):
        # atoms are ('in', X)
        x = a[1] if a and a[0] == "in" else a
        return self.term(x)

    def sv(self, vid, ver):
        if ver == 0:
            self.used.add(("s", vid))
            return self.names.get(("s", vid), H("unnamed-scalar"))
        d = self.m.sdef.get((vid, ver), "missing")
        if d == "missing" or d is None:
            return H("?")
        if isinstance(d, tuple) and d and d[0] == "ite":
            return H("ite", self.term(d[1]), self.term(d[2]), self.term(d[3]))
        return self.rat(d)

    def key(self, k):
        if k[0] == "top":
            self.used.add(("v", k[1]))
            return self.names.get(("v", k[1]), H("unnamed-vector"))
        if k[0] in ("A", "At"):
            return H(k[0], self.key(k[1]))
        return H("phi")

    def vec(self, v):
        """v: dict key -> rational, or its frozen form"""
        items = v.items() if isinstance(v, dict) else v
        out = {}
        for k, c in items:
            cv = self.rat(c)
            if cv:
                out[self.key(k)] = cv
        return self.vhash(out)

    def vterm(self, t):
        """value of a vector-valued term as {key name: coefficient}, or None when t is not a vector expression"""
        if not isinstance(t, tuple) or not t:
            return None
        k = t[0]
        if k == "vecstate":
            out = {}
            for kk, c in t[2]:
                cv = self.rat(c)
                if cv:
                    out[self.key(kk)] = cv
            return out
        if k == "neg":
            a = self.vterm(t[1])
            return None if a is None else {kk: (-c) % PRIME for kk, c in a.items()}
        if k == "op" and len(t) == 4 and t[1] in ("+", "-"):
            a, b = self.vterm(t[2]), self.vterm(t[3])
            if a is None or b is None:
                return None
            out = dict(a)
            for kk, c in b.items():
                out[kk] = (out.get(kk, 0) + (c if t[1] == "+" else -c)) % PRIME
            return {kk: c for kk, c in out.items() if c}
        if k == "op" and len(t) == 4 and t[1] in ("*", "/"):
            a, b = self.vterm(t[2]), self.vterm(t[3])
            if a is not None and b is None:
                s_ = self.term(t[3])
                s_ = s_ if t[1] == "*" else inv(s_)
                return {kk: c * s_ % PRIME for kk, c in a.items()}
            if b is not None and a is None and t[1] == "*":
                s_ = self.term(t[2])
                return {kk: c * s_ % PRIME for kk, c in b.items()}
            return None
        if k == "call" and str(t[1]) in (MULT, TMULT) and len(t) == 4:
            a = self.vterm(t[3])
            if a is None:
                return None
            tag = "A" if (str(t[1]) == MULT or getattr(self.m, "symmetric", False)) else "At"
            return {H(tag, kk): c for kk, c in a.items()}
        if k == "call" and str(t[1]).rsplit("::", 1)[-1] == "clone" and len(t) == 3:
            return self.vterm(t[2])
        return None

    def vhash(self, d):
        return H("vec", tuple(sorted(d.items())))

    def term(self, t):
        v_ = self.vterm(t)
        if v_ is not None:
            return self.vhash(v_)
        if not isinstance(t, tuple):
            return H("lit", t)
        if not t:
            return H("()")
        k = t[0]
        if k == "num":
            c = t[1]
            return (c.numerator % PRIME) * inv(c.denominator) % PRIME
        if k == "sv":
            return self.sv(t[1], t[2])
        if k == "param":
            return H("param", t[1:])
        if k == "opaque":
            return self.term(t[1])
        if k == "neg":
            return (-self.term(t[1])) % PRIME
        if k == "op" and len(t) == 4:
            a, b = self.term(t[2]), self.term(t[3])
            if t[1] == "+":
                return (a + b) % PRIME
            if t[1] == "-":
                return (a - b) % PRIME
            if t[1] == "*":
                return a * b % PRIME
            if t[1] == "/":
                return a * inv(b) % PRIME
            return H("op", t[1], a, b)
        if k == "call":
            path = str(t[1])
            args = [self.term(x) for x in t[2:]]
            from .canon import norm_path
            try:
                path = norm_path(path) or path
            except Exception:
                pass
            last = path.rsplit("::", 1)[-1]
            if last == "dot" and len(args) == 2:
                return H("dot", tuple(sorted(args)))
            if last == "norm_2" and len(args) == 1:
                return H("sqrt", H("dot", (args[0], args[0])))
            if last == "sqrt" and len(args) == 1:
                return H("sqrt", args[0])
            if last == "powi" and len(args) == 2 and isinstance(t[3], tuple) and t[3][0] == "num" and t[3][1].denominator == 1 and 0 <= t[3][1] <= 8:
                return pow(args[0], int(t[3][1]), PRIME)
            if last == "recip" and len(args) == 1:
                return inv(args[0])
            if last in ("clone", "abs") and len(args) == 1:
                return args[0] if last == "clone" else H("abs", args[0])
            return H("call", last, tuple(args))
        if k == "var":
            return H("free-var")
        return H("t", k, tuple(self.term(x) for x in t[1:]))


def _scalars_of(models):
    ids = set()
    for m in models:
        for (vid, _ver) in m.sdef:
            ids.add(vid)
    return ids


def fingerprint(sv):
    """-> dict with the per-round names of every carried variable, and the final name of the iterate."""
    entry = sv.run_entry()
    models = [m for m in sv.run_body(image_hypotheses(sv)) if getattr(m, "fell_through", False)]
    if not models:
        raise Unclassified("no path through the loop body falls through to the next iteration")

    def case(m):
        a = [v for v in (m.assume or {}).values()]
        return a[0] if a else None
    first = [m for m in models if case(m) in (None, True)]
    gen = [m for m in models if case(m) in (None, False)]
    if len(first) != 1 or len(gen) != 1:
        raise Unclassified("expected one first-iteration and one general path, got %d/%d" % (len(first), len(gen)))
    first, gen = first[0], gen[0]
    vecs = sorted(sv.vec_vars, key=repr)
    scal = sorted(_scalars_of([first, gen, entry]))
    # entry values: parameters are named by position; locals not yet initialised are 'undef'
    pnames = {}
    for v in vecs:
        pnames[("v", v)] = H("param-vec", v[1]) if v[0] == "param" else H("undef")
    ev = Eval(entry, pnames)
    names = {}
    for v in vecs:
        names[("v", v)] = H("entry", ev.vec(entry.vec[v]))
    for s in scal:
        ver = entry.ver.get(s, 0)
        names[("s", s)] = H("entry", ev.sv(s, ver) if ver else H("undef"))
    n0 = dict(names)
    history = [dict(names)]
    for _ in range(ROUNDS):
        e1, eg = Eval(first, names), Eval(gen, names)
        new = {}
        for v in vecs:
            new[("v", v)] = H(n0[("v", v)], e1.vec(first.vec[v]), eg.vec(gen.vec[v]))
        for s in scal:
            a = e1.sv(s, first.ver.get(s, 0))
            b = eg.sv(s, gen.ver.get(s, 0))
            new[("s", s)] = H(n0[("s", s)], a, b)
        names = new
        history.append(dict(names))
    return {"names": names, "history": history, "vecs": vecs, "scalars": scal, "first": first, "gen": gen}


def zero_tests(cond, pol):
    """the exact-zero tests `S == 0` that hold on the branch (cond, polarity), as versioned terms S; None for any other condition"""
    if not isinstance(cond, tuple) or not cond:
        return None
    if cond[0] == "op" and cond[1] == "||" and pol:
        a, b = zero_tests(cond[2], True), zero_tests(cond[3], True)
        return None if a is None or b is None else a + b       # either disjunct may be the one that holds: one entry each
    if cond[0] == "op" and ((cond[1] == "==" and pol) or (cond[1] == "!=" and not pol)):
        for s_, z_ in ((cond[2], cond[3]), (cond[3], cond[2])):
            if isinstance(z_, tuple) and z_[0] == "num" and z_[1] == 0:
                return [s_]
    return None


def failure_exits(sv, fp, x):
    """[(node, tested-scalar name, iterate-state name)] for the `return Err(..)` of the loop that are guarded by exact-zero tests only"""
    out = []
    for m in (fp["first"], fp["gen"]):
        ev = Eval(m, fp["names"])
        for kind, node, vecs, vers, payload, conds in m.exits:
            if kind != "err":
                continue
            tests = []
            for c, pol in conds:
                z = zero_tests(c, pol)
                if z is None:
                    tests = None
                    break
                tests.append(z)
            if not tests:
                continue
            xs = ev.vec(vecs[x])
            # innermost condition decides; a disjunction gives one entry per disjunct
            for s_ in tests[-1]:
                out.append((node, ev.term(s_), xs))
    return out


def compare(sv, ref_sv, x):
    """-> (equal, detail).  x: the iterate (('param', 2))."""
    a, b = fingerprint(sv), fingerprint(ref_sv)
    if a["names"][("v", x)] == b["names"][("v", x)]:
        return True, "the %d-fold unrolled dependency cone of x agrees with the reference (%d carried vectors, %d scalars)" % (ROUNDS, len(a["vecs"]), len(a["scalars"]))
    # diagnosis: the loop-carried variables in the dependency cone of x, and among them those that deviate first
    ctx = sv.ctx
    first, gen, names = a["first"], a["gen"], a["names"]

    def deps(k):
        out = set()
        for m in (first, gen):
            ev = Eval(m, names)
            if k[0] == "v":
                ev.vec(m.vec[k[1]])
            else:
                ev.sv(k[1], m.ver.get(k[1], 0))
            out |= ev.used
        return out
    cone, todo = set(), [("v", x)]
    while todo:
        k = todo.pop()
        if k in cone:
            continue
        cone.add(k)
        todo.extend(deps(k) - cone)

    def nm(k):
        if k[0] == "v" and k[1][0] == "param":
            return "parameter %d" % k[1][1]
        vid = k[1][1] if k[0] == "v" else k[1]
        return getattr(ctx.binds.get(vid), "name", None) or str(vid)
    firstbad = {}
    for k in cone:
        for r in range(len(a["history"])):
            if a["history"][r].get(k) not in set(b["history"][r].values()):
                firstbad[k] = r
                break
    if not firstbad:
        return False, "x deviates from the reference, but every variable it depends on has a counterpart: the variables are combined differently"
    r0 = min(firstbad.values())
    culprits = sorted(nm(k) for k, r in firstbad.items() if r == r0)
    what = "start-up value" if r0 == 0 else "update (unrolling depth %d)" % r0
    return False, "x deviates from the reference; loop-carried variables in its dependency cone whose %s has no counterpart in the reference: %s" % (what, culprits)
