"""A — straight-line algebra.

sym_exec(ctx, fn) evaluates a single-path body symbolically (value numbering): `let`s are inlined, compound
assignments are expanded in statement order, and the final value of every written place plus the returned
expression are expression trees over the *initial* values of the inputs:

    ('in', place_term)            initial value of a parameter / field of a parameter
    ('num', Fraction)
    ('op', sym, a, b)   sym in + - * /
    ('neg', a)
    ('fn', name, args...)         call of a (real) function, e.g. sin, cosh, atan2, sqrt, powf, exp, ln
    ('cplx', re, im)              a Complex value built by Complex::new / struct literal

Two comparisons are offered: `rat_equal` (equality as rational functions over Q: exact field arithmetic), and
`comm_equal` (equality of trees modulo commutativity of + and * only: bit-identical IEEE evaluation).
This is normalisation of one straight-line body, not path exploration; bodies with branches are refused.
"""
from fractions import Fraction

from .pdb import strip, walk
from .terms import Ctx, deref, base_ty, ty_of, CLONE_FNS, lvalue_root
from .common import callee_path, callee_generic, call_args


class NotStraight(Exception):
    pass


REAL_FNS = {"sin", "cos", "tan", "sinh", "cosh", "tanh", "exp", "ln", "sqrt", "atan2", "powf", "powi", "abs", "asin", "acos", "atan", "log"}


class SymExec:
    def __init__(self, pdb, fn, inline=None, depth=0, auto=False):
        self.pdb, self.fn = pdb, fn
        self.ctx = Ctx.for_fn(pdb, fn)
        self.env = {}        # place term / ('var', id) -> tree
        self.written = []    # places in write order
        self.reads_after_write = []   # (stmt node, read place, written-before place)
        self.inline = inline or set()   # canonical paths of local fns to inline (single-path bodies)
        self.auto = auto                # also inline every inherent local helper whose body is single-path
        self.depth = depth
        self.ret = None

    # ---- places
    def place(self, n):
        n = strip(n)
        k = n.get("k")
        if k == "Local":
            b = self.ctx.binds.get(n["v"])
            if b is not None and b.kind == "param":
                return ("param", b.idx)
            return ("var", n["v"])
        if k == "Field":
            return ("field", self.place(n["e"]), n["name"])
        if k == "AddrOf" or (k == "Unary" and n.get("op") == "*"):
            return self.place(n["e"])
        raise NotStraight("unsupported place %s" % k)

    def read(self, place):
        if place in self.env:
            return self.env[place]
        # a field of a place holding a complex value
        if place[0] == "field":
            base = self.read(place[1])
            if base[0] == "cplx":
                if place[2] == "real":
                    return base[1]
                if place[2] == "imag":
                    return base[2]
            if base[0] == "in":
                return ("in", ("field", base[1], place[2]))
            return ("fieldof", base, place[2])
        return ("in", place)

    def write(self, place, val):
        # writing a whole complex value defines both components
        self.env[place] = val
        for p in list(self.env):
            if p != place and _under(p, place):
                del self.env[p]
        self.written.append(place)

    # ---- evaluation
    def ev(self, n):
        n = strip(n)
        k = n.get("k")
        if k == "Lit":
            v = n["v"]
            try:
                return ("num", Fraction(v.replace("_", "")))
            except Exception:
                raise NotStraight("literal %s" % v)
        if k in ("Local", "Field"):
            return self.read(self.place(n))
        if k == "AddrOf" or (k == "Unary" and n.get("op") == "*"):
            return self.ev(n["e"])
        if k == "Cast":
            return self.ev(n["e"])
        if k == "Unary" and n.get("op") == "-":
            return neg(self.ev(n["e"]))
        if k == "Binary" and n["op"] in ("+", "-", "*", "/"):
            a, b = self.ev(n["l"]), self.ev(n["r"])
            return self.binop(n, n["op"], a, b)
        if k == "Def":
            dk = n.get("dk", "")
            cf = self.pdb.fn(n.get("fn"))
            if cf is not None and cf["kind"].startswith("Const"):
                return SymExec(self.pdb, cf, self.inline, self.depth + 1, auto=self.auto).run_expr(cf["body"])
            return ("const", n.get("fn"))
        if k in ("MethodCall", "Call"):
            return self.call(n)
        if k == "Struct":
            if str(n.get("path", "")).endswith("Complex") or base_ty(ty_of(n)).startswith("complex::Complex") or {f["name"] for f in n.get("fields", [])} == {"real", "imag"}:
                fs = {f["name"]: self.ev(f["e"]) for f in n["fields"]}
                if isinstance(n.get("base"), dict) and ("real" not in fs or "imag" not in fs):
                    # struct update syntax `Complex { real: .., ..z }`: the other component is z's
                    bp = self.place(n["base"])
                    for comp in ("real", "imag"):
                        if comp not in fs:
                            fs[comp] = self.read(("field", bp, comp))
                return ("cplx", fs.get("real"), fs.get("imag"))
        if k == "Block" and not n.get("stmts") and n.get("expr") is not None:
            return self.ev(n["expr"])
        raise NotStraight("unsupported expression %s" % k)

    def binop(self, node, op, a, b):
        """Primitive or overloaded arithmetic.  Complex operands are expanded through the impl being analysed
        elsewhere; here complex*complex etc. is kept symbolic as ('cop', op, a, b) unless inlining is on."""
        impl = node.get("impl")
        if impl and self.pdb.fn(impl) is not None and impl in self.inline and self.depth < 6:
            return self.inline_call(self.pdb.fn(impl), [a, b])
        if impl and self.pdb.fn(impl) is not None:
            return ("cop", impl, a, b)
        return ("op", op, a, b)

    def call(self, n):
        g = callee_generic(n)
        p = callee_path(n)
        args = call_args(n)
        name = n.get("name") or (str(g).split("::")[-1] if g else None)
        if g in CLONE_FNS:
            return self.ev(args[0])
        cf0 = self.pdb.fn(p) if p else None
        if g in ("traits::Zero::zero", "traits::One::one"):
            if cf0 is None:
                # the element type's own identity (generic T): the ring constant
                return ("num", Fraction(0 if g.endswith("zero") else 1))
            b0 = strip(cf0["body"])
            if b0.get("k") == "Lit" or (p in self.inline and self.depth < 6) or base_ty(ty_of(n)).startswith("complex::Complex"):
                return self.inline_call(cf0, [])
            return ("ccall", p)
        if p in ("complex::Complex<T>::new",):
            return ("cplx", self.ev(args[0]), self.ev(args[1]))
        cf = self.pdb.fn(p) if p else None
        if cf is not None:
            vals = [self.ev(a) for a in args]
            if p in self.inline and self.depth < 6:
                return self.inline_call(cf, vals)
            from .terms import default_overridden
            if self.auto and self.depth < 6 and cf.get("kind") in ("Fn", "AssocFn") and not cf.get("impl_trait") and not default_overridden(self.pdb, cf):
                # an inherent helper with a single-path body (abs_sqr, a private numerator helper, ..) is transparent
                try:
                    r = self.inline_call(cf, vals)
                    if r is not None:
                        return r
                except NotStraight:
                    pass
            return ("ccall", p) + tuple(vals)
        # std real functions
        if name in REAL_FNS and (p or "").startswith(("f64::", "std::f64", "core::f64")) or (name in REAL_FNS and base_ty(ty_of(n)) == "f64"):
            return ("fn", name) + tuple(self.ev(a) for a in args)
        raise NotStraight("unsupported call %s" % p)

    def inline_call(self, cf, vals):
        sub = SymExec(self.pdb, cf, self.inline, self.depth + 1, auto=self.auto)
        for i, v in enumerate(vals):
            sub.env[("param", i)] = v
        return sub.run()

    # ---- statements
    def run_expr(self, body):
        return self.ev(body)

    def run(self):
        body = self.fn["body"]
        if body.get("k") != "Block":
            self.ret = self.ev(body)
            return self.ret
        for s in body.get("stmts", []):
            self.stmt(s)
        if body.get("expr") is not None:
            tail = strip(body["expr"])
            if tail.get("ty") == "()" and tail.get("k") in ("Block", "Assign", "AssignOp"):
                self.stmt({"k": "Expr", "e": tail})      # a unit-typed tail is a statement
            else:
                self.ret = self.ev(body["expr"])
        return self.ret

    def stmt(self, s):
        k = s.get("k")
        if k == "Let":
            pat = s["pat"]
            while pat.get("k") == "Ref" and isinstance(pat.get("p"), dict):
                pat = pat["p"]            # `let &Complex { real, imag } = w;` destructures through the reference
            if pat.get("k") == "Bind" and s.get("init") is not None:
                self.env[("var", pat["v"])] = self.ev(s["init"])
                return
            if pat.get("k") == "Tuple" and s.get("init") is not None and strip(s["init"]).get("k") == "Tup":
                for p_, e_ in zip(pat["ps"], strip(s["init"])["es"]):
                    if p_.get("k") != "Bind":
                        raise NotStraight("pattern")
                    self.env[("var", p_["v"])] = self.ev(e_)
                return
            if pat.get("k") == "Struct" and s.get("init") is not None and all(f["pat"].get("k") == "Bind" for f in pat.get("fields", [])):
                # `let Complex { real: a, imag: b } = z;`
                try:
                    base = self.place(s["init"])
                    for f in pat["fields"]:
                        self.env[("var", f["pat"]["v"])] = self.read(("field", base, f["name"]))
                    return
                except NotStraight:
                    v = self.ev(s["init"])
                    if v[0] == "cplx":
                        for f in pat["fields"]:
                            if f["name"] in ("real", "imag"):
                                self.env[("var", f["pat"]["v"])] = v[1] if f["name"] == "real" else v[2]
                            else:
                                raise NotStraight("pattern")
                        return
            raise NotStraight("unsupported let")
        e = strip(s["e"])
        ek = e.get("k")
        if ek == "AssignOp":
            place = self.place(e["l"])
            self._note_reads(e, place)
            old = self.read(place)
            rhs = self.ev(e["r"])
            sym = e["op"].rstrip("=") if e["op"].endswith("=") else e["op"]
            self.write(place, self.binop(e, sym, old, rhs))
            return
        if ek == "Assign":
            place = self.place(e["l"])
            self._note_reads(e, place)
            self.write(place, self.ev(e["r"]))
            return
        if ek == "Block":
            for s2 in e.get("stmts", []):
                self.stmt(s2)
            if e.get("expr") is not None:
                self.stmt({"k": "Expr", "e": e["expr"]})
            return
        if ek in ("If", "Match", "For", "While", "Loop", "Ret"):
            raise NotStraight("control flow (%s): the body is not single-path" % ek)
        if s.get("m") or e.get("m"):
            return  # println! and friends
        if ek == "Call" and callee_path(e) in ("std::mem::swap", "core::mem::swap") and len(e.get("args", [])) == 2:
            pa, pb = self.place(e["args"][0]), self.place(e["args"][1])
            va, vb = self.read(pa), self.read(pb)
            self.write(pa, vb)
            self.write(pb, va)
            return
        self.ev(e)

    def _note_reads(self, stmt, target):
        """Record reads of an already-written sibling component (the stale-read mechanism)."""
        for x in walk(stmt["r"]):
            if x.get("k") == "Field":
                try:
                    pl = self.place(x)
                except NotStraight:
                    continue
                if pl != target and pl in self.written and pl[0] == "field" and target[0] == "field" and pl[1] == target[1]:
                    self.reads_after_write.append((stmt, pl, target))


def _under(p, q):
    while p[0] == "field":
        p = p[1]
        if p == q:
            return True
    return False


def neg(a):
    if a[0] == "num":
        return ("num", -a[1])
    return ("neg", a)


# ---------------------------------------------------------------- rational normal form

def poly_const(c):
    return {(): Fraction(c)} if c != 0 else {}


def poly_var(v):
    return {((v, 1),): Fraction(1)}


def poly_add(a, b, s=1):
    out = dict(a)
    for m, c in b.items():
        out[m] = out.get(m, 0) + s * c
        if out[m] == 0:
            del out[m]
    return out


def poly_mul(a, b):
    out = {}
    for m1, c1 in a.items():
        for m2, c2 in b.items():
            d = dict(m1)
            for v, e in m2:
                d[v] = d.get(v, 0) + e
            m = tuple(sorted(d.items(), key=repr))
            out[m] = out.get(m, 0) + c1 * c2
            if out[m] == 0:
                del out[m]
    return out


def rat(t, atoms=None):
    """tree -> (num_poly, den_poly); transcendental sub-terms become opaque variables (keyed by comm-canonical form)."""
    k = t[0]
    if k == "num":
        return poly_const(t[1]), poly_const(1)
    if k == "in":
        return poly_var(t), poly_const(1)
    if k == "neg":
        n, d = rat(t[1])
        return poly_add({}, n, -1), d
    if k == "op":
        n1, d1 = rat(t[2])
        n2, d2 = rat(t[3])
        if t[1] == "+":
            return poly_add(poly_mul(n1, d2), poly_mul(n2, d1)), poly_mul(d1, d2)
        if t[1] == "-":
            return poly_add(poly_mul(n1, d2), poly_mul(n2, d1), -1), poly_mul(d1, d2)
        if t[1] == "*":
            return poly_mul(n1, n2), poly_mul(d1, d2)
        if t[1] == "/":
            return poly_mul(n1, d2), poly_mul(d1, n2)
    # opaque
    return poly_var(comm(t)), poly_const(1)


def rat_equal(a, b):
    n1, d1 = rat(a)
    n2, d2 = rat(b)
    if not d1 or not d2:
        return False
    return poly_mul(n1, d2) == poly_mul(n2, d1)


# ---------------------------------------------------------------- commutative canonical form

def comm(t):
    """Canonical form modulo commutativity of + and * (no re-association, no distribution, no sign motion)."""
    if not isinstance(t, tuple):
        return t
    k = t[0]
    if k == "op":
        a, b = comm(t[2]), comm(t[3])
        if t[1] in ("+", "*") and repr(a) > repr(b):
            a, b = b, a
        return ("op", t[1], a, b)
    if k in ("neg",):
        return ("neg", comm(t[1]))
    if k in ("fn", "ccall", "cop"):
        return (k, t[1]) + tuple(comm(x) for x in t[2:])
    if k == "cplx":
        return ("cplx", comm(t[1]), comm(t[2]))
    return t


def comm_equal(a, b):
    return comm(a) == comm(b)


def sign_norm(t):
    """Canonical form modulo commutativity AND sign placement in products: (-a)*b == -(a*b) == a*(-b)."""
    t = comm(t)
    s, u = _pull_sign(t)
    return ("neg", u) if s < 0 else u


def _pull_sign(t):
    if not isinstance(t, tuple):
        return 1, t
    if t[0] == "neg":
        s, u = _pull_sign(t[1])
        return -s, u
    if t[0] == "num" and t[1] < 0:
        return -1, ("num", -t[1])
    if t[0] == "op" and t[1] in ("*", "/"):
        s1, a = _pull_sign(t[2])
        s2, b = _pull_sign(t[3])
        if t[1] == "*" and repr(a) > repr(b):
            a, b = b, a
        return s1 * s2, ("op", t[1], a, b)
    if t[0] == "op":
        # keep signs inside sums, but normalise the operands
        a, b = sign_norm(t[2]), sign_norm(t[3])
        if t[1] == "+" and repr(a) > repr(b):
            a, b = b, a
        return 1, ("op", t[1], a, b)
    if t[0] in ("fn", "ccall", "cop"):
        return 1, (t[0], t[1]) + tuple(sign_norm(x) for x in t[2:])
    if t[0] == "cplx":
        return 1, ("cplx", sign_norm(t[1]), sign_norm(t[2]))
    return 1, t


def show_tree(t):
    k = t[0]
    if k == "num":
        return str(t[1])
    if k == "in":
        return _show_place(t[1])
    if k == "op":
        return "(%s %s %s)" % (show_tree(t[2]), t[1], show_tree(t[3]))
    if k == "neg":
        return "-%s" % show_tree(t[1])
    if k == "fn":
        return "%s(%s)" % (t[1], ", ".join(show_tree(x) for x in t[2:]))
    if k == "cplx":
        return "<%s, %s>" % (show_tree(t[1]), show_tree(t[2]))
    if k in ("ccall", "cop"):
        return "%s(%s)" % (str(t[1]).split("::")[-1], ", ".join(show_tree(x) for x in t[2:]))
    return repr(t)


def _show_place(p):
    if p[0] == "param":
        return "$%d" % p[1]
    if p[0] == "field":
        return "%s.%s" % (_show_place(p[1]), p[2])
    return repr(p)
