"""C19 — meshes return what was stored; interpolation / quadrature structure."""
from fractions import Fraction
from .pdb import strip, walk, loc, ancestors
from .terms import Ctx, num, show, lin_add, lin_sub, lin_mul
from .common import (P, F, LEN, SIZE, GE, NE, effects, callee_path, call_args, in_macro, effective_guards, index_requirements, facts_x, ctor_summary,
                     is_push, same_dim, is_zero_term, container_stride, split_flat, strengthen)
from .guards import facts, cond_atoms, norm_cmp, prove_lt, prove_ge0
from .guards import for_range as raw_for_range
from .common import for_range_total as for_range

LEVEL = "other"
M1 = "mesh1d::Mesh1D<T, X>"
M1F = "mesh1d::Mesh1D<f64, f64>"
M2 = "mesh2d::Mesh2D<T>"
M2F = "mesh2d::Mesh2D<f64>"
NX, NY, NV = F(P(0), "nx"), F(P(0), "ny"), F(P(0), "nvars")
VARS, NODES = F(P(0), "vars"), F(P(0), "nodes")


def _adt(t):
    t = str(t or "").lstrip("&").strip()
    if t.startswith("mut "):
        t = t[4:]
    return t.split("<", 1)[0]


def flat(i, j):
    return lin_add(lin_mul(i, NY), j)


def decode_fmt_template(b):
    """The template of a lowered format_args! (core::fmt::Arguments, see library/core/src/fmt/mod.rs): -> [('lit', text) | ('ph',)] or None"""
    out, i = [], 0
    try:
        while True:
            n = b[i]
            i += 1
            if n == 0:
                return out if i == len(b) else None
            if n < 0x80:
                out.append(("lit", b[i:i + n].decode("utf-8")))
                i += n
            elif n == 0x80:
                ln = b[i] | (b[i + 1] << 8)
                i += 2
                out.append(("lit", b[i:i + ln].decode("utf-8")))
                i += ln
            elif n >= 0xC0:
                i += (4 if n & 1 else 0) + (2 if n & 2 else 0) + (2 if n & 4 else 0) + (2 if n & 8 else 0)
                out.append(("ph",))
            else:
                return None
    except (IndexError, UnicodeDecodeError):
        return None


def run(rep, pdb, tier):
    # ---- flat index: every access to Mesh2D::vars is a*ny + b with a < nx, b < ny (raw index operators excluded, as the property says)
    st = container_stride(pdb, "mesh2d::Mesh2D")
    rep.add("flat-index/map", "Mesh2D's Index impl defines the flat map vars[i*ny + j]", st == ("vars", "ny"), None, "discovered map: %s" % (st,), where="src/mesh2d.rs")
    # the two raw index operators state no range check (outside the claim), but they must address the SAME slot: one map
    ops = [f for f in pdb.local_fns() if f.get("impl_trait") in ("std::ops::Index", "std::ops::IndexMut") and _adt(f.get("impl_self")) == "mesh2d::Mesh2D"]
    maps = {}
    for f in ops:
        c_ = Ctx.for_fn(pdb, f)
        sites = [n for n in walk(f["body"]) if n.get("k") == "Index" and not in_macro(n) and c_.term(n["base"]) == VARS]
        maps[f["impl_trait"]] = [c_.term(n["idx"]) for n in sites]
    want = [flat(("field", P(1), "0"), ("field", P(1), "1"))]
    rep.add("flat-index/map-agree", "Index and IndexMut of Mesh2D address the same slot vars[node.0 * ny + node.1] (a write through one is what a read through the other returns)",
            len(ops) == 2 and all(v == want for v in maps.values()), ops[-1]["body"] if ops else None,
            "index terms: %s" % {k.split("::")[-1]: [repr(t)[:80] for t in v] for k, v in maps.items()}, where=loc(ops[-1]["body"]) if ops else "src/mesh2d.rs")
    n_sites = 0
    seq = {}
    for fn in pdb.local_fns():
        if not (fn["file"] == "src/mesh2d.rs" or _adt(fn.get("impl_self")) == "mesh2d::Mesh2D") or fn.get("impl_trait") in ("std::ops::Index", "std::ops::IndexMut"):
            continue
        ctx = Ctx.for_fn(pdb, fn)
        for n in walk(fn["body"]):
            if n.get("k") != "Index" or in_macro(n):
                continue
            if ctx.term(n["base"]) != VARS:
                continue
            it = ctx.term(n["idx"])
            sp = split_flat(it, NY)
            key = "flat-index/%s/vars[%s]" % (fn["path"], show(it, ctx))
            seq[key] = seq.get(key, 0) + 1
            if seq[key] > 1:
                key += "#%d" % seq[key]
            n_sites += 1
            rule = "every access to Mesh2D::vars uses a*ny + b with a provably < nx and b provably < ny (loop ranges or accessor guards)"
            if sp is None:
                rep.bad(key, rule, n, "index %s is not of the form a*ny + b" % show(it, ctx))
                continue
            a, b = sp
            fs = list(facts_x(pdb, ctx, n))
            fs += strengthen(fs, (NX, NY))
            oa = prove_lt(a, NX, fs)
            ob = prove_lt(b, NY, fs)
            rep.add(key, rule, oa and ob, n, "a=%s<nx:%s b=%s<ny:%s" % (show(a, ctx), oa, show(b, ctx), ob), proof=True)
    # ---- accessor guards
    table = {
        "%s::set_nodes_vars" % M1: [("node", GE(P(1), SIZE(NODES))), ("nvars", NE(SIZE(P(2)), NV))],
        "%s::get_nodes_vars" % M1: [("node", GE(P(1), SIZE(NODES)))],
        "%s::set_nodes_vars" % M2: [("nodex", GE(P(1), NX)), ("nodey", GE(P(2), NY)), ("nvars", NE(SIZE(P(3)), NV))],
        "%s::get_nodes_vars" % M2: [("nodex", GE(P(1), NX)), ("nodey", GE(P(2), NY))],
        "%s::var_as_matrix" % M2: [("var", GE(P(1), NV))],
    }
    for path, reqs in table.items():
        fn = pdb.fn(path)
        if fn is None:
            rep.missing("accessor-guards/%s" % path, "accessor exists", "not found")
            continue
        eff = effective_guards(pdb, fn)
        for lab, atom in reqs:
            rep.add("accessor-guards/%s/%s" % (path, lab), "the checked accessor rejects an out-of-range node / wrong variable count before touching storage", atom in eff, eff.get(atom) or fn["body"], "", where=loc(fn["body"]))
    # ---- storage: constructors, set stores the argument, get returns a clone of the same slot
    fn = pdb.fn("%s::new" % M1)
    rule = "Mesh1D::new allocates one nvars-vector of zeros per node (loop over 0..len(nodes))"
    if fn is None:
        rep.missing("storage/mesh1d-new", rule, "not found")
    else:
        ctx = Ctx.for_fn(pdb, fn)
        pu = [e for e in effects(pdb, ctx) if e.kind == "push"]
        summ = ctor_summary(pdb, fn)
        ok = len(pu) == 1 and len(pu[0].loops) == 1 and summ is not None
        if ok:
            r = for_range(ctx, pu[0].loops[0])
            v = pu[0].value
            ok = r[1:4] == (num(0), SIZE(P(0)), False) and v[0] == "call" and str(v[1]).endswith("Vector<T>::new") and v[2] == P(1) and is_zero_term(v[3]) and \
                summ.get("vars") == pu[0].target and summ.get("nodes") == P(0) and summ.get("nvars") == P(1)
        rep.add("storage/mesh1d-new", rule, ok, fn["body"], "", where=loc(fn["body"]))
    fn = pdb.fn("%s::new" % M2)
    rule = "Mesh2D::new records nx = len(x_nodes), ny = len(y_nodes) and pushes nx*ny nvars-vectors in row-major nesting (x outer, y inner)"
    if fn is None:
        rep.missing("storage/mesh2d-new", rule, "not found")
    else:
        ctx = Ctx.for_fn(pdb, fn)
        pu = [e for e in effects(pdb, ctx) if e.kind == "push"]
        summ = ctor_summary(pdb, fn)
        ok = len(pu) == 1 and len(pu[0].loops) == 2 and summ is not None
        if ok:
            ro, ri = for_range(ctx, pu[0].loops[0]), for_range(ctx, pu[0].loops[1])
            v = pu[0].value
            ok = ro[1:4] == (num(0), SIZE(P(0)), False) and ri[1:4] == (num(0), SIZE(P(1)), False) and v[0] == "call" and str(v[1]).endswith("Vector<T>::new") and v[2] == P(2) and \
                summ.get("nx") == SIZE(P(0)) and summ.get("ny") == SIZE(P(1)) and summ.get("x_nodes") == P(0) and summ.get("y_nodes") == P(1) and summ.get("vars") == pu[0].target and summ.get("nvars") == P(2)
        rep.add("storage/mesh2d-new", rule, ok, fn["body"], "", where=loc(fn["body"]))
    for path, idx in (("%s" % M1, P(1)), ("%s" % M2, flat(P(1), P(2)))):
        sfn, gfn = pdb.fn("%s::set_nodes_vars" % path), pdb.fn("%s::get_nodes_vars" % path)
        key = "storage/%s-set-get" % ("mesh1d" if path == M1 else "mesh2d")
        rule = "set stores the argument itself in slot map(node) and get returns a clone of the same slot"
        if sfn is None or gfn is None:
            rep.missing(key, rule, "not found")
            continue
        sc, gc = Ctx.for_fn(pdb, sfn), Ctx.for_fn(pdb, gfn)
        se = [e for e in effects(pdb, sc) if e.kind == "set"]
        vec_param = P(2) if path == M1 else P(3)
        oks = len(se) == 1 and se[0].target == VARS and se[0].index == idx and se[0].value == vec_param
        gt = gc.term(gfn["body"]["expr"]) if gfn["body"].get("expr") is not None else None
        okg = gt == ("idx", VARS, idx)
        rep.add(key, rule, oks and okg, sfn["body"], "set: %s get: %s" % (oks, okg), where=loc(sfn["body"]))
    # ---- cross sections
    for name, fixed_pos, nodes_field, count in (("cross_section_xnode", 1, "y_nodes", NY), ("cross_section_ynode", 2, "x_nodes", NX)):
        fn = pdb.fn("%s::%s" % (M2, name))
        rule = ("cross_section_xnode(nodex) builds the 1-D mesh on the y nodes and copies get_nodes_vars(nodex, nodey) to node nodey for nodey in 0..ny; _ynode is the mirror image")
        if fn is None:
            rep.missing("cross-sections/%s" % name, rule, "not found")
            continue
        ctx = Ctx.for_fn(pdb, fn)
        calls = [n for n in walk(fn["body"]) if n.get("k") == "MethodCall" and callee_path(n) == "%s::set_nodes_vars" % M1.replace("<T, X>", "<T, X>")]
        calls = [n for n in walk(fn["body"]) if n.get("k") == "MethodCall" and str(callee_path(n)).endswith("Mesh1D<T, X>::set_nodes_vars")]
        ok = len(calls) == 1
        det = "set_nodes_vars calls=%d" % len(calls)
        if ok:
            c = calls[0]
            lp = [a for a in ancestors(c) if a.get("k") == "For"]
            r = for_range(ctx, lp[0]) if len(lp) == 1 else None
            a = [ctx.term(x) for x in call_args(c)]
            sec = a[0]
            sdef = ctx.def_term(sec) if sec[0] == "var" else None
            okc = sdef is not None and sdef[0] == "call" and str(sdef[1]).endswith("Mesh1D<T, X>::new") and sdef[2] == F(P(0), nodes_field) and sdef[3] == NV
            v = r[0] if r else None
            want_get = ("call", "%s::get_nodes_vars" % M2, P(0), P(1), v) if fixed_pos == 1 else ("call", "%s::get_nodes_vars" % M2, P(0), v, P(1))
            # ... or the accessor's body written out: a clone of the same storage slot (flat-index/* proves the slot in range)
            want_slot = ("idx", VARS, flat(P(1), v)) if fixed_pos == 1 else ("idx", VARS, flat(v, P(1)))
            ok = r is not None and r[1:5] == (num(0), count, False, False) and a[1] == v and a[2] in (want_get, want_slot) and okc and ctx.term(fn["body"]["expr"]) == sec
            det = "section on %s=%s full range=%s copies get(%s) to node=%s" % (nodes_field, okc, r is not None and r[1:5] == (num(0), count, False, False), "nodex, v" if fixed_pos == 1 else "v, nodey", a[2] in (want_get, want_slot))
        rep.add("cross-sections/%s" % name, rule, ok, fn["body"], det, where=loc(fn["body"]))
    # ---- var_as_matrix
    fn = pdb.fn("%s::var_as_matrix" % M2)
    rule = "var_as_matrix returns an nx x ny matrix with m[(i,j)] = vars[i*ny+j][var] over the full ranges"
    if fn is None:
        rep.missing("var-matrix", rule, "not found")
    else:
        ctx = Ctx.for_fn(pdb, fn)
        es = [e for e in effects(pdb, ctx) if e.kind == "set"]
        ok = len(es) == 1 and len(es[0].loops) == 2
        if ok:
            e = es[0]
            ri, rj = for_range(ctx, e.loops[0]), for_range(ctx, e.loops[1])
            i, j = ri[0], rj[0]
            shape = same_dim(pdb, ctx, e.node, F(e.target, "rows"), NX) and same_dim(pdb, ctx, e.node, F(e.target, "cols"), NY)
            ok = e.index == ("tup", i, j) and e.value == ("idx", ("idx", VARS, flat(i, j)), P(1)) and ri[1:5] == (num(0), NX, False, False) and rj[1:5] == (num(0), NY, False, False) and \
                shape and ctx.term(fn["body"]["expr"]) == e.target
        rep.add("var-matrix", rule, ok, fn["body"], "", where=loc(fn["body"]))
    # ---- assign / apply
    fn = pdb.fn("%s::assign" % M2)
    rule = "assign(e) writes e to every variable of every node: (i, j, v) over 0..nx x 0..ny x 0..nvars through the flat map"
    if fn is None:
        rep.missing("assign-apply/assign", rule, "not found")
    else:
        ctx = Ctx.for_fn(pdb, fn)
        es = [e for e in effects(pdb, ctx) if e.kind == "set"]
        ok = len(es) == 1 and len(es[0].loops) == 3
        if ok:
            e = es[0]
            r = [for_range(ctx, l) for l in e.loops]
            ok = all(x is not None for x in r) and [x[1:5] for x in r] == [(num(0), NX, False, False), (num(0), NY, False, False), (num(0), NV, False, False)] and \
                e.target == ("idx", VARS, flat(r[0][0], r[1][0])) and e.index == r[2][0] and e.value == P(1)
        rep.add("assign-apply/assign", rule, ok, fn["body"], "", where=loc(fn["body"]))
    fn = pdb.fn("%s::apply" % M2)
    rule = "apply(f, var) stores f(x_nodes[i], y_nodes[j]) in variable var of node (i, j) for every node (x from the x axis, y from the y axis)"
    if fn is None:
        rep.missing("assign-apply/apply", rule, "not found")
    else:
        ctx = Ctx.for_fn(pdb, fn)
        es = [e for e in effects(pdb, ctx) if e.kind == "set"]
        ok = len(es) == 1 and len(es[0].loops) == 2
        if ok:
            e = es[0]
            r = [for_range(ctx, l) for l in e.loops]
            ok = all(x is not None for x in r)
            if ok:
                i, j = r[0][0], r[1][0]
                v = e.value
                xa = v[2] if v[0] == "callv" and len(v) == 4 else None
                ya = v[3] if v[0] == "callv" and len(v) == 4 else None
                xa = ctx.def_term(xa) if xa is not None and xa[0] == "var" and ctx.def_term(xa) is not None else xa
                ya = ctx.def_term(ya) if ya is not None and ya[0] == "var" and ctx.def_term(ya) is not None else ya
                ok = [x[1:5] for x in r] == [(num(0), NX, False, False), (num(0), NY, False, False)] and e.target == ("idx", VARS, flat(i, j)) and e.index == P(2) and \
                    v[0] == "callv" and v[1] == P(1) and xa == ("idx", F(P(0), "x_nodes"), i) and ya == ("idx", F(P(0), "y_nodes"), j)
        rep.add("assign-apply/apply", rule, ok, fn["body"], "", where=loc(fn["body"]))
    # ---- trapezium 1-D
    fn = pdb.fn("%s::trapezium" % M1F)
    rule = "1-D trapezium: cells node in 0..len-1; dx = nodes[node+1]-nodes[node]; contribution 0.5*dx*(v[node] + v[node+1]) — the two end points of the same cell"
    if fn is None:
        rep.missing("trapezium-1d", rule, "not found")
    else:
        ctx = Ctx.for_fn(pdb, fn)
        es = [e for e in effects(pdb, ctx) if e.kind == "assignop"]
        ok = len(es) == 1
        if ok:
            e = es[0]
            r = for_range(ctx, e.loops[0])
            k = r[0]
            k1 = lin_add(k, num(1))
            dx = ("op", "-", ("idx", NODES, k1), ("idx", NODES, k))

            def val(n_):
                return ("idx", ("idx", VARS, n_), P(1))
            want = ("op", "*", ("op", "*", num("0.5"), dx), ("op", "+", val(k), val(k1)))
            acc = ctx.binds.get(e.target[1])
            ok = e.op == "+=" and _comm(e.value) == _comm(want) and r[1:5] == (num(0), lin_add(SIZE(NODES), num(-1)), False, False) and ctx.term(acc.init) == num(0)
        rep.add("trapezium-1d", rule, ok, fn["body"], "", where=loc(fn["body"]))
    # ---- an early `return 0.0` of a quadrature is for a mesh without a cell only (fewer than two nodes in a direction)
    for path_, dims_ in (("%s::trapezium" % M1F, (SIZE(NODES),)), ("%s::trapezium" % M2F, (NX, NY)), ("%s::square_trapezium" % M2F, (NX, NY))):
        fq = pdb.fn(path_)
        if fq is None:
            continue
        cq = Ctx.for_fn(pdb, fq)
        bad_q = []

        def no_cell(a_):
            # dim < 2, dim <= 1, dim == 0, dim == 1 (either operand order)
            if a_[0] != "cmp":
                return False
            op, l_, r_ = a_[1], a_[2], a_[3]
            if l_ in dims_ and r_[0] == "num":
                return (op == "<" and r_[1] <= 2) or (op == "<=" and r_[1] <= 1) or (op == "==" and r_[1] in (0, 1))
            if r_ in dims_ and l_[0] == "num":
                return op == "==" and l_[1] in (0, 1)
            return False
        for x in walk(fq["body"]):
            if x.get("k") != "Ret" or any(a.get("k") == "Closure" for a in ancestors(x)):
                continue
            fs_ = facts(cq, x)
            okq = x.get("e") is not None and cq.term(x["e"]) == num(0) and any(no_cell(f_) or (f_[0] == "or" and all(len(alt) >= 1 and any(no_cell(y) for y in alt) for alt in f_[1])) for f_ in fs_)
            if not okq:
                bad_q.append(x)
        rep.add("quadrature-early-return/%s" % path_.rsplit("::", 1)[-1] + ("-1d" if dims_ == (SIZE(NODES),) else ""), "a quadrature returns early only with 0.0 and only for a mesh that has no cell (fewer than two nodes "
                "in some direction): `nx <= 2` also drops the one-cell-wide mesh", not bad_q, bad_q[0] if bad_q else fq["body"], "early returns not justified by an empty mesh: %d" % len(bad_q))
    # ---- trapezium 2-D
    for name, sq in (("trapezium", False), ("square_trapezium", True)):
        fn = pdb.fn("%s::%s" % (M2F, name))
        rule = ("2-D trapezium: cells (i,j) in 0..nx-1 x 0..ny-1; dx, dy from consecutive nodes of the right axis; weight 0.25*dx*dy; the four addends are the four "
                "DISTINCT corners (i,j),(i+1,j),(i,j+1),(i+1,j+1) through the flat map%s" % ("; each corner enters as powf(abs(.),2)" if sq else ""))
        if fn is None:
            rep.missing("trapezium-2d/%s" % name, rule, "not found")
            continue
        ctx = Ctx.for_fn(pdb, fn)
        es = [e for e in effects(pdb, ctx) if e.kind == "assignop"]
        ok = len(es) == 1 and len(es[0].loops) == 2
        det = ""
        if ok:
            e = es[0]
            ri, rj = for_range(ctx, e.loops[0]), for_range(ctx, e.loops[1])
            i, j = ri[0], rj[0]
            v = e.value
            okw = False
            corners = []
            if v[0] == "op" and v[1] == "*":
                w, s = v[2], v[3]
                dx = ("op", "-", ("idx", F(P(0), "x_nodes"), lin_add(i, num(1))), ("idx", F(P(0), "x_nodes"), i))
                dy = ("op", "-", ("idx", F(P(0), "y_nodes"), lin_add(j, num(1))), ("idx", F(P(0), "y_nodes"), j))
                okw = _comm(w) == _comm(("op", "*", ("op", "*", num("0.25"), dx), dy))

                def fl(t):
                    if t[0] == "op" and t[1] == "+":
                        fl(t[2])
                        fl(t[3])
                    else:
                        corners.append(t)
                fl(s)
            idxs = []
            okc = len(corners) == 4
            for c in corners:
                if sq:
                    if not (c[0] == "call" and str(c[1]).endswith("powf") and c[3] == num(2) and c[2][0] == "call" and str(c[2][1]).endswith("::abs")):
                        okc = False
                        continue
                    c = c[2][2]
                if c[0] == "idx" and c[2] == P(1) and c[1][0] == "idx" and c[1][1] == VARS:
                    idxs.append(c[1][2])
                else:
                    okc = False
            want = {flat(i, j), flat(lin_add(i, num(1)), j), flat(i, lin_add(j, num(1))), flat(lin_add(i, num(1)), lin_add(j, num(1)))}
            okc = okc and set(idxs) == want and len(set(idxs)) == 4
            okr = ri[1:5] == (num(0), lin_add(NX, num(-1)), False, False) and rj[1:5] == (num(0), lin_add(NY, num(-1)), False, False)
            acc = ctx.binds.get(e.target[1])
            ok = e.op == "+=" and okw and okc and okr and ctx.term(acc.init) == num(0)
            det = "weight 0.25*dx*dy=%s four distinct corners=%s cell ranges=%s" % (okw, okc, okr)
        rep.add("trapezium-2d/%s" % name, rule, ok, fn["body"], det, where=loc(fn["body"]))
    # ---- interpolation
    fn = pdb.fn("%s::get_interpolated_vars" % M1F)
    rule = ("inside the bracketing test for cell `node`: result = left + (right - left)/(x[node+1] - x[node]) * (x_pos - x[node]) with left = vars(node), right = vars(node+1); "
            "the bracket test uses the same node / node+1")
    if fn is None:
        rep.missing("interpolation", rule, "not found")
    else:
        ctx = Ctx.for_fn(pdb, fn)
        es = [e for e in effects(pdb, ctx) if e.kind == "assign" and e.loops]
        ok = len(es) == 1
        det = ""
        if ok:
            e = es[0]
            r = for_range(ctx, e.loops[0])
            k = r[0]
            k1 = lin_add(k, num(1))
            xk, xk1 = ("idx", NODES, k), ("idx", NODES, k1)
            g = "%s::get_nodes_vars" % M1
            L, R = ("call", g, P(0), k), ("call", g, P(0), k1)
            want = ("op", "+", L, ("op", "*", ("op", "/", ("op", "-", R, L), ("op", "-", xk1, xk)), ("op", "-", P(1), xk)))

            def _at(t, x):
                """the value term with x_pos := x, simplified with floating-point-exact rewrites only (t - t = 0, 0 * y = 0 and
                y + 0 = y for finite values, x == x for a non-NaN coordinate); (a / b) * b is NOT rewritten to a"""
                if not isinstance(t, tuple):
                    return t
                if t == P(1):
                    return x
                t = tuple(_at(c, x) if isinstance(c, tuple) else c for c in t)
                zero = num(0)
                if t[0] == "op" and len(t) == 4:
                    o, a_, b_ = t[1], t[2], t[3]
                    if o == "-" and a_ == b_:
                        return zero
                    if o == "*" and zero in (a_, b_):
                        return zero
                    if o == "+" and b_ == zero:
                        return a_
                    if o == "+" and a_ == zero:
                        return b_
                    if o == "-" and b_ == zero:
                        return a_
                    if o in ("==", "!=") and a_ != b_ and a_[0] == "idx" and b_[0] == "idx" and a_[1] == b_[1] == NODES and \
                            lin_sub(a_[2], b_[2])[0] == "num" and lin_sub(a_[2], b_[2])[1] != 0:
                        return ("false",) if o == "==" else ("true",)      # the property's grids are strictly increasing: distinct nodes differ
                    if o in ("==", "<=", ">=") and a_ == b_:
                        return ("true",)
                    if o in ("!=", "<", ">") and a_ == b_:
                        return ("false",)
                if t[0] == "ite" and t[1] == ("true",):
                    return t[2]
                if t[0] == "ite" and t[1] == ("false",):
                    return t[3]
                return t

            def _generic(t):
                """the value at a point that is not a node: `x_pos == x[..]` tests are false"""
                if isinstance(t, tuple) and t and t[0] == "ite" and t[1][0] == "op" and t[1][1] in ("==", "!=") and P(1) in (t[1][2], t[1][3]):
                    return _generic(t[3] if t[1][1] == "==" else t[2])
                return t
            okv = _generic(e.value) == want
            # nodal values are reproduced exactly: at x_pos = x[node] the formula is left + slope * 0; the FINAL node is no
            # cell's left end, so the same must hold at the right end x_pos = x[node+1] (left + ((right-left)/dx)*dx is not
            # `right` in floating point)
            at_l, at_r = _at(e.value, xk), _at(e.value, xk1)
            rep.add("interpolation/nodal-exact", "at x_pos = x[node] the assigned value reduces to vars(node), and at x_pos = x[node+1] to vars(node+1) (the final node is matched only as a "
                    "right-hand end), using floating-point-exact simplifications only: t - t = 0, s * 0 = 0, v + 0 = v -- never (a / b) * b = a",
                    at_l == L and at_r == R, e.node, "value at the left node: %s; at the right node: %s" % (show(at_l, ctx)[:160], show(at_r, ctx)[:200]))
            ifs = [a for a in ancestors(e.node) if a.get("k") == "If"]
            okb = False
            if ifs:
                c = ctx.term(ifs[0]["cond"])
                # ((x[k] < x_pos) && (x[k+1] > x_pos)) || |x[k]-x_pos| < eps || |x[k+1]-x_pos| < eps
                s = repr(c)
                okb = repr(("op", "<", xk, P(1))) in s and repr(("op", ">", xk1, P(1))) in s and repr(("op", "-", xk, P(1))) in s and repr(("op", "-", xk1, P(1))) in s
            # the snapping window around a node: the property lets points closer than 1e-7 to a node use the neighbouring
            # cell's line, and requires every point at least 1e-6 away to be interpolated in its own cell: each
            # |x[..] - x_pos| comparison must be against a literal not larger than 1e-6 (a window that grows with the
            # mesh extent or with the coordinates swallows such points)
            oksnap, snaps = True, []
            if ifs:
                def _has_abs(t):
                    return isinstance(t, tuple) and ((t[0] == "call" and str(t[1]).endswith("abs")) or any(_has_abs(x) for x in t if isinstance(x, tuple)))

                def _cmp_nodes(t):
                    if isinstance(t, tuple):
                        if t and t[0] == "op" and len(t) == 4 and t[1] in ("<", "<=", ">", ">="):
                            yield t
                        for x in t:
                            if isinstance(x, tuple):
                                yield from _cmp_nodes(x)
                for cmp_ in _cmp_nodes(ctx.term(ifs[0]["cond"])):
                    a_, b_ = cmp_[2], cmp_[3]
                    if _has_abs(a_) or _has_abs(b_):
                        other = b_ if _has_abs(a_) else a_
                        other = ctx.def_term(other) if other[0] == "var" and ctx.def_term(other) is not None else other
                        good = other[0] == "num" and 0 < other[1] <= Fraction(1, 10**6)
                        snaps.append(show(other, ctx))
                        oksnap = oksnap and good
            okb = okb and oksnap
            okr = r[1:5] == (num(0), lin_add(SIZE(NODES), num(-1)), False, False)
            rb = ctx.binds.get(e.target[1])
            ri = ctx.term(rb.init) if rb is not None and rb.init is not None else None
            okz = ri is not None and ri[0] == "call" and str(ri[1]).endswith("Vector<T>::new") and ri[2] == NV
            ok = okv and okb and okr and okz and ctx.term(fn["body"]["expr"]) == e.target
            det = "formula=%s bracket on the same cell=%s (snap windows %s, each a literal <= 1e-6: %s) cells 0..len-1=%s result has nvars entries=%s" % (okv, okb, snaps, oksnap, okr, okz)
        rep.add("interpolation", rule, ok, fn["body"], det, where=loc(fn["body"]))
        # an early `return` may only give up on positions OUTSIDE the mesh: left of the first node or right of the last one
        # (by any non-negative margin).  `x < first + 1e-7` also gives up AT the first node.
        from .guards import facts as _fx
        ctxi = Ctx.for_fn(pdb, fn)
        XP = P(1)
        FIRST = ("idx", NODES, num(0))
        LASTN = ("idx", NODES, lin_add(SIZE(NODES), num(-1)))

        def _res(t_):
            if isinstance(t_, tuple):
                if t_ and t_[0] == "var" and len(t_) == 2 and ctxi.def_term(t_) is not None:
                    return _res(ctxi.def_term(t_))
                return tuple(_res(x_) if isinstance(x_, tuple) else x_ for x_ in t_)
            return t_

        def _outside(at):
            """x < first - c  or  last + c < x  with c >= 0"""
            if at[0] != "cmp" or at[1] not in ("<", "<="):
                return False
            lo, hi = _res(at[2]), _res(at[3])
            def margin(t_, base):
                if t_ == base:
                    return 0
                if t_[0] == "op" and t_[1] in ("+", "-") and t_[2] == base and t_[3][0] == "num":
                    return t_[3][1] if t_[1] == "+" else -t_[3][1]
                return None
            if lo == XP:
                m = margin(hi, FIRST)
                return m is not None and m <= 0
            if hi == XP:
                m = margin(lo, LASTN)
                return m is not None and m >= 0
            return False
        bad_r = []
        for r_ in [n for n in walk(fn["body"]) if n.get("k") == "Ret" and not any(a.get("k") == "Closure" for a in ancestors(n))]:
            fs = _fx(ctxi, r_)
            okr_ = any(_outside(f_) for f_ in fs) or any(f_[0] == "or" and all(len(a_) == 1 and _outside(a_[0]) for a_ in f_[1]) for f_ in fs)
            if not okr_:
                bad_r.append(r_)
        rep.add("interpolation/early-return", "an early return of get_interpolated_vars gives up only on positions outside the mesh (x < first - c or x > last + c, c >= 0); every position from the first "
                "node to the last one goes through the cell search", not bad_r, bad_r[0] if bad_r else fn["body"], "early returns not confined to the outside: %d" % len(bad_r),
                where=loc(bad_r[0]) if bad_r else loc(fn["body"]))
    # ---- io agreement
    w, rd = pdb.fn("%s::output" % M1), pdb.fn("%s::read" % M1F)
    rule = ("writer: per node one coordinate then nvars values (one record per node in index order); reader: stride nvars+1, token i is a coordinate iff i % stride == 0 and "
            "variable v of node i / stride iff i % stride == v+1 — the writer's tokens per record equal the reader's stride and the field order agrees")
    if w is None or rd is None:
        rep.missing("io-agreement", rule, "output or read not found")
    else:
        wc, rc = Ctx.for_fn(pdb, w), Ctx.for_fn(pdb, rd)
        loops = [n for n in walk(w["body"]) if n.get("k") == "For"]
        okw = len(loops) == 2
        if okw:
            ro, ri = for_range(wc, loops[0]), for_range(wc, loops[1])
            i, v = ro[0], ri[0]
            coord, vals = [], []
            for n in walk(w["body"]):
                if n.get("k") == "Index" and not in_macro(n):
                    t = wc.term(n)
                    if t == ("idx", NODES, i):
                        coord.append(n)
                    if t == ("idx", ("idx", VARS, i), v):
                        vals.append(n)
            okw = ro[1:5] == (num(0), SIZE(NODES), False, False) and ri[1:5] == (num(0), NV, False, False) and len(coord) == 1 and len(vals) == 1 and \
                not any(a is loops[1] for a in ancestors(coord[0])) and any(a is loops[1] for a in ancestors(vals[0])) and _pos(coord[0]) < _pos(loops[1])
        stride = lin_add(NV, num(1))
        pu = [e for e in effects(pdb, rc) if e.kind == "push"]
        st = [e for e in effects(pdb, rc) if e.kind == "set"]
        okr = len(pu) == 1 and len(st) == 1
        alt = False
        if okr:
            p_, s_ = pu[0], st[0]
            ri_ = for_range(rc, p_.loops[0]) if p_.loops else None
            rs0 = for_range(rc, s_.loops[0]) if s_.loops else None
            okr = ri_ is not None and rs0 is not None
            if rs0 is not None and len(s_.loops) in (1, 2):
                # the second, equivalent spelling: coordinates = every stride-th token (`tokens.iter().step_by(stride)`, or the `i % stride == 0`
                # loop), variables = `vars[i / stride][i % stride - 1]` for every token with `i % stride != 0`
                i2 = rs0[0]
                md = ("op", "%", i2, stride)
                fs2 = facts(rc, s_.node)
                nonzero = any(f[0] == "cmp" and f[1] == "!=" and {f[2], f[3]} == {md, num(0)} for f in fs2) or any(f[0] == "cmp" and f[1] == "<" and f[2] == num(0) and f[3] == md for f in fs2)
                slot2 = s_.target == ("idx", VARS, ("op", "/", i2, stride)) and lin_add(s_.index, num(1)) == md
                if len(s_.loops) == 2:
                    # the variable picked by an inner loop `for var in 0..nvars { if i % stride == var + 1 { .. } }`
                    rv2 = for_range(rc, s_.loops[1])
                    v2 = rv2[0] if rv2 else None
                    nonzero = v2 is not None and rv2[1:4] == (num(0), NV, False) and any(f[0] == "cmp" and f[1] == "==" and {f[2], f[3]} == {md, lin_add(v2, num(1))} for f in fs2)
                    slot2 = s_.target == ("idx", VARS, ("op", "/", i2, stride)) and s_.index == v2
                tokv = lambda v_: v_[0] == "call" and str(v_[1]).endswith("unwrap") and v_[2][0] == "call" and str(v_[2][1]).endswith("from_str")
                toks = s_.value[2][2][1] if tokv(s_.value) and s_.value[2][2][0] == "idx" and s_.value[2][2][2] == i2 else None
                full2 = toks is not None and rs0[1] == num(0) and rs0[2] == ("len", toks) and not rs0[3]
                coord2 = False
                if toks is not None and tokv(p_.value) and p_.loops:
                    lp_ = p_.loops[0]
                    it_ = rc.term(lp_["iter"]) if lp_.get("k") == "For" and lp_.get("iter") is not None else None
                    if it_ is not None and it_[0] == "call" and str(it_[1]).endswith("::step_by") and it_[2] == ("call", "[T]::iter", toks) and it_[3] == stride and \
                            lp_["pat"].get("k") == "Bind" and p_.value[2][2] == ("var", lp_["pat"]["v"]):
                        coord2 = True
                    elif ri_ is not None and p_.value[2][2] == ("idx", toks, ri_[0]) and ri_[1] == num(0) and ri_[2] == ("len", toks) and \
                            any(f[0] == "cmp" and f[1] == "==" and {f[2], f[3]} == {("op", "%", ri_[0], stride), num(0)} for f in facts(rc, p_.node)):
                        coord2 = True
                splitws = toks is not None and toks[0] == "call" and str(toks[1]).endswith("collect") and toks[2][0] == "call" and str(toks[2][1]).endswith("split_whitespace")
                nb2 = rc.binds.get(p_.target[1]) if p_.target[0] == "var" else None
                nfresh2 = nb2 is not None and nb2.init is not None and rc.term(nb2.init)[0] == "call" and str(rc.term(nb2.init)[1]).endswith("::empty") and len(rc.term(nb2.init)) == 2
                repl2 = [e for e in effects(pdb, rc) if e.kind == "assign" and e.target == NODES and e.value == p_.target]
                alt = bool(nonzero and slot2 and full2 and coord2 and splitws and nfresh2 and len(repl2) == 1)
        if alt:
            okr = True
        elif okr:
            i = ri_[0]
            fp = facts(rc, p_.node)
            iscoord = any(f[0] == "cmp" and f[1] == "==" and {f[2], f[3]} == {("op", "%", i, stride), num(0)} for f in fp)
            rs = for_range(rc, s_.loops[0])
            i2 = rs[0]
            rv = for_range(rc, s_.loops[1]) if len(s_.loops) > 1 else None
            v = rv[0] if rv else None
            fs = facts(rc, s_.node)
            isvar = v is not None and any(f[0] == "cmp" and f[1] == "==" and {f[2], f[3]} == {("op", "%", i2, stride), lin_add(v, num(1))} for f in fs)
            slot = s_.target == ("idx", VARS, ("op", "/", i2, stride)) and s_.index == v
            tok = lambda e, ii: e.value[0] == "call" and str(e.value[1]).endswith("unwrap") and e.value[2][0] == "call" and str(e.value[2][1]).endswith("from_str") and e.value[2][2][0] == "idx" and e.value[2][2][2] == ii
            # the token list is the unfiltered whitespace split of the file contents
            def toklist(e):
                b = e.value[2][2][1]
                return b[0] == "call" and str(b[1]).endswith("collect") and b[2][0] == "call" and str(b[2][1]).endswith("split_whitespace")
            # the coordinates are collected in a fresh empty vector that then REPLACES self.nodes
            nb = rc.binds.get(p_.target[1]) if p_.target[0] == "var" else None
            nfresh = nb is not None and nb.init is not None and rc.term(nb.init)[0] == "call" and str(rc.term(nb.init)[1]).endswith("::empty") and len(rc.term(nb.init)) == 2
            repl = [e for e in effects(pdb, rc) if e.kind == "assign" and e.target == NODES and e.value == p_.target]
            replaces = nfresh and len(repl) == 1
            unfiltered = replaces and tok(p_, i) and tok(s_, i2) and toklist(p_) and toklist(s_) and p_.value[2][2][1] == s_.value[2][2][1] and ri_[2] == ("len", p_.value[2][2][1])
            okr = iscoord and isvar and slot and unfiltered and rv is not None and rv[1:4] == (num(0), NV, False)
        rep.add("io-agreement", rule, bool(okw and okr), w["body"], "writer record = coordinate + nvars values: %s; reader stride nvars+1 with matching field order: %s" % (okw, okr), where=loc(w["body"]))
        # every number the writer prints is delimited: the reader tokenises with split_whitespace()
        rule_s = ("every placeholder of the writer's format strings is separated from the next printed value by white space in the literal text (the same side - after or before - "
                  "in every write!): the reader splits on white space, so a column format without a blank fuses two numbers as soon as one fills its width")
        # every lowered format_args! of the writer (write!, writeln!, format!, format_args! ...) carries its template as a byte-string literal
        writes = sorted([n for n in walk(w["body"]) if n.get("k") == "Lit" and isinstance(n.get("v"), str) and n["v"].startswith("b:") and
                         (n.get("x") or any(a.get("m") or a.get("x") for a in ancestors(n)))], key=_pos)      # (inside a macro expansion: not a byte string of the user's)
        tmpls, unknown = [], 0
        for n in writes:
            toks = decode_fmt_template(bytes.fromhex(n["v"][2:]))
            if toks is None:
                unknown += 1
            else:
                tmpls.append((n, toks))
        unknown += len([n for n in walk(w["body"]) if n.get("k") == "Lit" and n.get("v") == "?" and any(a.get("m") for a in ancestors(n))])
        bad_w, styles = [], set()
        for n, toks in tmpls:
            phs = [i for i, t in enumerate(toks) if t[0] == "ph"]
            if not phs:
                continue
            ws = lambda t: t[0] == "lit" and any(ch.isspace() for ch in t[1])
            inner = all(any(ws(t) for t in toks[a + 1:b]) for a, b in zip(phs, phs[1:]))
            after, before = any(ws(t) for t in toks[phs[-1] + 1:]), any(ws(t) for t in toks[:phs[0]])
            if not inner or not (after or before):
                bad_w.append(n)
            else:
                styles.add("after" if after else "before")
        oks = bool(tmpls) and not bad_w and not unknown and len(styles) <= 1
        rep.add("io-separated", rule_s, oks, bad_w[0] if bad_w else w["body"], "format templates: %d, with placeholders: %d, not delimited: %d, template not decoded: %d, styles: %s" % (
            len(writes), len([1 for _, t in tmpls if any(x[0] == "ph" for x in t)]), len(bad_w), unknown, sorted(styles)), where=loc(bad_w[0]) if bad_w else loc(w["body"]))
        # the writer starts from an empty file: a longer earlier output must not survive behind a shorter new one
        creates = [n for n in walk(w["body"]) if n.get("k") == "Call" and strip(n["f"]).get("k") == "Def" and str(n["f"].get("fn", "")).endswith("File::create")]
        opens = [n for n in walk(w["body"]) if n.get("k") == "MethodCall" and n.get("name") == "open" and "OpenOptions" in str(n.get("fn") or n.get("impl") or "")]
        def _chain(n):
            out = []
            r_ = strip(n["recv"])
            while r_.get("k") == "MethodCall":
                out.append((r_.get("name"), [strip(a) for a in r_.get("args", [])]))
                r_ = strip(r_["recv"])
            return out
        okt = bool(creates) or bool(opens)
        dett = "File::create calls: %d, OpenOptions::open calls: %d" % (len(creates), len(opens))
        for o_ in opens:
            ch = _chain(o_)
            trunc = any(nm == "truncate" and a_ and a_[0].get("k") == "Lit" and a_[0].get("v") == "true" for nm, a_ in ch)
            app = any(nm == "append" and a_ and a_[0].get("k") == "Lit" and a_[0].get("v") == "true" for nm, a_ in ch)
            if not trunc or app:
                okt = False
                dett += "; open without truncate(true) at %s" % loc(o_)
        rep.add("io-truncates", "output opens the file truncating it (File::create, or OpenOptions with truncate(true) and no append): otherwise the tail of a longer earlier output is read back as extra records",
                okt, (opens or creates or [w["body"]])[0], dett)
    rep.floor("flat-index/", 10)
    rep.floor("accessor-guards/", 9)
    rep.floor("storage/", 4)
    rep.floor("cross-sections/", 2)
    rep.floor("trapezium-2d/", 2)
    rep.floor("assign-apply/", 2)
    rep.assumptions += ["exactness of the quadrature for (bi)linear data and of the interpolant on dyadic grids, the printed-precision round trip and behaviour inside the 1e-7 snapping window are numerical and not decided statically",
                        "the raw (i,j) index operators of Mesh2D state no range check and are outside the flat-index claim"]
    return {"flat_sites": n_sites}


def _comm(t):
    if not isinstance(t, tuple):
        return t
    if t[0] == "op":
        a, b = _comm(t[2]), _comm(t[3])
        if t[1] in ("+", "*") and repr(a) > repr(b):
            a, b = b, a
        return ("op", t[1], a, b)
    return tuple(_comm(x) if isinstance(x, tuple) else x for x in t)


def _pos(n):
    sp = n.get("sp")
    return (sp[0], sp[1]) if sp else (0, 0)
