"""Thorough tier extras (witness doctests, multi-profile PDB agreement, seeded self-test). Filled in later."""


def run(prop, rep, db, mod, args):
    return {}
