"""Thorough tier: everything the quick tier does, plus

 (a) the compile-time witnesses (witness/: compile_fail doctests with compiling twins, nightly so the error
     codes are enforced) for the properties that have type-level clauses;
 (b) the rule verdicts are recomputed on PDBs built under the other cargo profiles (`--release`, test cfg) and
     must be identical to the dev-profile verdicts (no verdict depends on the profile);
 (c) `cargo +nightly check --all-targets` through the driver confirms the whole tree (tests, examples) builds;
 (d) the sensitivity self-test: every seeded one-construct edit of this property that still applies to the
     CURRENT tree is applied to a scratch copy outside /repo and /verif, the driver and the rules are rerun on it
     and `detected k / applied n` is recorded.  An undetected seed is a weakness of the checker, not a violation
     of the property, and never fails the check — with one exception: the seeds that re-introduce a defect this
     very rule found and that was repaired in /repo (positive fixtures for rules whose expected count is zero).
     If such a seed applies and the rule stays silent, the rule is dead and the check fails closed.
"""
import importlib
import os
import shutil
import subprocess
import tempfile
import time

from . import pdb as pdbmod
from .report import Report

WITNESS_PROPS = {"C02": ["MatrixSharedRefIsReadOnly", "DeterminantTakesSharedRef"],
                 "C16": ["DotTakesSharedRefs"],
                 "C17": ["NewtonSolveTakesSharedRef", "NewtonFieldsArePrivate"],
                 "C20": ["MatrixSharedRefIsReadOnly", "VectorSharedRefIsReadOnly", "OwnedOperatorsConsume", "SparseIsNotClone", "SolversTakeSharedRefs",
                         "DeterminantTakesSharedRef", "NewtonSolveTakesSharedRef", "DotTakesSharedRefs"]}


def run_witnesses(rep, prop):
    names = WITNESS_PROPS.get(prop)
    if not names:
        return {}
    wdir = os.path.join(pdbmod.VERIF, "witness")
    tmp = tempfile.mkdtemp(prefix="ohsl-witness-")
    out = {}
    try:
        work = os.path.join(tmp, "witness")
        shutil.copytree(wdir, work, ignore=shutil.ignore_patterns("target", "Cargo.lock"))
        # the witness crate path-depends on the analysed tree
        repo = pdbmod.REPO
        toml = open(os.path.join(work, "Cargo.toml")).read().replace('path = "/repo"', 'path = "%s"' % repo)
        open(os.path.join(work, "Cargo.toml"), "w").write(toml)
        if os.path.exists(os.path.join(repo, "Cargo.lock")):
            shutil.copy(os.path.join(repo, "Cargo.lock"), os.path.join(work, "Cargo.lock"))
        env = dict(os.environ, CARGO_NET_OFFLINE="true", CARGO_TARGET_DIR=os.path.join(tmp, "t"))
        env.pop("RUSTC_WORKSPACE_WRAPPER", None)
        r = subprocess.run(["cargo", "+nightly", "test", "--doc", "--offline"], cwd=work, env=env, capture_output=True, text=True)
        lines = [l for l in r.stdout.splitlines() if l.startswith("test src/lib.rs")]
        res = {}
        for l in lines:
            # test src/lib.rs - Name (line N) - compile fail ... ok
            parts = l.split(" - ")
            nm = parts[1].split(" ")[0]
            kind = "compile_fail" if "compile fail" in l else "compiles"
            ok = l.rstrip().endswith("ok")
            res.setdefault(nm, []).append((kind, ok))
        for nm in names:
            got = res.get(nm)
            if not got:
                rep.missing("witnesses/%s" % nm, "compile_fail witness with compiling twin", "witness %s did not run:\n%s" % (nm, (r.stdout + r.stderr)[-1500:]))
                continue
            okall = all(ok for _, ok in got) and any(k == "compile_fail" for k, _ in got) and any(k == "compiles" for k, _ in got)
            rep.add("witnesses/%s" % nm, "the violating program is rejected by rustc with the expected error code and its twin compiles (external user's view)",
                    okall, where="witness/src/lib.rs", msg="%s" % got, proof=True)
        out["witness_blocks"] = sum(len(v) for k, v in res.items() if k in names)
    finally:
        shutil.rmtree(tmp, ignore_errors=True)
    return out


def verdicts(rep):
    return sorted((r.key, r.status) for r in rep.results if r.status != "info")


def run_profiles(rep, prop, mod, base_rep):
    """Recompute the verdicts on PDBs of the other cargo profiles."""
    out = {}
    base = verdicts(base_rep)
    for label, kw in (("release", {"profile": "release"}), ("test-cfg", {"cfg_test": True})):
        t0 = time.time()
        try:
            d, info = pdbmod.build_pdb(**kw)
        except pdbmod.PdbError as e:
            rep.missing("profiles/%s" % label, "the tree builds under this profile", str(e)[-800:])
            continue
        r2 = Report(prop)
        db2 = pdbmod.Pdb(d)
        mod.run(r2, db2, "quick")
        # the same pipeline as the quick tier: dependency closure and hidden-state rules on this profile's program database
        if not os.environ.get("VERIF_NO_DEPS"):
            from . import deps
            deps.run(prop, r2, db2)
        from . import state
        state.run(prop, r2, db2)
        same = verdicts(r2) == base
        diff = sorted(set(verdicts(r2)) ^ set(base))[:6]
        rep.add("profiles/%s" % label, "the rule verdicts do not depend on the cargo profile (same instances, same verdicts)", same, where="cargo %s" % label,
                msg="instances=%d differing=%s (%.1fs)" % (len(verdicts(r2)), diff, time.time() - t0), nontrivial=False)
        out[label] = {"instances": len(verdicts(r2)), "identical": same}
    return out


def run_all_targets(rep):
    t0 = time.time()
    try:
        pdbmod.build_pdb(all_targets=True)
        rep.add("all-targets", "the whole tree (lib, tests, examples) type-checks through the driver", True, where="cargo check --all-targets", msg="%.1fs" % (time.time() - t0), nontrivial=False)
        return {"all_targets_build": True}
    except pdbmod.PdbError as e:
        rep.missing("all-targets", "the whole tree builds", str(e)[-800:])
        return {"all_targets_build": False}


def run_selftest(rep, prop):
    import sys
    sys.path.insert(0, pdbmod.VERIF)
    from selftest import runner
    from selftest.seeds import SEEDS
    seeds = [s for s in SEEDS if s["prop"] == prop]
    res = runner.run_all(prop, None, jobs=8)
    by = {r["id"]: r for r in res}
    applied = [r for r in res if r["status"] not in ("skipped", "does-not-compile")]
    detected = [r for r in applied if r["status"] in ("detected", "detected-elsewhere")]
    neutral = [r for r in applied if r["status"] in ("silent-ok", "false-alarm")]
    missed = [r["id"] for r in applied if r["status"] == "missed"]
    false_alarms = [r["id"] for r in applied if r["status"] == "false-alarm"]
    # positive fixtures: seeds re-introducing a repaired defect must be reported
    for s in seeds:
        if "original defect" in (s.get("note") or ""):
            r = by.get(s["id"])
            if r is None or r["status"] in ("skipped", "does-not-compile"):
                rep.info("selftest/fixture/%s" % s["id"], "positive fixture no longer applies textually (skipped)")
                continue
            rep.add("selftest/fixture/%s" % s["id"], "positive fixture: re-introducing the repaired defect in a scratch copy must be reported by the rule that found it",
                    r["status"] in ("detected", "detected-elsewhere"), where="scratch copy of %s" % s["file"], msg="%s %s" % (r["status"], r.get("keys")), nontrivial=False)
    return {"selftest": {"seeds": len(seeds), "applied": len(applied), "detected": len(detected), "missed": missed,
                         "neutral_edits": len(neutral), "false_alarms_on_neutral_edits": false_alarms,
                         "per_seed": {r["id"]: r["status"] for r in res}}}


def run(prop, rep, db, mod, args):
    extra = {}
    base = Report(prop)
    base.results = [r for r in rep.results]
    extra.update(run_witnesses(rep, prop))
    extra["profiles"] = run_profiles(rep, prop, mod, base)
    extra.update(run_all_targets(rep))
    if not getattr(args, "repo", None):
        extra.update(run_selftest(rep, prop))
    return extra
