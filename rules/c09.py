"""C09 — only the degenerate-start clause is decided statically: zero-norm guard and acceptance of a start
that already solves the system.  Convergence within O(n) iterations and agreement with the direct solution
are statements about values of Krylov recurrences: not applicable to static analysis."""
from .pdb import strip, walk, loc, ancestors
from .terms import Ctx, num, show
from .common import P, effects, is_zero_term, callee_path
from .guards import facts, cond_atoms, diverges
from .c08 import Solver, SOLVERS, S64, tested_vector, norm_def, TOL, X_, _pos

LEVEL = "other"


def run(rep, pdb, tier):
    for name in SOLVERS:
        sv = Solver(pdb, name)
        if not sv.ok or sv.main is None:
            rep.missing("anchor/%s" % name, "solver with one main loop exists", "not found")
            continue
        ctx, fn = sv.ctx, sv.fn
        # ---- divisors of residual normalisations
        divs = []
        for n in walk(fn["body"]):
            if n.get("k") == "Binary" and n.get("op") == "/" and not in_macro_(n):
                t = ctx.term(n)
                nd = norm_def(t)
                if nd is not None:
                    divs.append((n, nd[1]))
        # a divisor named in one place and (an immutable `let`) inlined in another is one divisor
        def _norm_div(d):
            if d[0] == "var":
                dd = ctx.def_term(d)
                from .c08 import repaired_norm as _rn
                if dd is not None and _rn(dd) is not None:
                    return dd
            return d
        if len({d for _, d in divs}) > 1:
            divs = [(n_, _norm_div(d)) for n_, d in divs]
        dvars = {d for _, d in divs}
        rule = "the divisor of every residual normalisation is a local that, after its definition from norm_2(), passes `if n == 0.0 { n = 1.0 }` before its first use as divisor"
        ok, det = len(dvars) == 1 and list(dvars)[0][0] == "var" and len(divs) >= 1, "normalisation divisors: %s" % [show(d, ctx) for d in dvars]
        from .c08 import repaired_norm
        if len(dvars) == 1 and len(divs) >= 1 and repaired_norm(list(dvars)[0]) is not None:
            N = repaired_norm(list(dvars)[0])

            def _all_norms(t):
                # N itself, or a selection among norms (`match itol { 1 => b.norm_2(), 2 => z.norm_2(), _ => panic!() }`)
                if t[0] == "ite":
                    return all(_all_norms(x) for x in t[2:] if x[0] != "diverge")
                return t[0] == "call" and str(t[1]).endswith("::norm_2")
            ok = _all_norms(N)
            det = "divisor is the repaired expression `if N == 0 { c } else { N }`, N = %s" % show(N, ctx)
        elif ok:
            from .c08 import copy_source
            nb = copy_source(ctx, list(dvars)[0])
            first_use = min(_pos(n) for n, _ in divs)
            fix = None
            for a_ in ctx.assigns.get(nb[1], []):
                # the repair written as an assignment: n = if n == 0.0 { c } else { n }
                if a_.get("k") == "Assign" and repaired_norm(ctx.term(a_["r"])) == nb and fix is None:
                    fix = a_
            for n in walk(fn["body"]):
                if n.get("k") == "If" and n.get("else") is None:
                    atoms = cond_atoms(ctx, n["cond"], True)
                    if len(atoms) == 1 and atoms[0][0] == "cmp" and atoms[0][1] == "==" and {atoms[0][2], atoms[0][3]} == {nb, num(0)}:
                        sets = [e for e in effects(pdb, ctx, n["then"]) if e.kind == "assign" and e.target == nb and e.value[0] == "num" and e.value[1] != 0]
                        if len(sets) == 1:
                            fix = n
            b = ctx.binds.get(nb[1])
            defs = [a for a in ctx.assigns.get(nb[1], [])]
            def_pos = []
            if b is not None and b.init is not None:
                def_pos.append(_pos(b.node))
            for a in defs:
                if fix is None or not (a is fix or any(x is fix for x in ancestors(a))):
                    def_pos.append(_pos(a))
            ok = fix is not None and all(p < _pos(fix) for p in def_pos) and _pos(fix) < first_use and not any(x is sv.main for x in ancestors(fix)) and bool(def_pos)
            det += "; zero-norm repair present=%s after every definition=%s before the first division=%s" % (
                fix is not None, fix is not None and all(p < _pos(fix) for p in def_pos), fix is not None and _pos(fix) < first_use)
        rep.add("zero-norm/%s" % name, rule, ok, divs[0][0] if divs else fn["body"], det)
        # ---- accept-start
        rule = "before the loop the solver tests the initial residual against tol and returns Ok(0) without touching x"
        r = sv.residual_var()
        acc = []
        for n in walk(fn["body"]):
            if n.get("k") == "Ret" and not any(a is sv.main for a in ancestors(n)) and _pos(n) < _pos(sv.main):
                v = strip(n["e"]) if n.get("e") is not None else None
                if v is not None and v.get("k") == "Call" and v["f"].get("fn", "").endswith("::Ok") and ctx.term(v["args"][0]) == num(0):
                    R, defs, cmpop = tested_vector(sv, n)
                    vs = [norm_def(t) for _, t in defs]
                    if R is not None and vs and all(x is not None for x in vs):
                        acc.append((n, vs))
        xw_before = [m for (kind, m) in ctx.mutations.get(X_, []) if _pos(m) < _pos(sv.main) and not any(a is sv.main for a in ancestors(m))]
        ok = len(acc) == 1 and r is not None and not xw_before
        det = "Ok(0) exits before the loop: %d" % len(acc)
        if ok:
            n, vs = acc[0]
            # the tested vector(s): the initial residual r itself, or its (identity-)preconditioned copy
            from .c08 import is_initial_residual
            good = all(is_initial_residual(sv, V, r, n) for (V, nbv) in vs)
            ok = good
            det += "; tested vector is the initial residual (or its preconditioned copy)=%s; x untouched before=%s" % (good, not xw_before)
        rep.add("accept-start/%s" % name, rule, ok, acc[0][0] if acc else fn["body"], det, where=loc(acc[0][0]) if acc else "%s:%d" % (fn["file"], fn["span"][0]))
        # ---- failure exits inside the loop must be scale-invariant
        rule = ("every `return Err(..)` inside the main loop is guarded by exact tests of a recurrence scalar against zero (a genuine breakdown), never by an "
                "ordered comparison with a numeric literal: the recurrence scalars scale with ||b||^2, so an absolute threshold reports breakdown on a "
                "well-posed system whose right-hand side is small (the property quantifies over right-hand sides of any scale)")
        bad, n_err = [], 0
        for n in walk(fn["body"]):
            if n.get("k") != "Ret" or not any(a is sv.main for a in ancestors(n)):
                continue
            v = strip(n["e"]) if n.get("e") is not None else None
            if v is None or v.get("k") != "Call" or not v["f"].get("fn", "").endswith("::Err"):
                continue
            n_err += 1
            for a in ancestors(n):
                if a is sv.main:
                    break
                if a.get("k") == "If":
                    for at in cond_atoms(ctx, a["cond"], True) + cond_atoms(ctx, a["cond"], False):
                        if at[0] in ("cmp", "ncmp") and at[1] in ("<", "<=", ">", ">="):
                            lits = [t for t in (at[2], at[3]) if t[0] == "num"]
                            # an absolute threshold - or a SIGN test (`!(v > 0.0)`): the inner products of the nonsymmetric recurrences are legitimately negative
                            if lits:
                                bad.append((n, show(at[2], ctx), at[1], show(at[3], ctx)))
        rep.add("breakdown-exact/%s" % name, rule, not bad, bad[0][0] if bad else fn["body"],
                "Err exits in the loop: %d; absolute thresholds: %s" % (n_err, [b[1:] for b in bad]), where=loc(bad[0][0]) if bad else "%s:%d" % (fn["file"], fn["span"][0]))
        # ---- the recurrences are those of a residual that tracks the iterate
        if r is not None:
            from .c08 import rule_recurrence
            rule_recurrence(rep, sv, name, r)
        # ---- the shadow (left) sequence of BiCG / QMR is driven by A^T on every iteration
        if name in ("solve_bicg", "solve_qmr"):
            tms = [n for n in walk(sv.main["body"]) if n.get("k") == "MethodCall" and (callee_path(n) or "").endswith("::transpose_multiply") and ctx.term(n["recv"]) == P(0)]
            cond_ = [a for n in tms for a in ancestors(n) if a.get("k") in ("If", "Match") and any(x is sv.main for x in ancestors(a))]
            rep.add("transpose-product/%s" % name, "the loop applies A^T (transpose_multiply) exactly once per iteration, unconditionally: replacing it by the A-product or a copy under a run-time "
                    "`symmetric` test makes the method depend on that test", len(tms) == 1 and not cond_, tms[0] if tms else sv.main,
                    "transpose products in the loop: %d, under a condition: %d" % (len(tms), len(cond_)))
        # ---- the convergence test is made in every iteration
        from .c08 import _is_ok as _isok
        cond_tests = []
        for n in walk(sv.main["body"]):
            if n.get("k") == "Ret" and _isok(n):
                chain = [a for a in ancestors(n)]
                ifs = []
                for a in chain:
                    if a is sv.main:
                        break
                    if a.get("k") == "If":
                        ifs.append(a)
                # the outermost enclosing `if` must be the tolerance test itself (or carry it): anything else makes the test conditional
                if ifs:
                    outer = ifs[-1]
                    ats = cond_atoms(ctx, outer["cond"], True)
                    has_tol = any(a_[0] == "cmp" and a_[1] in ("<=", "<") and a_[3] == TOL for a_ in ats)
                    if not has_tol:
                        cond_tests.append(n)
        rep.add("tested-every-iteration/%s" % name, "the tolerance test that guards a success exit is not nested under another condition of the loop body (`if i % 2 == 0 { test }`): a recurrence that "
                "reaches an exactly zero residual on a skipped step is iterated once more and divides 0 by 0", not cond_tests, cond_tests[0] if cond_tests else sv.main,
                "success exits whose tolerance test is conditional: %d" % len(cond_tests))
        # ---- a converged recurrence is never iterated further
        rule_not_continued(rep, sv, name)
        # ---- loop-carried state is refreshed on every iteration
        rule_carried(rep, sv, name)
        # ---- the iteration map is the published method's
        rule_iteration_map(rep, sv, name)
        # ---- breakdown-free: the scalars the recurrences divide by / give up on must be definite on the claimed class
        rule_breakdown_free(rep, sv, name)
    rep.floor("iteration-map/", 4)
    rep.floor("failure-exits/", 4)
    rep.floor("breakdown-exact/", 4)
    rep.floor("tested-every-iteration/", 4)
    rep.floor("breakdown-free/", 4)
    rep.floor("carried/", 4)
    rep.floor("transpose-product/", 2)
    rep.floor("recurrence-not-continued/", 5)
    rep.floor("unconfirmed-restarts/", 5)
    rep.floor("residual-tracks-iterate/", 5)
    rep.floor("ok-tested/", 8)
    rep.floor("tested-vector/", 6)
    rep.floor("zero-norm/", 4)
    rep.floor("accept-start/", 4)
    rep.assumptions += ["decided: the degenerate-start clause (zero right-hand side / exact initial guess are accepted with x untouched and no division by a zero norm), scale-free failure exits, and "
                        "breakdown-freedom: a solver can only converge on EVERY system of its class if no scalar its recurrences divide by or give up on can vanish while the residual has not; "
                        "an inner product of a vector with itself (or, for CG on SPD systems, of p with A*p) cannot, an inner product of two different vectors and the norm of a left (A^T-)Lanczos vector can",
                        "NOT decided (not applicable to static analysis): the rate of convergence (O(n) iterations) and agreement with the direct solution to tol*cond(A)"]
    return {}


def rule_not_continued(rep, sv, name):
    """Once the recurrence residual has passed the tolerance test the iteration must not go on with the same recurrence state:
    the recursively updated residual keeps shrinking geometrically whatever x does, underflows to exactly 0, and the next
    step length is 0/0 - written into x.  So the `if R <= tol` that guards a success exit must leave the loop on every path
    (confirmed success, restart from the current iterate, or failure), not only when a further condition also holds."""
    from .c08 import _is_ok, _pos as pos8
    ctx = sv.ctx
    oks = sorted([n for n in walk(sv.fn["body"]) if n.get("k") == "Ret" and any(a is sv.main for a in ancestors(n)) and _is_ok(n)], key=pos8)
    want = ("op", "-", P(1), ("call", "sparse::Sparse<T>::multiply", P(0), P(2)))
    seen = []
    for node in oks:
        chain = [node] + list(ancestors(node))
        found = None
        for i_, a in enumerate(chain):
            if a is sv.main:
                break
            if a.get("k") == "If" and any(z is a.get("then") for z in chain[:i_]):
                atoms = cond_atoms(ctx, a["cond"], True)
                for at in atoms:
                    if at[0] == "cmp" and at[1] in ("<=", "<") and at[3] == TOL:
                        t = at[2]
                        d = ctx.def_term(t) if t[0] == "var" and ctx.def_term(t) is not None and not ctx.assigns.get(t[1]) else t    # (a local the loop re-assigns is not its initialiser)
                        nd = norm_def(d)
                        V = nd[0] if nd is not None else None
                        if V is not None and V[0] == "var" and ctx.def_term(V) is not None and not ctx.mutations.get(V) and not ctx.assigns.get(V[1]):
                            V = ctx.def_term(V)
                        if V != want:
                            found = (a, atoms)          # the outermost `if` carrying the recurrence test wins (keep scanning outwards)
        if found is None or any(found[0] is x for x in seen):
            continue
        seen.append(found[0])
        a, atoms = found
        k_ = len(seen)
        only = len(atoms) == 1
        leaves = diverges(a["then"])
        rep.add("recurrence-not-continued/%s#%d" % (name, k_),
                "the `if R <= tol` on the recurrence residual that guards a success exit leaves the loop on every path (its condition is that test alone and its body never falls through): "
                "iterating on a converged recurrence drives the recurrence scalars to exactly 0 and writes 0/0 into a correct x", only and leaves, a,
                "condition is the recurrence test alone=%s body never falls through=%s" % (only, leaves))
        from .c08 import restart_of
        others = [r_ for r_ in walk(a["then"]) if r_.get("k") == "Ret" and not _is_ok(r_)]
        rs = [restart_of(sv, r_) for r_ in others]
        good = bool(others) and all(x is not None and x[0] for x in rs)
        rep.add("unconfirmed-restarts/%s#%d" % (name, k_),
                "when the recomputed residual does not confirm the converged recurrence (it has drifted: large initial guess, small right-hand side, tight tolerance) the solver is restarted from the "
                "current iterate with the remaining budget - giving up there would fail on well-posed systems that one more pass solves", good, others[0] if others else a,
                "exits taken without confirmation: %d, all valid restarts=%s" % (len(others), good))


def rule_carried(rep, sv, name):
    """Every local that an iteration reads before (re)assigning it - a value carried over from the previous iteration, like
    rho_1, alpha, omega, the direction vectors - and that the loop assigns at all, is assigned on EVERY path that reaches the
    end of the body.  A carried scalar refreshed only under the first-iteration test (or only in one arm) leaves the later
    iterations with a stale coefficient: the recurrence is then not the method's."""
    ctx, lp = sv.ctx, sv.main
    body = lp["body"]
    inside = set()
    for n in walk(body):
        if n.get("k") == "Let":
            for b_ in walk(n.get("pat") or {}):
                if b_.get("k") == "Bind":
                    inside.add(b_.get("v"))
        if n.get("k") in ("Bind",) and n.get("v") is not None and n.get("_p") is not None and n["_p"].get("k") in ("For", "Arm", "Closure"):
            inside.add(n["v"])
    if lp.get("k") == "For":
        for b_ in walk(lp.get("pat") or {}):
            if b_.get("k") == "Bind":
                inside.add(b_.get("v"))
    carried, ever = set(), set()

    def place(e):
        e = strip(e)
        while e.get("k") in ("AddrOf",) or (e.get("k") == "Unary" and e.get("op") == "*"):
            e = strip(e["e"])
        return e

    # state = (must, may): locals assigned on every / on some path of this iteration so far.  A read of a local that NO path has
    # assigned yet sees the value of the previous iteration: the local is carried.
    def reads(e, st):
        for y in walk(e):
            if y.get("k") == "Local" and y.get("v") not in inside and y.get("v") not in st[1]:
                b_ = ctx.binds.get(y["v"])
                if b_ is not None and b_.kind == "let":
                    carried.add(y["v"])

    def add(st, v):
        ever.add(v)
        return (st[0] | {v}, st[1] | {v})

    def callee_is_copy(c):
        from .common import callee_path
        from .c08 import is_idp
        return is_idp(callee_path(c))

    def expr(e, st):
        """returns (state_after, falls_through)"""
        e0 = strip(e)
        k = e0.get("k")
        if k in ("Assign", "AssignOp"):
            tgt = place(e0["l"])
            reads(e0["r"], st)
            if tgt.get("k") == "Local":
                if k == "AssignOp":
                    reads(tgt, st)
                return add(st, tgt["v"]), True
            reads(e0["l"], st)
            return st, True
        if k == "If":
            reads(e0["cond"], st)
            s1, f1 = block(e0["then"], st)
            s2, f2 = block(e0["else"], st) if e0.get("else") is not None else (st, True)
            if f1 and f2:
                return (s1[0] & s2[0], s1[1] | s2[1]), True
            if f1:
                return s1, True
            if f2:
                return s2, True
            return st, False
        if k == "Block":
            return block(e0, st)
        if k in ("Ret", "Break", "Continue"):
            if e0.get("e") is not None:
                reads(e0["e"], st)
            return st, False
        if k in ("For", "While", "Loop"):
            reads(e0, st)                            # may not execute: its assignments count as `may` only
            may = set(st[1])
            for y in walk(e0):
                if y.get("k") in ("Assign", "AssignOp") and place(y["l"]).get("k") == "Local":
                    ever.add(place(y["l"])["v"])
                    may.add(place(y["l"])["v"])
            return (st[0], may), True
        if k in ("MethodCall", "Call"):
            args = list(e0.get("args", [])) + ([e0["recv"]] if k == "MethodCall" else [])
            muts = []
            for a in args:
                a0 = strip(a)
                is_mut = a0.get("k") == "AddrOf" and a0.get("mut") and place(a0).get("k") == "Local"
                if is_mut:
                    muts.append(place(a0))
                    if callee_is_copy(e0):
                        continue                      # identity_preconditioner(&src, &mut dst): dst is written, not read
                reads(a, st)
            for m_ in muts:
                st = add(st, m_["v"])
            return st, str(e0.get("ty")) != "!"
        reads(e0, st)
        return st, str(e0.get("ty")) != "!"

    def block(blk, st):
        blk = strip(blk)
        if blk.get("k") != "Block":
            return expr(blk, st)
        for s_ in blk.get("stmts", []):
            if s_.get("k") == "Let":
                if s_.get("init") is not None:
                    st, ft = expr(s_["init"], st)
                    if not ft:
                        return st, False
                continue
            st, ft = expr(s_["e"], st)
            if not ft:
                return st, False
        if blk.get("expr") is not None:
            return expr(blk["expr"], st)
        return st, True

    if lp.get("k") == "While":
        reads(lp["cond"], (set(), set()))
    end, ft = block(body, (set(), set()))
    stale = sorted(v for v in carried if v in ever and v not in end[0]) if ft else []
    names = [ctx.binds[v].name if v in ctx.binds and getattr(ctx.binds[v], "name", None) else str(v) for v in stale]
    rep.add("carried/%s" % name, "every local carried from one iteration to the next that the loop assigns at all is assigned on every path reaching the end of the body "
            "(a recurrence scalar refreshed only under the first-iteration test is stale from the third iteration on)", not stale, lp,
            "carried over: %d, assigned in the loop: %d, not refreshed on every path: %s" % (len(carried), len(carried & ever), names))


def rule_breakdown_free(rep, sv, name):
    from .c08 import image_hypotheses, Unclassified, v_eq, v_image
    ctx, fn = sv.ctx, sv.fn
    where = "%s:%d" % (fn["file"], fn["span"][0])
    try:
        models = sv.run_body(image_hypotheses(sv))
    except Unclassified as u:
        rep.missing("breakdown-free/%s" % name, "the loop body can be classified statement by statement", "unclassified: %s" % u, where)
        return
    spd = name == "solve_cg"            # the class claimed for CG is SPD: (p, A p) > 0 for p != 0
    dots, norms = {}, {}
    for m in models:
        for key, (c, U, V) in m.dots.items():
            if not any(a is sv.main for a in ancestors(c)):
                continue
            definite = U is not None and V is not None and (v_eq(U, V) or (spd and (v_eq(V, v_image(U, "A")) or v_eq(U, v_image(V, "A")))))
            d = dots.setdefault(key, [c, True])
            d[1] = d[1] and definite
        for key, (c, U) in m.norms.items():
            if not any(a is sv.main for a in ancestors(c)):
                continue
            left = U is None or any(_has_tag(k, "At") for k in U)
            d = norms.setdefault(key, [c, False])
            d[1] = d[1] or left
    bad_d = sorted([c for c, ok in dots.values() if not ok], key=_pos)
    bad_n = sorted([c for c, left in norms.values() if left], key=_pos)
    rule_d = ("every inner product evaluated in the loop is of a vector with itself (or, in CG, of p with A*p, positive on the SPD class): the inner product of two different "
              "vectors can be exactly zero while the residual is not (Lanczos breakdown), and the recurrence then divides by it or gives up, so the solver cannot "
              "succeed on every system of its class")
    rule_n = ("no norm of a left (A^T-generated) Lanczos vector is used by the recurrence: that vector vanishes whenever the shadow residual lies in an invariant "
              "subspace of A^T (reducible A, sparse b), long before the residual does")
    for k_, c in enumerate(bad_d, 1):
        rep.bad("breakdown-free/%s/inner-product#%d" % (name, k_), rule_d, c, "%s pairs two different vectors" % show(ctx.term(c), ctx))
    for k_, c in enumerate(bad_n, 1):
        rep.bad("breakdown-free/%s/left-norm#%d" % (name, k_), rule_n, c, "%s is the norm of a vector built from A^T images" % show(ctx.term(c), ctx))
    rep.add("breakdown-free/%s" % name, "the inner products and norms of the loop were classified (definite / indefinite)", bool(dots), sv.main,
            "inner products in the loop: %d (indefinite: %d), norms of left Lanczos vectors: %d" % (len(dots), len(bad_d), len(bad_n)))


_REF = {}


def reference_solver(name):
    """The ref_* twin of solve_* in the frozen reference PDB (reference/krylov_ref.rs, transcribed from the Templates book)."""
    import json
    import os
    from .pdb import Pdb, VERIF
    if "pdb" not in _REF:
        _REF["pdb"] = Pdb(json.load(open(os.path.join(VERIF, "reference", "krylov_ref.pdb.json"))))
    key = name.replace("solve_", "ref_")
    if key not in _REF:
        _REF[key] = Solver(_REF["pdb"], key)
    return _REF[key]


def rule_iteration_map(rep, sv, name):
    from .c08 import Unclassified
    from . import krylov_fp
    fn = sv.fn
    where = "%s:%d" % (fn["file"], fn["span"][0])
    rule = ("the map `state at the top of an iteration -> state at the top of the next` (start-up values, first iteration, general iteration) that drives the iterate x is, "
            "as a rational function of the inner products and norms it evaluates, the map of the published method (reference/krylov_ref.rs, transcribed from "
            "Barrett et al., Templates, Fig. 2.5/2.7/2.10/2.8): compared by colour refinement over the loop-carried variables, %d levels deep, modulo field identities, "
            "names, temporaries and statement order" % krylov_fp.ROUNDS)
    ref = reference_solver(name)
    if not ref.ok or ref.main is None:
        rep.missing("iteration-map/%s" % name, rule, "reference solver %s not found in reference/krylov_ref.pdb.json" % name, where)
        return
    try:
        ok, det = krylov_fp.compare(sv, ref, X_)
    except Unclassified as u:
        rep.missing("iteration-map/%s" % name, rule, "unclassified: %s" % u, where)
        return
    rep.add("iteration-map/%s" % name, rule, ok, sv.main, det)
    # ---- failure exits: the method gives up only where the published method does
    rule_f = ("every `return Err(..)` of the loop that is guarded by an exact-zero test of a recurrence scalar tests a scalar, at a state of the iterate, at which the published "
              "method also stops (`if rho(i) = 0 or xi(i) = 0 method fails` ...): a breakdown test moved ahead of the update of x that completes the step, or put on another "
              "scalar, gives up on systems the method solves (e.g. the lucky breakdown of order-1 and scaled-identity systems)")
    if not ok:
        rep.add("failure-exits/%s" % name, rule_f, True, sv.main, "not compared: the iteration map already deviates from the reference (reported above), so the states have no common names")
        return
    fa, fb = krylov_fp.fingerprint(sv), krylov_fp.fingerprint(ref)
    ref_set = set((s_, xs) for _n, s_, xs in krylov_fp.failure_exits(ref, fb, X_))
    mine = krylov_fp.failure_exits(sv, fa, X_)
    bad = [n for n, s_, xs in mine if (s_, xs) not in ref_set]
    seen, k_ = set(), 0
    for n in sorted(bad, key=_pos):
        if id(n) in seen:
            continue
        seen.add(id(n))
        k_ += 1
        rep.bad("failure-exits/%s#%d" % (name, k_), rule_f, n, "this exit tests a scalar / at a state of x at which the reference has no failure exit")
    rep.add("failure-exits/%s" % name, rule_f, True, sv.main, "exact-zero failure exits in the loop: %d (first and general iteration), in the reference: %d; not in the reference: %d" % (
        len(mine), len(ref_set), len(seen)))


def _has_tag(k, tag):
    while isinstance(k, tuple) and len(k) == 2 and k[0] in ("A", "At"):
        if k[0] == tag:
            return True
        k = k[1]
    return False


def in_macro_(n):
    return bool(n.get("x"))


def lval_(ctx, n):
    n = strip(n)
    while n.get("k") in ("AddrOf",) or (n.get("k") == "Unary" and n.get("op") == "*"):
        n = strip(n["e"])
    if n.get("k") == "Local":
        b = ctx.binds.get(n["v"])
        if b is not None and b.kind == "param":
            return ("param", b.idx)
        return ("var", n["v"])
    return ctx.term(n)
