"""C13 — complex arithmetic is exact field arithmetic; operator variants and ordering agree."""
from fractions import Fraction

from .pdb import strip, walk, loc
from .terms import Ctx, show
from .common import P, F, forwards_to, callee_path
from .algebra import SymExec, NotStraight, rat_equal, comm_equal, show_tree, neg

LEVEL = "other"
C = "complex::Complex<T>"


def I(p):
    return ("in", p)


A, B = I(F(P(0), "real")), I(F(P(0), "imag"))
Cc, D = I(F(P(1), "real")), I(F(P(1), "imag"))
R = I(P(1))


def op(s, a, b):
    return ("op", s, a, b)


DEN = op("+", op("*", Cc, Cc), op("*", D, D))
FORMULAE = {
    "<%s as std::ops::Neg>::neg" % C: (neg(A), neg(B)),
    "<%s as std::ops::Add>::add" % C: (op("+", A, Cc), op("+", B, D)),
    "<%s as std::ops::Sub>::sub" % C: (op("-", A, Cc), op("-", B, D)),
    "<%s as std::ops::Mul>::mul" % C: (op("-", op("*", A, Cc), op("*", B, D)), op("+", op("*", A, D), op("*", B, Cc))),
    "<%s as std::ops::Div>::div" % C: (op("/", op("+", op("*", A, Cc), op("*", B, D)), DEN), op("/", op("-", op("*", B, Cc), op("*", A, D)), DEN)),
    "<%s as std::ops::Add<T>>::add" % C: (op("+", A, R), B),
    "<%s as std::ops::Sub<T>>::sub" % C: (op("-", A, R), B),
    "<%s as std::ops::Mul<T>>::mul" % C: (op("*", A, R), op("*", B, R)),
    "<%s as std::ops::Div<T>>::div" % C: (op("/", A, R), op("/", B, R)),
    "%s::conj" % C: (A, neg(B)),
    "<%s as traits::Zero>::zero" % C: (("num", Fraction(0)), ("num", Fraction(0))),
    "<%s as traits::One>::one" % C: (("num", Fraction(1)), ("num", Fraction(0))),
}
PAIRS = [
    ("<%s as std::ops::AddAssign>::add_assign" % C, "<%s as std::ops::Add>::add" % C),
    ("<%s as std::ops::SubAssign>::sub_assign" % C, "<%s as std::ops::Sub>::sub" % C),
    ("<%s as std::ops::MulAssign>::mul_assign" % C, "<%s as std::ops::Mul>::mul" % C),
    ("<%s as std::ops::DivAssign>::div_assign" % C, "<%s as std::ops::Div>::div" % C),
    ("<%s as std::ops::AddAssign<T>>::add_assign" % C, "<%s as std::ops::Add<T>>::add" % C),
    ("<%s as std::ops::SubAssign<T>>::sub_assign" % C, "<%s as std::ops::Sub<T>>::sub" % C),
    ("<%s as std::ops::MulAssign<T>>::mul_assign" % C, "<%s as std::ops::Mul<T>>::mul" % C),
    ("<%s as std::ops::DivAssign<T>>::div_assign" % C, "<%s as std::ops::Div<T>>::div" % C),
]


def value_of(pdb, path):
    """(re, im) computed by a by-value fn, or final (self.real, self.imag) of a &mut self fn."""
    fn = pdb.fn(path)
    if fn is None:
        return None, None, "function not found"
    ex = SymExec(pdb, fn, auto=True)
    try:
        ret = ex.run()
    except NotStraight as e:
        return fn, None, "body is not single-path arithmetic: %s" % e
    if ret is not None and ret[0] == "cplx":
        return fn, (ret[1], ret[2]), ex
    if ret is None or fn.get("output") == "()":
        re = ex.read(F(P(0), "real"))
        im = ex.read(F(P(0), "imag"))
        return fn, (re, im), ex
    return fn, ret, ex


def run(rep, pdb, tier):
    # ---- field identities (proof obligations over Q)
    for path, (wre, wim) in FORMULAE.items():
        key = "field/%s" % path
        rule = "the extracted (real, imag) pair equals the field formula as a rational function over Q in the components"
        fn, got, ex = value_of(pdb, path)
        if fn is None:
            rep.missing(key, rule, "function %s not found" % path)
            continue
        if got is None:
            rep.bad(key, rule, fn["body"], ex, where=loc(fn["body"]), proof=True)
            continue
        ok = isinstance(got, tuple) and len(got) == 2 and rat_equal(got[0], wre) and rat_equal(got[1], wim)
        rep.add(key, rule, ok, fn["body"], "real=%s imag=%s" % (show_tree(got[0]), show_tree(got[1])) if len(got) == 2 else repr(got),
                where=loc(fn["body"]), proof=True)
    # abs_sqr (scalar)
    path = "%s::abs_sqr" % C
    fn, got, ex = value_of(pdb, path)
    key, rule = "field/%s" % path, "abs_sqr = a*a + b*b as a polynomial over Q"
    if fn is None:
        rep.missing(key, rule, "function not found")
    else:
        ok = got is not None and not (isinstance(got, tuple) and len(got) == 2 and isinstance(got[0], tuple) and got[0][0] not in ("op", "num", "in", "neg")) \
            and got is not None and rat_equal(got, op("+", op("*", A, A), op("*", B, B)))
        rep.add(key, rule, ok, fn["body"], show_tree(got) if got else str(ex), where=loc(fn["body"]), proof=True)
    # f64 * Complex forwards to Complex * f64 (product commutes)
    path = "<f64 as std::ops::Mul<complex::Complex<f64>>>::mul"
    fn = pdb.fn(path)
    key, rule = "field/%s" % path, "f64 * z is the forwarding call z * f64, or the same value (z.real*s, z.imag*s) written out (the scalar product commutes)"
    if fn is None:
        rep.missing(key, rule, "function not found")
    else:
        fw = forwards_to(pdb, fn)
        ok = fw is not None and fw[0] == "<%s as std::ops::Mul<T>>::mul" % C and fw[1] == [1, 0]
        det = "forwards to %s %s" % (fw[0], fw[1]) if fw else "not a forwarding call"
        if not ok:
            # written out instead of forwarded: the value must be (z.real * s, z.imag * s) over Q
            try:
                ex = SymExec(pdb, fn, inline={"<%s as std::ops::Mul<T>>::mul" % C}, auto=True)
                ret = ex.run()
                ok = ret is not None and ret[0] == "cplx" and rat_equal(ret[1], op("*", Cc, I(P(0)))) and rat_equal(ret[2], op("*", D, I(P(0))))
                det = "value real=%s imag=%s" % (show_tree(ret[1]), show_tree(ret[2])) if ret is not None and ret[0] == "cplx" else det
            except NotStraight as e:
                det += "; not single-path: %s" % e
        rep.add(key, rule, ok, fn["body"], det, where=loc(fn["body"]), proof=True)
    # ---- compound assignment bit-identical to the binary form
    for apath, bpath in PAIRS:
        key = "assign-bit-identical/%s" % apath
        rule = "the in-place body, expanded statement by statement, is the same expression tree as the binary operator modulo commutativity of + and * only"
        fa, ga, exa = value_of(pdb, apath)
        fb, gb, exb = value_of(pdb, bpath)
        if fa is None or fb is None:
            rep.missing(key, rule, "function not found")
            continue
        if ga is None or gb is None:
            rep.bad(key, rule, fa["body"], str(exa if ga is None else exb), where=loc(fa["body"]), proof=True)
            continue
        ok = comm_equal(ga[0], gb[0]) and comm_equal(ga[1], gb[1])
        rep.add(key, rule, ok, fa["body"], "in-place: real=%s imag=%s | binary: real=%s imag=%s" % (
            show_tree(ga[0]), show_tree(ga[1]), show_tree(gb[0]), show_tree(gb[1])), where=loc(fa["body"]), proof=True)
        # stale reads
        if apath.endswith("MulAssign>::mul_assign") or apath.endswith("DivAssign>::div_assign"):
            k2 = "stale-read/%s" % apath
            r2 = "no statement reads a component of self after that component was overwritten while computing the other component"
            bad = exa.reads_after_write if hasattr(exa, "reads_after_write") else []
            rep.add(k2, r2, not bad, bad[0][0] if bad else fa["body"],
                    "reads of overwritten components: %s" % [("%s read while updating %s" % (show_tree(("in", p)), show_tree(("in", t)))) for _, p, t in bad],
                    where=loc(bad[0][0]) if bad else loc(fa["body"]))
    # ---- equality and ordering
    path = "<%s as std::cmp::PartialEq>::eq" % C
    fn = pdb.fn(path)
    key, rule = "eq-ord/eq", "eq is the conjunction of both component equalities"
    if fn is None:
        rep.missing(key, rule, "function not found")
    else:
        ctx = Ctx.for_fn(pdb, fn)
        t = ctx.term(strip(fn["body"]))

        def eqc(name, t_):
            return t_[0] == "op" and t_[1] == "==" and {t_[2], t_[3]} == {F(P(0), name), F(P(1), name)}
        ok = t[0] == "op" and t[1] == "&&" and ((eqc("real", t[2]) and eqc("imag", t[3])) or (eqc("imag", t[2]) and eqc("real", t[3])))
        if not ok:
            # any spelling whose truth is exactly "both component equalities hold" (e.g. a comparison of the two pairs)
            from .guards import cond_atoms
            bd = strip(fn["body"])
            while bd.get("k") == "Block" and not bd.get("stmts") and bd.get("expr") is not None:
                bd = strip(bd["expr"])
            ats = cond_atoms(ctx, bd, True)
            got = set()
            for a_ in ats:
                if a_[0] == "cmp" and a_[1] == "==":
                    got.add(frozenset((a_[2], a_[3])))
            want_ = {frozenset((F(P(0), "real"), F(P(1), "real"))), frozenset((F(P(0), "imag"), F(P(1), "imag")))}
            ok = len(ats) == 2 and got == want_
            if not ok:
                # guard-style spelling: `if !(a.real == b.real) { return false; } a.imag == b.imag` - per return path, the value is true exactly when
                # the path's equalities together with the returned comparison are both component equalities
                from .common import return_paths
                try:
                    paths = list(return_paths(ctx))
                except Exception:
                    paths = []
                good = bool(paths)
                for fs_, val_, _n in paths:
                    eqs = {frozenset((f_[2], f_[3])) for f_ in fs_ if f_[0] == "cmp" and f_[1] == "=="}
                    nes = {frozenset((f_[2], f_[3])) for f_ in fs_ if f_[0] == "cmp" and f_[1] == "!="}
                    if val_ == ("bool", False):
                        good = good and bool(nes & want_) and not (eqs - want_)          # false only because some component differs
                    elif val_ == ("bool", True):
                        good = good and eqs >= want_
                    elif val_[0] == "op" and val_[1] == "==":
                        good = good and (eqs | {frozenset((val_[2], val_[3]))}) == want_ and not nes
                    else:
                        good = False
                ok = good and len(paths) >= 2
        rep.add(key, rule, ok, fn["body"], "", where=loc(fn["body"]))
    path = "<%s as std::cmp::PartialOrd>::partial_cmp" % C
    fn = pdb.fn(path)
    key, rule = "eq-ord/partial_cmp", "partial_cmp compares real and falls through to imag iff the real parts are equal (lexicographic)"
    if fn is None:
        rep.missing(key, rule, "function not found")
    else:
        ctx = Ctx.for_fn(pdb, fn)
        from .common import return_paths
        RE = {F(P(0), "real"), F(P(1), "real")}

        def cmp_of(t_, name):
            if t_[0] == "call" and str(t_[1]).endswith("Some") and len(t_) == 3:
                t_ = t_[2]
            return t_[0] == "call" and str(t_[1]).endswith("partial_cmp") and t_[2] == F(P(0), name) and t_[3] == F(P(1), name)
        paths = return_paths(ctx)
        seen = set()
        ok = bool(paths)
        dd = []
        for fs, val, node in paths:
            eq = any(f[0] == "cmp" and f[1] == "==" and {f[2], f[3]} == RE for f in fs)
            ne = any(f[0] == "cmp" and f[1] == "!=" and {f[2], f[3]} == RE for f in fs)
            good = (eq and not ne and cmp_of(val, "imag")) or (ne and not eq and cmp_of(val, "real"))
            seen.add("eq" if eq else "ne" if ne else "?")
            dd.append("%s -> %s" % ("real parts equal" if eq else "real parts differ" if ne else "no test", "ok" if good else "WRONG"))
            ok = ok and good
        ok = ok and seen == {"eq", "ne"}
        det = "; ".join(dd)
        rep.add(key, rule, ok, fn["body"], det, where=loc(fn["body"]))
    # ---- the comparison traits define only their required method: no lt/le/gt/ge/ne override can disagree with it
    for tr, only in (("std::cmp::PartialOrd", "partial_cmp"), ("std::cmp::PartialEq", "eq")):
        impls = [i for i in pdb.impls if i.get("trait") == tr and str(i.get("self_ty", "")).startswith("complex::Complex<")]
        key, rule = "eq-ord/no-override/%s" % only, "the %s impl of Complex defines only `%s` (the derived operators <, <=, >, >=, != follow from it)" % (tr.split("::")[-1], only)
        if len(impls) != 1:
            rep.missing(key, rule, "impl not found (%d)" % len(impls))
        else:
            items = [str(x).split("::")[-1] for x in impls[0].get("items", [])]
            # anchored in the required method's body, so that properties whose routines compare element values import it
            req = [f_ for f_ in pdb.local_fns() if f_.get("impl_trait") == tr and f_.get("name") == only and str(f_.get("impl_self", "")).startswith("complex::Complex")]
            rep.add(key, rule, items == [only], req[0]["body"] if req else None, "items: %s" % items, where="%s:%d" % (impls[0]["file"], impls[0]["span"][0]))
    # ---- abs / arg
    fn = pdb.fn("complex::Complex<f64>::abs")
    key, rule = "abs-arg/abs", "abs = sqrt(abs_sqr(self))"
    if fn is None:
        rep.missing(key, rule, "function not found")
    else:
        try:
            t = SymExec(pdb, fn).run()
            ok = t is not None and t[0] == "fn" and t[1] == "sqrt" and len(t) == 3 and t[2][0] == "ccall" and str(t[2][1]).endswith("::abs_sqr") and t[2][2] == ("in", ("param", 0))
            det = show_tree(t) if t is not None else ""
        except NotStraight as ex:
            ok, det = False, str(ex)
        rep.add(key, rule, ok, fn["body"], det, where=loc(fn["body"]))
    fn = pdb.fn("complex::Complex<f64>::arg")
    key, rule = "abs-arg/arg", "arg = imag.atan2(real) (receiver imag, argument real)"
    if fn is None:
        rep.missing(key, rule, "function not found")
    else:
        try:
            t = SymExec(pdb, fn).run()
            ok = t is not None and t[0] == "fn" and t[1] == "atan2" and t[2:] == (("in", ("field", ("param", 0), "imag")), ("in", ("field", ("param", 0), "real")))
            det = show_tree(t) if t is not None else ""
        except NotStraight as ex:
            ok, det = False, str(ex)
        rep.add(key, rule, ok, fn["body"], det, where=loc(fn["body"]))
    # ---- the element-type traits of src/traits.rs (every generic container compares magnitudes through Signed::abs and
    # starts sums / products from Zero::zero / One::one)
    rule = "Signed::abs for Complex<f64> is (|z|, 0) with |z| the modulus Complex::abs"
    fn = pdb.fn("<complex::Complex<f64> as traits::Signed>::abs")
    if fn is None:
        rep.missing("element-traits/Signed/Complex", rule, "impl not found")
    else:
        try:
            t = SymExec(pdb, fn).run()
            ok = t is not None and t[0] == "cplx" and t[1] == ("ccall", "complex::Complex<f64>::abs", ("in", ("param", 0))) and t[2] == ("num", Fraction(0))
            det = show_tree(t) if t is not None else "None"
        except NotStraight as ex:
            ok, det = False, str(ex)
        rep.add("element-traits/Signed/Complex", rule, ok, fn["body"], det, where=loc(fn["body"]))
    n_prim = 0
    for f in pdb.local_fns():
        tr, st = f.get("impl_trait"), f.get("impl_self")
        if f.get("file") != "src/traits.rs" or tr not in ("traits::Signed", "traits::Zero", "traits::One") or st is None or "Complex" in st:
            continue
        ctx = Ctx.for_fn(pdb, f)
        t = ctx.term(strip(f["body"]))
        if tr == "traits::Signed":
            r_ = "Signed::abs for a primitive type is `if x < 0 { -x } else { x }`"
            z = t[1][3] if t[0] == "ite" and t[1][0] == "op" and len(t[1]) == 4 else None
            from .terms import lin_scale
            negs = (("neg", P(0)), lin_scale(P(0), -1))
            ok = t[0] == "ite" and t[1][0] == "op" and t[1][1] == "<" and t[1][2] == P(0) and z is not None and z[0] == "num" and z[1] == 0 and \
                t[2] in negs and t[3] == P(0)
        else:
            want = 0 if tr == "traits::Zero" else 1
            r_ = "%s for a primitive type is the literal %d" % (tr.split("::")[-1], want)
            ok = t[0] == "num" and t[1] == want
        rep.add("element-traits/%s/%s" % (tr.split("::")[-1], st), r_, ok, f["body"], show(t, ctx)[:80], where=loc(f["body"]))
        n_prim += 1
    # ---- no trait method shadows an inherent method of Complex
    # method resolution tries by-value receivers first: a trait method `fn m(self)` implemented for Complex<T> is found BEFORE the
    # inherent `fn m(&self)` whenever the trait is in scope, so `z.conj()` would silently become the trait's (default) body
    inherent = {}
    for f_ in pdb.local_fns():
        if str(f_.get("impl_self") or "").startswith("complex::Complex<") and not f_.get("impl_trait") and f_.get("params"):
            inherent.setdefault(f_.get("name"), f_)
    shadows, n_tr = [], 0
    for im in pdb.impls:
        tr = str(im.get("trait") or "")
        if not str(im.get("self_ty", "")).startswith("complex::Complex<") or not tr or tr.startswith("std::") or tr.startswith("core::"):
            continue
        n_tr += 1
        provided = [f_ for f_ in pdb.local_fns() if f_["path"].startswith(tr + "::") and f_["path"].count("::") == tr.count("::") + 1]
        overridden = [f_ for f_ in pdb.local_fns() if f_.get("impl_trait") == tr and str(f_.get("impl_self") or "").startswith("complex::Complex<")]
        for f_ in provided + overridden:
            nm = f_.get("name") or f_["path"].split("::")[-1]
            ih = inherent.get(nm)
            if ih is None or not f_.get("params"):
                continue
            by_value = not str(f_["params"][0].get("ty", "")).startswith("&")
            ih_ref = str(ih["params"][0].get("ty", "")).startswith("&")
            if by_value and ih_ref:
                shadows.append((f_, ih))
    rep.add("no-shadow", "no local trait implemented for Complex has a by-value method with the name of an inherent `&self` method (it would be chosen instead of the inherent one wherever the trait is in scope)",
            not shadows, shadows[0][0]["body"] if shadows else None, "local traits implemented for Complex: %d; shadowing methods: %s" % (n_tr, [f_["path"] for f_, _ in shadows]),
            where=("%s:%d" % (shadows[0][0]["file"], shadows[0][0]["span"][0])) if shadows else "src/complex/mod.rs")
    rep.floor("element-traits/", 20)
    rep.floor("field/", 14)
    rep.floor("assign-bit-identical/", 8)
    rep.floor("stale-read/", 2)
    rep.floor("eq-ord/", 4)
    rep.floor("abs-arg/", 2)
    rep.assumptions += ["trait operations on the element type T are interpreted as ring/field operations (the property's exact-element-type case)",
                        "bit identity is claimed modulo commutativity of IEEE + and * only (both are commutative in IEEE 754); no re-association is used",
                        "rounding-error magnitude over f64 (a few ulps) and trichotomy/transitivity on NaN-free values are not decided statically"]
    rep.trusted += ["own polynomial normal form over Q (fractions.Fraction)"]
    return {}
