"""C12 — polynomial division: zero divisor reported, no spinning, quotient term, update pairing, exit condition."""
from .pdb import strip, walk, loc, ancestors
from .terms import Ctx, num, show, lin_add, lin_sub
from .common import (P, F, LEN, effects, callee_path, call_args, in_macro, is_zero_term, entry_guards, rule_termination, EQ, canon_atom, touches_storage)
from .guards import for_range, facts, cond_atoms, norm_cmp, diverges

LEVEL = "other"
PT = "polynomial::Polynomial<T>"
CO0, CO1 = F(P(0), "coeffs"), F(P(1), "coeffs")


def while_counter_ok(ctx, lp):
    """`while .. && c > K` (or `K < c`) with `c -= 1` as the only write to c in the body and no continue."""
    if lp.get("k") != "While":
        return False, "not a while loop"
    atoms = cond_atoms(ctx, lp["cond"], True)
    for a in atoms:
        if a[0] == "cmp" and a[1] == "<" and a[2][0] == "num" and a[3][0] == "var":
            c = a[3]
            writes = [w for w in ctx.assigns.get(c[1], []) if any(x is lp for x in ancestors(w))]
            top = _top(lp)
            dec = [w for w in writes if w.get("k") == "AssignOp" and w["op"] == "-=" and ctx.term(w["r"]) == num(1) and any(t is w for t in top)]
            conts = [n for n in walk(lp["body"]) if n.get("k") == "Continue"]
            if len(writes) == 1 and len(dec) == 1 and not conts:
                return True, "counter %s strictly decreases towards its bound" % show(c, ctx)
    # the length of a Vec as the counter: `while .. && v.len() > K { v.pop(); }` (a top-level pop on every iteration, no push)
    for a in atoms:
        if a[0] == "cmp" and a[1] in ("<", "<=") and a[2][0] == "num" and a[3][0] == "len":
            V = a[3][1]
            top = _top(lp)
            pops = [t for t in top if t.get("k") == "MethodCall" and t.get("name") == "pop" and ctx.term(t["recv"]) == V]
            grows = [n for n in walk(lp["body"]) if n.get("k") == "MethodCall" and n.get("name") in ("push", "insert", "extend", "resize", "append", "extend_from_slice") and ctx.term(n["recv"]) == V]
            assigns = [n for n in walk(lp["body"]) if n.get("k") == "Assign" and ctx.term(n["l"]) == V]
            conts = [n for n in walk(lp["body"]) if n.get("k") == "Continue"]
            if pops and not grows and not assigns and not conts:
                return True, "len(%s) strictly decreases (one pop per iteration) towards its bound" % show(V, ctx)
    return False, "no monotone counter in the condition"


def capped_while_ok(ctx, lp):
    """a while whose body increments a counter at its top level and returns when the counter exceeds a constant."""
    if lp.get("k") != "While":
        return False, "not a while loop"
    top = _top(lp)
    conts = [n for n in walk(lp["body"]) if n.get("k") == "Continue"]
    for t in top:
        if t.get("k") == "AssignOp" and t["op"] == "+=" and ctx.term(t["r"]) == num(1) and strip(t["l"]).get("k") == "Local":
            c = ("var", strip(t["l"])["v"])
            writes = [w for w in ctx.assigns.get(c[1], []) if any(x is lp for x in ancestors(w))]
            for u in top:
                if u.get("k") == "If" and u.get("else") is None and diverges(u["then"]) and any(x.get("k") == "Ret" for x in walk(u["then"])):
                    at = cond_atoms(ctx, u["cond"], True)
                    if len(at) == 1 and at[0][0] == "cmp" and at[0][1] in ("<", "<=") and at[0][3] == c and at[0][2][0] == "num" and _pos(u) > _pos(t):
                        b = ctx.binds.get(c[1])
                        init0 = b is not None and b.init is not None and ctx.term(b.init) == num(0) and not any(x is lp for x in ancestors(b.node))
                        if len(writes) == 1 and not conts and init0:
                            return True, "counter %s += 1 at the top level of the body, return when it exceeds %s" % (show(c, ctx), at[0][2][1])
    return False, "no capped counter"


def _top(lp):
    top = [strip(s.get("e") or {}) for s in lp["body"].get("stmts", [])]
    if lp["body"].get("expr") is not None:
        top.append(strip(lp["body"]["expr"]))
    return top


def run(rep, pdb, tier):
    fn = pdb.fn("%s::polydiv" % PT)
    if fn is None:
        rep.missing("anchor/polydiv", "polydiv exists", "not found")
        return {}
    ctx = Ctx.for_fn(pdb, fn)
    effs = effects(pdb, ctx)
    # ---- zero divisor
    guards = entry_guards(pdb, ctx)
    errs = []
    for g in guards:
        if g.kind != "return" or g.pre_touch:
            continue
        rets = [x for x in walk(g.node["then"]) if x.get("k") == "Ret"]
        t = ctx.term(rets[0]["e"]) if rets else None
        if t is not None and t[0] == "call" and str(t[1]).endswith("::Err"):
            errs.append((g, ctx.term(g.node["cond"])))
    # each alternative of an Err guard's condition is one refusal reason (the two tests may be separate ifs or one `||`)
    iz = ("bool", ("call", "%s::is_zero" % PT, P(1)), True)
    empty = [g for g, c in errs if any(alt == frozenset([EQ(LEN(CO1), num(0))]) for alt in g.alts)]
    allzero = [g for g, c in errs if any(alt == frozenset([iz]) for alt in g.alts)]
    # `is_zero()` is "every coefficient is zero" (decided by C11/is_zero, imported through the dependency closure), which holds vacuously
    # for the empty polynomial: the all-zero guard alone refuses the empty divisor too
    rep.add("zero-divisor/empty", "division by the empty polynomial returns Err before anything else (its own guard, or the all-zero guard, which the empty polynomial satisfies vacuously)",
            len(empty) == 1 or (not empty and len(allzero) == 1), (empty or allzero)[0].node if (empty or allzero) else fn["body"], "")
    rep.add("zero-divisor/all-zero", "division by an all-zero polynomial returns Err before anything else", len(allzero) == 1, allzero[0].node if allzero else fn["body"], "")
    okalts = (frozenset([EQ(LEN(CO1), num(0))]), frozenset([iz]))
    errs_all = []
    for g in guards:
        if g.kind != "return":
            continue
        rets_ = [x for x in walk(g.node["then"]) if x.get("k") == "Ret"]
        t_ = ctx.term(rets_[0]["e"]) if rets_ else None
        if t_ is not None and t_[0] == "call" and str(t_[1]).endswith("::Err"):
            errs_all.append((g, None))
    extra = [g for g, c in errs_all if not all(alt in okalts for alt in g.alts)]
    rep.add("zero-divisor/only", "before the loop polydiv refuses only a zero divisor (empty or all-zero): no other test turns a valid division into Err "
            "(an `invertible leading coefficient` round-trip test fails for ordinary floats such as 49)", not extra, extra[0].node if extra else fn["body"],
            "Err guards before the loop: %d, with another reason: %d" % (len(errs_all), len(extra)))
    # ---- an early success before the loop claims "nothing to eliminate": q = 0, r = u is the answer only when deg u < deg v (or u = 0)
    wl0 = [n for n in walk(fn["body"]) if n.get("k") in ("While", "For", "Loop")]
    early, bad_e = [], []
    for r_ in walk(fn["body"]):
        if r_.get("k") != "Ret" or r_.get("e") is None or any(a.get("k") in ("While", "For", "Loop", "Closure") for a in ancestors(r_)):
            continue
        t_ = ctx.term(r_["e"])
        if not (t_[0] == "call" and str(t_[1]).endswith("::Ok")) or (wl0 and _pos(r_) > _pos(wl0[0])):
            continue
        early.append(r_)
        fs_ = facts(ctx, r_)
        lt = norm_cmp("<", LEN(CO0), LEN(CO1))
        okf = any(f_ == lt or f_ == norm_cmp("<=", LEN(CO0), lin_add(LEN(CO1), num(-1))) or
                  (f_[0] == "bool" and f_[1][0] == "call" and str(f_[1][1]).endswith("::is_zero") and f_[1][2] == P(0) and f_[2] is True) for f_ in fs_)
        if not okf:
            bad_e.append(r_)
    rep.add("early-ok", "an `Ok` returned before the elimination loop is guarded by deg u < deg v (len u < len v) or u = 0: with deg u = deg v there is a quotient term "
            "lead(u)/lead(v) to produce, and returning (0, u) leaves deg r = deg v", not bad_e, bad_e[0] if bad_e else fn["body"],
            "Ok returns before the loop: %d, not implied by deg u < deg v: %d" % (len(early), len(bad_e)))
    # ---- no spin
    wl = [n for n in walk(fn["body"]) if n.get("k") in ("While", "For", "Loop")]
    bounded_for = False
    if len(wl) == 1 and wl[0].get("k") == "For":
        r_ = for_range(ctx, wl[0])
        bounded_for = r_ is not None and r_[1][0] == "num" and (r_[2][0] == "num" or (r_[2][0] == "def"))      # `for _ in 0..=MAX`
    ok = len(wl) == 1 and (wl[0].get("k") == "While" or bounded_for)
    rep.add("no-spin/single-loop", "polydiv has exactly one loop (a capped while, or a for over a constant range)", ok, wl[0] if wl else fn["body"], "loops=%d" % len(wl))
    rule_termination(rep, pdb, fn, "no-spin/termination", allow_while={"%s::polydiv" % PT: capped_while_ok, "%s::trim" % PT: while_counter_ok})
    if not ok:
        return {}
    w = wl[0]
    # ---- exit condition
    rvar = None
    okx = False
    if w.get("k") == "While":
        c = ctx.term(w["cond"])
        if c[0] == "op" and c[1] == "&&":
            a, b = c[2], c[3]
            if a[0] == "not" and a[1][0] == "call" and str(a[1][1]).endswith("::is_zero"):
                rvar = a[1][2]
                degr = lin_add(LEN(F(rvar, "coeffs")), num(-1))
                degv = lin_add(LEN(CO1), num(-1))
                okx = b in (("op", ">=", degr, degv), ("op", "<=", degv, degr))
        tail = fn["body"].get("expr")
        tt = ctx.term(tail) if tail is not None else None
    else:
        # `for _ in 0..=MAX { if r.is_zero() || deg r < deg v { return Ok((q, r)); } .. }  Err(cap)`: the same exit test, at the
        # top of the body; running out of the range is the cap
        tt = None
        for st_ in w["body"].get("stmts", []):
            e_ = strip(st_.get("e") or {})
            rets_ = [x for x in walk(e_)] if e_.get("k") == "If" else []
            rets_ = [x for x in rets_ if x.get("k") == "Ret"]
            if e_.get("k") == "If" and e_.get("else") is None and len(rets_) == 1:
                t_ = ctx.term(rets_[0]["e"])
                if t_[0] == "call" and str(t_[1]).endswith("::Ok") and t_[2][0] == "tup" and len(t_[2]) == 3:
                    tt = t_
                    rvar = t_[2][2]
                    degr = lin_add(LEN(F(rvar, "coeffs")), num(-1))
                    degv = lin_add(LEN(CO1), num(-1))
                    at = cond_atoms(ctx, e_["cond"], True)
                    want = {frozenset([("bool", ("call", "%s::is_zero" % PT, rvar), True)]), frozenset([norm_cmp("<", degr, degv)])}
                    okx = len(at) == 1 and at[0][0] == "or" and {frozenset(alt) for alt in at[0][1]} == want
                break
        tail = fn["body"].get("expr")
        tl_ = ctx.term(tail) if tail is not None else None
        okx = okx and tl_ is not None and tl_[0] == "call" and str(tl_[1]).endswith("::Err")
    qvar = tt[2][1] if tt is not None and tt[0] == "call" and str(tt[1]).endswith("::Ok") and tt[2][0] == "tup" and len(tt[2]) == 3 else None
    okret = qvar is not None and tt[2][2] == rvar
    rep.add("exit", "the loop condition is `r != 0 && deg r >= deg v` and the result is Ok((q, r)) in that order", okx and okret, w, "cond ok=%s returns (q, r)=%s" % (okx, okret))
    if w.get("k") == "While":
        brks = [x for x in walk(w["body"]) if x.get("k") == "Break" and not any(a.get("k") in ("For", "While", "Loop") and a is not w and any(z is w for z in ancestors(a)) for a in ancestors(x))]
        rep.add("exit/no-other", "the division loop ends only through its condition (or the iteration cap): a `break` on a value test (`the new term is rounding noise`) leaves deg r >= deg v",
                not brks, brks[0] if brks else w, "breaks inside the loop: %d" % len(brks))
    if rvar is None or qvar is None:
        return {}
    # ---- term
    R = F(rvar, "coeffs")
    degr, degv = lin_add(LEN(R), num(-1)), lin_add(LEN(CO1), num(-1))
    diff = lin_sub(degr, degv)
    talloc = [e for e in effs if e.kind == "assign" and e.target[0] == "field" and e.target[2] == "coeffs" and e.loops]
    tsets = [e for e in effs if e.kind == "set" and e.loops and talloc and e.target == talloc[0].target]
    okt = len(tsets) == 1 and len(talloc) == 1
    tvar = None
    if not talloc:
        # the term created around its zero vector: `let mut t = Polynomial::new(vec![zero; shift + 1]); t.coeffs[shift] = lead(r) / lead(v);`
        cands = [e for e in effs if e.kind == "set" and e.loops and e.target[0] == "field" and e.target[2] == "coeffs" and e.target[1][0] == "var" and e.target[1] not in (qvar, rvar)]
        if len(cands) == 1:
            ts = cands[0]
            tv_ = ts.target[1]
            tb = ctx.binds.get(tv_[1])
            ti = ctx.term(tb.init) if tb is not None and tb.init is not None else None
            idx_ = ctx.def_term(ts.index) if ts.index[0] == "var" and ctx.def_term(ts.index) is not None else ts.index
            alloc_ok = ti is not None and ti[0] == "call" and str(ti[1]) == "%s::new" % PT and len(ti) == 3 and ti[2][0] == "call" and str(ti[2][1]).endswith("from_elem") and \
                is_zero_term(ti[2][2]) and ti[2][3] == lin_add(diff, num(1))
            okt = alloc_ok and idx_ == diff and ts.value == ("op", "/", ("idx", R, degr), ("idx", CO1, degv)) and tb.node is not None and any(x is w for x in ancestors(tb.node)) and \
                not [e for e in effs if e.kind == "set" and e.target == ts.target and e is not ts]
            tvar = tv_
            tsets = [ts]
            rep.add("term", "the quotient term has length deg r - deg v + 1 with its single non-zero entry at index deg r - deg v equal to lead(r) / lead(v) (lead(v) is the divisor)", okt, ts.node, "created around its zero vector")
            okt = None
    if okt:
        ts, ta = tsets[0], talloc[0]
        tvar = ta.target[1]
        okt = ts.target == ta.target and ta.value[0] == "call" and str(ta.value[1]).endswith("from_elem") and is_zero_term(ta.value[2]) and ta.value[3] == lin_add(diff, num(1)) and \
            ts.index == diff and ts.value == ("op", "/", ("idx", R, degr), ("idx", CO1, degv)) and _pos(ta.node) < _pos(ts.node)
        tb = ctx.binds.get(tvar[1]) if tvar[0] == "var" else None
        okt = okt and tb is not None and tb.node is not None and any(x is w for x in ancestors(tb.node))
    if okt is not None:
        rep.add("term", "the quotient term has length deg r - deg v + 1 with its single non-zero entry at index deg r - deg v equal to lead(r) / lead(v) (lead(v) is the divisor)", okt, tsets[0].node if tsets else w, "")
    # ---- update pair
    qa = [e for e in effs if e.kind == "assign" and e.target == qvar and e.loops]
    ra = [e for e in effs if e.kind == "assign" and e.target == rvar and e.loops]
    oku = len(qa) == 1 and len(ra) == 1 and tvar is not None
    if oku:
        oku = qa[0].value in (("op", "+", qvar, tvar), ("op", "+", tvar, qvar)) and ra[0].value == ("op", "-", rvar, ("op", "*", tvar, P(1)))
        qb, rb = ctx.binds.get(qvar[1]), ctx.binds.get(rvar[1])
        qi = ctx.term(qb.init) if qb is not None and qb.init is not None else None
        ri = ctx.term(rb.init) if rb is not None and rb.init is not None else None
        oku = oku and qi is not None and qi[0] == "call" and str(qi[1]).endswith("::empty") and ri == P(0)
    rep.add("update-pair", "one iteration does q <- q + t and r <- r - t*v with the same t and the same v (the parameter); q starts empty and r as self.clone()", oku, qa[0].node if qa else w, "")
    # ---- the degree drops by construction, not by an exact-zero test of a computed residue
    rule = ("after r <- r - t*v the leading coefficient of r (which cancels by construction) is removed explicitly and unconditionally "
            "(cleared or popped) before trim: a rounding residue must not be able to keep the degree from dropping and stall the loop; a value test on the residue "
            "(exact zero, or absorption `lead + residue == lead`, which is component-wise for Complex) does not guarantee that")
    okdd, det = False, "no unconditional removal of the cancelled leading coefficient: termination relies on a value test of a computed rounding residue"
    if ra and len(ra) == 1:
        upd = ra[0]
        Rn = F(rvar, "coeffs")
        top = lin_add(LEN(Rn), num(-1))
        trims = [n for n in walk(w["body"]) if n.get("k") == "MethodCall" and callee_path(n) == "%s::trim" % PT and ctx.term(n["recv"]) == rvar]
        clears = [e for e in effs if e.kind == "set" and e.target == Rn and is_zero_term(e.value) and _pos(e.node) > _pos(upd.node) and e.loops]
        pops = [n for n in walk(w["body"]) if n.get("k") == "MethodCall" and n.get("name") in ("pop", "truncate") and ctx.term(n["recv"]) == Rn and _pos(n) > _pos(upd.node)]
        for e in clears:
            idx_ok = e.index == top or (e.index[0] == "var" and ctx.def_term(e.index) == top)
            before_trim = bool(trims) and all(_pos(e.node) < _pos(t_) for t_ in trims if _pos(t_) > _pos(upd.node))
            ifs = [a for a in ancestors(e.node) if a.get("k") == "If" and any(x is w for x in ancestors(a))]
            # the clear must be unconditional: an absorption test `lead + residue == lead` is not implied for
            # element types whose equality is component-wise (Complex: the residue is absorbed per component only
            # when both components of lead are large), so the stall survives it (finding 9)
            guard_ok = not ifs
            if idx_ok and before_trim and guard_ok:
                okdd, det = True, "leading coefficient cleared explicitly and unconditionally before trim"
        # a pop / truncate must be just as unconditional as a clear: `if top > 0 { r.coeffs.truncate(top) }` leaves the residue of
        # the LAST step (a constant remainder) in place, and the loop then stalls exactly as before
        upops = [n for n in pops if not [a for a in ancestors(n) if a.get("k") == "If" and any(x is w for x in ancestors(a))]]
        if upops and not okdd:
            okdd, det = True, "leading coefficient popped explicitly and unconditionally"
        elif pops and not okdd:
            det = "the leading coefficient is removed only under a condition (%s): on the other path the rounding residue stays" % loc(pops[0])
    rep.add("degree-drops", rule, okdd, ra[0].node if ra else w, det)
    rep.floor("zero-divisor/", 2)
    rep.floor("no-spin/", 2)
    rep.assumptions += ["u = q*v + r is preserved by update-pair as a loop invariant in exact arithmetic",
                        "that the loop ends through its condition rather than through the 1000-iteration cap for EVERY f64 input depends on exact cancellation of the leading "
                        "coefficient (a floating-point value question): not decided statically; no failing input could be exhibited, so no finding is recorded"]
    return {}


def _pos(n):
    sp = n.get("sp")
    return (sp[0], sp[1]) if sp else (0, 0)
