"""Canonicaliser — behaviour-preserving normalisations of the typed HIR, applied to every function body before
any rule looks at it, so that ordinary maintenance refactorings do not change what the rules see:

 P1  private helper functions the rules do not know (not in known_fns.txt, not `pub`, not a trait method, no
     early `return`/`?`, not recursive) are inlined at their call sites: parameters that alias the argument
     (references, `self`, plain locals, literals) are substituted, by-value expression arguments become
     immutable `let`s; the callee's statements are spliced into the caller's block when the call is a
     statement, a `let` initialiser or the right-hand side of an assignment, and a statement-free callee body
     replaces the call expression anywhere.  Positions of inlined nodes are re-mapped to the call site (keeping
     their relative order) because the engine orders events textually.
 P2  `x = x op e`  ->  `x op= e`  (builtin arithmetic on the same place).
 P3  iterator `for` loops over a whole container are rewritten as index loops:
        for x in X.iter() / X.iter_mut() / &X / &mut X          ->  for i in 0..len(X) { let x = &X[i]; .. }
        for (i, x) in X.iter().enumerate()                       ->  the same with the user's i
        for (a, b) in X.iter().zip(Y.iter())                     ->  for i in 0..min(len X, len Y) { let a = &X[i]; let b = &Y[i]; .. }
        .rev() on any of them                                    ->  reversed range
        .take(n) / .skip(n)                                      ->  min(len, n) / lower bound n
     (`min(a, b)` collapses to `a` in for_range when a guard establishes a == b).

Everything here is a semantics-preserving rewrite of the analysed program's *representation*; nothing is executed.
"""
import copy
import os

HERE = os.path.dirname(os.path.abspath(__file__))

_CHILD_KEYS = ("f", "recv", "l", "r", "e", "cond", "then", "else", "scrut", "body", "base", "idx",
               "iter", "lo", "hi", "init", "expr", "guard", "els", "pat", "sub", "p")
_LIST_KEYS = ("args", "es", "stmts", "arms", "fields", "ps", "params")


def norm_path(p):
    """path with generic arguments removed: a private helper moved from `impl<T> Sparse<T>` to `impl Sparse<f64>` is the same helper"""
    out, depth = [], 0
    for ch in str(p):
        if ch == "<":
            depth += 1
        elif ch == ">":
            depth -= 1
        elif depth == 0:
            out.append(ch)
    return "".join(out)


def known_fns():
    p = os.path.join(HERE, "known_fns.txt")
    if not os.path.exists(p):
        return None
    return set(l.strip() for l in open(p) if l.strip() and not l.startswith("#"))


def _kids(n):
    for key in _CHILD_KEYS:
        v = n.get(key)
        if isinstance(v, dict):
            yield v
    for key in _LIST_KEYS:
        v = n.get(key)
        if isinstance(v, list):
            for x in v:
                if isinstance(x, dict):
                    yield x


def _walk(n):
    stack = [n]
    while stack:
        x = stack.pop()
        yield x
        stack.extend(_kids(x))


def _strip(n):
    while n.get("k") == "Block" and not n.get("stmts") and n.get("expr") is not None and not n.get("m"):
        n = n["expr"]
    return n


def _callee(n):
    k = n.get("k")
    if k == "MethodCall":
        return n.get("impl") or n.get("fn")
    if k == "Call" and n["f"].get("k") == "Def":
        return n["f"].get("impl") or n["f"].get("fn")
    return None


def _args(n):
    if n.get("k") == "MethodCall":
        return [n["recv"]] + list(n.get("args", []))
    return list(n.get("args", []))


# read-only numeric methods (&self / by-value receivers of f64 and Vector): evaluating them has no effect on any place
PURE_NUMERIC = {"sqrt", "abs", "powi", "powf", "recip", "norm_2", "norm_1", "norm_inf", "norm_p", "dot", "exp", "ln", "sin", "cos", "max", "min", "signum", "mul_add"}


class Canon:
    def __init__(self, d, known):
        self.d = d
        self.fns = {}
        for f in d["fns"]:
            self.fns.setdefault(f["path"], f)
        self.known = known
        self.known_norm = None if known is None else {norm_path(x) for x in known if not str(x).startswith("<")}
        self.fresh = 10_000_000
        self.done = set()
        self.inlined_calls = {}     # callee path -> count
        self.kept_calls = {}
        self.stats = {"inlined_calls": 0, "assign_forms": 0, "iterator_loops": 0}

    # ------------------------------------------------------------------ P1
    @staticmethod
    def _err_type(out):
        """the error type E of `Result<T, E>` (None for anything else)"""
        out = str(out or "")
        if not out.startswith("std::result::Result<") or not out.endswith(">"):
            return None
        inner, depth, args, cur = out[len("std::result::Result<"):-1], 0, [], ""
        for ch in inner:
            if ch in "<([":
                depth += 1
            elif ch in ">)]":
                depth -= 1
            if ch == "," and depth == 0:
                args.append(cur.strip())
                cur = ""
            else:
                cur += ch
        args.append(cur.strip())
        return args[1] if len(args) == 2 else None

    def inlinable(self, path, allow_ret=False, allow_try=False):
        f = self.fns.get(path)
        if f is None or f.get("kind") not in ("Fn", "AssocFn"):
            return None
        if self.known is None or path in self.known or norm_path(path) in self.known_norm:
            return None
        if f.get("impl_trait") or f.get("derived"):
            return None          # (a NEW public method is as transparent as a private one: what was known is excluded above)
        if f.get("kind") == "AssocFn" and not f.get("impl_self"):
            return None          # a provided method of a trait: an impl may override it, the default body says nothing about the call
        if any(p.get("k") != "Bind" or p.get("byref") for p in f.get("params", [])):
            return None
        body = f.get("body")
        if not isinstance(body, dict) or body.get("k") != "Block":
            return None
        if not allow_ret and any(n.get("k") == "Ret" for n in _walk(body)):
            self._early_returns_to_expr(body, f.get("output"))      # `if c { return A; } rest; B`  ->  `if c { A } else { rest; B }`
        for n in _walk(body):
            if (n.get("k") == "Try" and not allow_try) or (n.get("k") == "Ret" and not allow_ret):
                return None
            if n.get("k") == "Ret" and any(True for _ in ()):
                return None
            if _callee(n) == path:
                return None
        if allow_ret and any(n.get("k") == "Closure" and any(x.get("k") == "Ret" for x in _walk(n)) for n in _walk(body)):
            return None
        return f

    def _early_returns_to_expr(self, body, out_ty):
        """A value-returning helper written with guard-style early returns, put into expression form (same evaluation order, same value):
        `{ pre; if c { s; return A; } rest; B }`  ->  `{ pre; if c { s; A } else { rest; B } }`, repeatedly.  Only top-level guards whose
        arm ends in the arm's only `return`; anything else is left alone (and the helper then stays un-inlined)."""
        if body.get("expr") is None:
            return False
        stmts = body.get("stmts", [])
        for i, st in enumerate(stmts):
            e = _strip(st.get("e") or {}) if st.get("k") in ("Semi", "Expr") else {}
            if e.get("k") != "If" or e.get("else") is not None or e.get("m") or (isinstance(e.get("cond"), dict) and e["cond"].get("k") == "LetCond"):
                if any(n.get("k") == "Ret" for n in _walk(st)):
                    return False
                continue
            th = _strip(e["then"])
            rets = [n for n in _walk(e) if n.get("k") == "Ret"]
            if not rets:
                continue
            if th.get("k") != "Block" or th.get("m") or not th.get("stmts") or th.get("expr") is not None or len(rets) != 1:
                return False
            last = th["stmts"][-1]
            le = _strip(last.get("e") or {}) if last.get("k") in ("Semi", "Expr") else {}
            if le is not rets[0] or not isinstance(le.get("e"), dict):
                return False
            sp = list(e.get("sp") or [0, 0, 0, 0])
            rest = {"k": "Block", "stmts": stmts[i + 1:], "expr": body.get("expr"), "id": self._id(), "ty": out_ty, "sp": list((stmts[i + 1] if i + 1 < len(stmts) else body["expr"]).get("sp") or sp)}
            if any(n.get("k") == "Ret" for n in _walk(rest)) and not self._early_returns_to_expr(rest, out_ty):
                return False
            then_b = {"k": "Block", "stmts": th["stmts"][:-1], "expr": le["e"], "id": self._id(), "ty": out_ty, "sp": list(th.get("sp") or sp)}
            new_if = {"k": "If", "cond": e["cond"], "then": then_b, "else": rest, "id": self._id(), "ty": out_ty, "sp": sp}
            body["stmts"] = stmts[:i]
            body["expr"] = new_if
            self.stats["early_return_helpers"] = self.stats.get("early_return_helpers", 0) + 1
            return True
        return False

    def run_fn(self, f, stack=()):
        p = f["path"]
        if p in self.done or p in stack:
            return
        body = f.get("body")
        if isinstance(body, dict):
            # callees first
            for n in list(_walk(body)):
                c = _callee(n)
                if c and self.inlinable(c) is not None:
                    self.run_fn(self.fns[c], stack + (p,))
            self.drop_debug_asserts(body)
            self.checked_sub_ok_or(body)
            self.ret_if(body)
            self.guard_else(body)
            self.flag_exits(body)
            self.assert_eq_forms(body)
            self.match_bind_guards(body)
            self.split_last_match(body)
            self.end_element_lets(body)
            self.if_let_get(body)
            self.if_let_try_from(body)
            self.sin_cos_lets(body)
            self.split_tuple_let_else(body)
            self.let_else(body)
            self.flatten_blocks(body)
            self.find_match_tail(body, f)
            self.option_searches(body, f)
            self.flatten_blocks(body)
            # a closure whose whole body is a helper call: give it a block so the helper's statements can be spliced
            for n in list(_walk(body)):
                if n.get("k") == "Closure" and isinstance(n.get("body"), dict):
                    cb = n["body"]
                    call, hf = self._target(cb)
                    if hf is not None and _strip(cb) is cb:
                        n["body"] = {"k": "Block", "stmts": [], "expr": cb, "id": self._id(), "ty": cb.get("ty"), "sp": list(cb.get("sp") or [0, 0, 0, 0])}
            if body.get("k") == "Block":
                self.inline_block(body, f)
                for n in list(_walk(body)):
                    if n.get("k") == "Block" and n is not body:
                        self.inline_block(n, f)
                self.inline_exprs(body, f)
            self.ret_if(body)                # an inlined expression-form helper under `return`: each arm is an exit of its own again
            self.flatten_blocks(body)
            self.split_tuple_lets(body)
            self.beta_reduce(body)
            self.beta_reduce_blocks(body)
            self.after_beta(body)
            self.assign_forms(body)
            self.match_ints(body)
            self.match_bools(body)
            # (continue_guards is deliberately NOT run: `if c { continue; }` in a numerical loop is a conditional skip of the work below it, which is what
            #  several confirmed mutants add; un-nesting it made them look like ordinary guarded updates to rules that do not ask for unconditionality.
            #  The price is one neutral patch, c19-p2.)
            self.if_assign(body)
            self.mem_replace(body)
            self.loop_to_while(body)
            self.while_loops(body)
            self.struct_pattern_lets(body)
            self.result_temporaries(body)
            self.slice_aliases(body)
            self.fill_calls(body)
            self.extend_map(body)
            self.for_each_loops(body)
            self.for_map_loops(body)
            self.slice_aliases(body)         # an alias that was captured by a `for_each` closure is a plain alias now
            self.demote_accumulators(body)
            self.fold_tuple_loops(body)
            self.fold_loops(body)
            self.self_select(body)
            self.collect_loops(body)
            self.iter_loops(body)
            self.for_tuple_patterns(body)
            self.deref_addr(body)
            self.demote_accumulators(body)       # (again: an element borrowed from `iter_mut()` is an indexed cell only now)
            self.assign_forms(body)
        self.done.add(p)

    def _instance(self, f, call):
        """(prelude stmts, body stmts, tail expr) of an inlined instance of f at `call`."""
        args = _args(call)
        params = f.get("params", [])
        if len(args) != len(params):
            return None
        body = copy.deepcopy(f["body"])
        base = self.fresh
        self.fresh += 1_000_000
        # rename bindings / node ids
        # every binding of the callee (parameters included) gets a fresh id first: the caller's ids are small per-function
        # numbers too, and a substituted argument must never be mistaken for a later parameter
        params = [dict(p, v=p["v"] + base) for p in params]
        for n in _walk(body):
            if n.get("k") in ("Bind",) and isinstance(n.get("v"), int):
                n["v"] = n["v"] + base
            elif n.get("k") == "Local" and isinstance(n.get("v"), int):
                n["v"] = n["v"] + base
            if isinstance(n.get("id"), int):
                n["id"] = n["id"] + base
        # positions: keep relative order, place at the call's closing parenthesis
        csp = call.get("sp") or [0, 0, 0, 0]
        L, C = csp[2], csp[3] - 1
        pts = set()
        for n in _walk(body):
            sp = n.get("sp")
            if sp and len(sp) >= 4:
                pts.add((sp[0], sp[1]))
                pts.add((sp[2], sp[3]))
        rank = {pt: i + 1 for i, pt in enumerate(sorted(pts))}
        eps = 1.0 / (len(rank) + 2)
        for n in _walk(body):
            sp = n.get("sp")
            if sp and len(sp) >= 4:
                n["osp"] = list(sp)
                n["ofile"] = f.get("file")
                n["sp"] = [L, C + rank[(sp[0], sp[1])] * eps * 0.5, L, C + rank[(sp[2], sp[3])] * eps * 0.5]
        prelude = []
        muts = set()
        for n in _walk(body):
            if n.get("k") in ("Assign", "AssignOp"):
                r = n["l"]
                if r.get("k") == "Local":
                    muts.add(r["v"])
        expr_only = not f["body"].get("stmts") and not any(str(t).startswith("&mut") for t in f.get("inputs", []))
        for prm, arg in zip(params, args):
            uses = [n for n in _walk(body) if n.get("k") == "Local" and n.get("v") == prm["v"]]
            a = arg
            alias = (not prm.get("mut")) and prm["v"] not in muts and (self._aliasable(a) or (expr_only and self._pure(a)))
            if alias:
                parents = {}
                for x in _walk(body):
                    for c in _kids(x):
                        parents[id(c)] = x
                for u in uses:
                    par = parents.get(id(u))
                    src = a
                    passed_on = par is not None and ((par.get("k") == "Call" and any(x is u for x in par.get("args", []))) or
                                                     (par.get("k") == "MethodCall" and any(x is u for x in par.get("args", []))))
                    if not passed_on:
                        # used as a place (indexed, field, receiver, deref): the reference itself is transparent
                        while src.get("k") == "AddrOf":
                            src = src["e"]
                    c = copy.deepcopy(src)
                    for x in _walk(c):
                        if x.get("sp"):
                            x["sp"] = list(u.get("sp") or x["sp"])
                    keep_adj = u.get("adj")
                    uty = str(u.get("ty", ""))
                    is_recv = par is not None and par.get("k") == "MethodCall" and par.get("recv") is u
                    u.clear()
                    u.update(c)
                    if keep_adj and not u.get("adj"):
                        u["adj"] = keep_adj
                    if is_recv and uty.startswith("&mut") and not str(u.get("adj", "")).startswith("&mut"):
                        u["adj"] = uty
            else:
                nv = prm["v"]
                pat = dict(prm)
                pat["v"] = nv
                sp0 = [L, C + 0.0001 * (len(prelude) + 1) * eps, L, C + 0.0001 * (len(prelude) + 1) * eps]
                prelude.append({"k": "Let", "pat": pat, "init": copy.deepcopy(a), "sp": sp0, "inl": f["path"]})
        self.stats["inlined_calls"] += 1
        self.inlined_calls[f["path"]] = self.inlined_calls.get(f["path"], 0) + 1
        return prelude, body.get("stmts", []), body.get("expr")

    @staticmethod
    def _pure(a, numeric=False):
        """Side-effect free argument expression (arithmetic over locals, fields, literals, element reads, len/clone):
        for a read-only single-expression callee, evaluating it at the parameter's use is the same as at the call."""
        for n in _walk(a):
            k = n.get("k")
            if k == "Def" and str(n.get("dk", "")).startswith(("Const", "AssocConst", "Static")):
                continue
            if k in ("Lit", "Local", "Field", "Unary", "Cast", "Tup", "AddrOf", "Index", "Bind"):
                if k == "AddrOf" and n.get("mut"):
                    return False
                continue
            if k == "Binary" and n.get("op") not in ("&&", "||"):
                continue
            if k == "Block" and not n.get("stmts") and n.get("expr") is not None and not n.get("m"):
                continue
            if k == "MethodCall" and not n.get("args") and n.get("name") in ("len", "size", "rows", "cols", "clone"):
                continue
            if numeric and k == "MethodCall" and n.get("name") in PURE_NUMERIC and len(n.get("args", [])) <= 1:
                continue
            return False
        return True

    @staticmethod
    def _aliasable(a):
        n = a
        while True:
            k = n.get("k")
            if k == "Lit":
                return True
            if k == "Local":
                return True
            if k in ("AddrOf", "Field"):
                n = n["e"]
                continue
            if k == "Unary" and n.get("op") == "*":
                n = n["e"]
                continue
            if k == "Block" and not n.get("stmts") and n.get("expr") is not None:
                n = n["expr"]
                continue
            return False

    def _target(self, e):
        """The inlinable callee of an expression that IS a call (through transparent blocks), else None."""
        e = _strip(e)
        c = _callee(e)
        if c is None:
            return None, None
        f = self.inlinable(c)
        return (e, f) if f is not None else (None, None)

    def _hoistable_calls(self, e, top=True):
        """Inlinable calls with a statement body, evaluated unconditionally and exactly once when statement expression e
        is evaluated, whose callee takes no `&mut` parameter (so it only reads: evaluating it first changes nothing)."""
        out = []
        stack = [(e, True)]
        while stack:
            x, first = stack.pop()
            k = x.get("k")
            if k == "For" and isinstance(x.get("iter"), dict):
                stack.append((x["iter"], False))        # the iterated expression is evaluated once, before the first pass
                continue
            if k in ("Closure", "For", "While", "Loop", "Match"):
                continue
            if k == "If":
                stack.append((x["cond"], False))
                continue
            if k == "Block" and (x.get("stmts") or x.get("m")):
                continue
            if k == "Binary" and x.get("op") in ("&&", "||"):
                stack.append((x["l"], False))
                continue
            c = _callee(x)
            if c and not (first and top):
                f = self.inlinable(c)
                if f is not None and (f["body"].get("stmts") or f["body"].get("expr") is None):
                    if not any(str(t).startswith("&mut") for t in f.get("inputs", [])):
                        out.append(x)
                        continue
                    # a helper that writes through a `&mut` argument may still be evaluated first when everything else the
                    # statement evaluates is side-effect free and does not read what the helper writes
                    roots = set()
                    for a in _args(x):
                        a0 = a
                        while a0.get("k") in ("AddrOf", "Field", "Index") or (a0.get("k") == "Unary" and a0.get("op") == "*"):
                            a0 = a0["e"] if a0.get("k") != "Index" else a0["base"]
                        if a.get("k") == "AddrOf" and a.get("mut") and a0.get("k") == "Local":
                            roots.add(a0["v"])
                        elif str(a.get("ty", "")).startswith("&mut") and a0.get("k") == "Local":
                            roots.add(a0["v"])
                    others = []
                    st2 = [e]
                    while st2:
                        y = st2.pop()
                        if y is x:
                            continue
                        if not any(z is x for z in _walk(y)):
                            others.append(y)
                            continue
                        st2.extend(_kids(y))
                    def reads_root(n_):
                        return any(z.get("k") == "Local" and z.get("v") in roots for z in _walk(n_))
                    skeleton_ok = all(self._pure(o) and not reads_root(o) for o in others if o.get("k") not in ("Def",))
                    # the nodes on the path from the statement to the call may only be calls / method calls / assignments
                    path_ok = True
                    cur = [e]
                    while cur:
                        y = cur.pop()
                        if y is x:
                            break
                        nxt = [c_ for c_ in _kids(y) if c_ is x or any(z is x for z in _walk(c_))]
                        if y.get("k") not in ("Call", "MethodCall", "Assign", "Block", "AddrOf", "Cast", "Semi", "Expr") or len(nxt) != 1:
                            path_ok = False
                            break
                        cur = nxt
                    if roots and skeleton_ok and path_ok:
                        out.append(x)
                        continue
            for ch in reversed(list(_kids(x))):
                stack.append((ch, False))
        return out

    def _hoist(self, s):
        """`stmt(.. helper(a) ..)`  ->  `let t = helper(a); stmt(.. t ..)` for read-only helpers."""
        k = s.get("k")
        e = s.get("e") if k in ("Semi", "Expr") else s.get("init") if k == "Let" else None
        if e is None:
            return []
        e0 = _strip(e)
        # a call that IS the statement / initialiser / assignment right-hand side is spliced directly
        direct = [e0]
        if e0.get("k") in ("Assign", "AssignOp"):
            direct.append(_strip(e0["r"]))
        lets = []
        for call in self._hoistable_calls(e):
            if any(call is d for d in direct):
                continue
            self.fresh += 1
            v = self.fresh
            sp = call.get("sp") or s.get("sp") or [0, 0, 0, 0]
            ssp = s.get("sp") or sp
            lets.append({"k": "Let", "pat": {"k": "Bind", "v": v, "name": "__h%d" % v, "mut": False, "byref": False, "ty": call.get("ty", "")},
                         "init": copy.deepcopy(call), "sp": [ssp[0], ssp[1] - 0.5 + 0.001 * len(lets), ssp[0], ssp[1] - 0.5 + 0.001 * len(lets)], "canon": "hoisted"})
            # the hoisted call is evaluated at the let: give it (and its arguments) the let's position
            for x in _walk(lets[-1]["init"]):
                if x.get("sp"):
                    x["sp"] = list(lets[-1]["sp"])
            lets[-1]["init"]["sp"] = [lets[-1]["sp"][0], lets[-1]["sp"][1], lets[-1]["sp"][0], lets[-1]["sp"][1] + 0.0005]
            keep = {kk: call.get(kk) for kk in ("ty", "sp", "adj")}
            call.clear()
            call.update({"k": "Local", "v": v, "name": "__h%d" % v, "id": self._id()})
            for kk, vv in keep.items():
                if vv is not None:
                    call[kk] = vv
        return lets

    def inline_block(self, blk, owner):
        out = []
        changed = False
        stmts0 = []
        for s in blk.get("stmts", []):
            h = self._hoist(s)
            if h:
                changed = True
                stmts0.extend(h)
            stmts0.append(s)
        if blk.get("expr") is not None:
            fake = {"k": "Expr", "e": blk["expr"], "sp": blk["expr"].get("sp")}
            h = self._hoist(fake)
            if h and _strip(blk["expr"]) is not None:
                changed = True
                stmts0.extend(h)
        for s in stmts0:
            k = s.get("k")
            done = False
            if k in ("Semi", "Expr") and _strip(s["e"]).get("k") == "Ret" and isinstance(_strip(s["e"]).get("e"), dict):
                # `return helper(..);` with a private helper that returns the caller's own type: the helper's `return`s are the
                # caller's, its value is returned
                r0 = _strip(s["e"])
                e0 = _strip(r0["e"])
                c0 = _callee(e0)
                f0 = self.inlinable(c0, allow_ret=True) if c0 else None
                if f0 is None and c0:
                    f1 = self.inlinable(c0, allow_ret=True, allow_try=True)
                    if f1 is not None and self._err_type(f1.get("output")) is not None and str(f1.get("output")) == str(owner.get("output")):
                        f0 = f1
                if f0 is not None and str(f0.get("output")) == str(owner.get("output")) and c0 != owner.get("path"):
                    inst = self._instance(f0, e0)
                    if inst is not None and inst[2] is not None:
                        pre, st, tail = inst
                        out.extend(pre)
                        out.extend(st)
                        r0["e"] = tail
                        out.append(s)
                        done = changed = True
            if done:
                pass
            elif k in ("Semi", "Expr"):
                e = s["e"]
                call, f = self._target(e)
                if f is not None:
                    inst = self._instance(f, call)
                    if inst is not None:
                        pre, st, tail = inst
                        out.extend(pre)
                        out.extend(st)
                        if tail is not None:
                            out.append({"k": "Semi", "e": tail, "sp": tail.get("sp")})
                        done = changed = True
                elif _strip(e).get("k") in ("Assign", "AssignOp"):
                    asg = _strip(e)
                    call, f = self._target(asg["r"])
                    if f is not None:
                        inst = self._instance(f, call)
                        if inst is not None and inst[2] is not None:
                            pre, st, tail = inst
                            out.extend(pre)
                            out.extend(st)
                            asg["r"] = tail
                            out.append(s)
                            done = changed = True
            elif k == "Let" and s.get("init") is not None:
                call, f = self._target(s["init"])
                i0 = _strip(s["init"])
                if f is None and i0.get("k") == "Try":
                    # `let t = helper(..)?;` with a private helper that ends in `Ok(e)` and whose only other exits are `?` of the
                    # same error type: its `?` are the caller's `?`, its value is e
                    inner = _strip(i0["e"])
                    c0 = _callee(inner)
                    f0 = self.inlinable(c0, allow_try=True) if c0 else None
                    if f0 is not None and self._err_type(f0.get("output")) is not None and self._err_type(f0.get("output")) == self._err_type(owner.get("output")):
                        t0 = _strip(f0["body"].get("expr")) if f0["body"].get("expr") is not None else None
                        if t0 is not None and t0.get("k") == "Call" and str(t0["f"].get("fn", "")).endswith("::Ok") and len(t0.get("args", [])) == 1:
                            inst = self._instance(f0, inner)
                            if inst is not None and inst[2] is not None:
                                pre, st, tail = inst
                                tl = _strip(tail)
                                if tl.get("k") == "Call" and str(tl["f"].get("fn", "")).endswith("::Ok"):
                                    val = tl["args"][0]
                                    out.extend(pre)
                                    out.extend(st)
                                    if not self._merge_alias(pre + st, s["pat"], val, []):
                                        s["init"] = val
                                        out.append(s)
                                    done = changed = True
                                    self.stats["inlined_try_helpers"] = self.stats.get("inlined_try_helpers", 0) + 1
                if f is not None:
                    inst = self._instance(f, call)
                    if inst is not None and inst[2] is not None:
                        pre, st, tail = inst
                        out.extend(pre)
                        out.extend(st)
                        pat = s["pat"]
                        t = _strip(tail)
                        spliced = pre + st
                        if pat.get("k") == "Tuple" and t.get("k") == "Tup" and len(pat.get("ps", [])) == len(t.get("es", [])):
                            for q, x in zip(pat["ps"], t["es"]):
                                if not self._merge_alias(spliced, q, x, [y for y in t["es"] if y is not x]):
                                    out.append({"k": "Let", "pat": q, "init": x, "sp": x.get("sp") or s.get("sp")})
                        elif self._merge_alias(spliced, pat, tail, []):
                            pass
                        else:
                            s["init"] = tail
                            # the let now sits after the inlined statements
                            if tail.get("sp"):
                                s["sp"] = [tail["sp"][0], tail["sp"][1], tail["sp"][2], tail["sp"][3]]
                            out.append(s)
                        done = changed = True
            if not done:
                out.append(s)
        tail = blk.get("expr")
        if tail is not None:
            call, f = self._target(tail)
            if f is None and blk is owner.get("body"):
                # the value of the whole function: a `return` inside the helper returns that very value
                e0 = _strip(tail)
                c0 = _callee(e0)
                f0 = self.inlinable(c0, allow_ret=True) if c0 else None
                if f0 is None and c0:
                    f1 = self.inlinable(c0, allow_ret=True, allow_try=True)
                    if f1 is not None and self._err_type(f1.get("output")) is not None and self._err_type(f1.get("output")) == self._err_type(owner.get("output")) and \
                            str(f1.get("output")) == str(owner.get("output")):
                        f0 = f1            # the helper returns the caller's own Result: its `?` and `return` are the caller's
                if f0 is not None:
                    call, f = e0, f0
            if f is not None and _strip(tail) is tail:
                inst = self._instance(f, call)
                if inst is not None:
                    pre, st, t2 = inst
                    out.extend(pre)
                    out.extend(st)
                    if t2 is not None:
                        blk["expr"] = t2
                    else:
                        del blk["expr"]
                    changed = True
        if changed:
            blk["stmts"] = out
            # the spliced statements may themselves start with inlinable calls that were nested deeper
        return changed

    @staticmethod
    def _merge_alias(spliced, pat, init, others):
        """`let v_in = E; ...; let [mut] p = v_in` where v_in is a local of the inlined callee that dies with it:
        the callee's local simply becomes the caller's binding (no alias)."""
        x = _strip(init)
        if pat.get("k") != "Bind" or pat.get("byref") or x.get("k") != "Local":
            return False
        vin = x["v"]
        decl = None
        for st in spliced:
            if st.get("k") == "Let" and st.get("pat", {}).get("k") == "Bind" and st["pat"].get("v") == vin:
                decl = st
        if decl is None:
            return False
        if any(n.get("k") == "Local" and n.get("v") == vin for o in others for n in _walk(o)):
            return False
        for st in spliced:
            for n in _walk(st):
                if n.get("k") in ("Local", "Bind") and n.get("v") == vin:
                    n["v"] = pat["v"]
                    if n.get("k") == "Bind":
                        n["mut"] = bool(n.get("mut")) or bool(pat.get("mut"))
                        n["name"] = pat.get("name", n.get("name"))
                    else:
                        n["name"] = pat.get("name", n.get("name"))
        return True

    def inline_exprs(self, body, owner):
        """Statement-free callee bodies replace the call expression wherever it stands."""
        # `helper(..)?` with a statement-free private helper `Ok(E)` whose own `?` carry the caller's error type: the value is E
        for n in list(_walk(body)):
            if n.get("k") != "Try" or not isinstance(n.get("e"), dict):
                continue
            inner = _strip(n["e"])
            c = _callee(inner)
            f = self.inlinable(c, allow_try=True) if c else None
            if f is None or f["body"].get("stmts") or f["body"].get("expr") is None:
                continue
            if self._err_type(f.get("output")) is None or self._err_type(f.get("output")) != self._err_type(owner.get("output")):
                continue
            t0 = _strip(f["body"]["expr"])
            if not (t0.get("k") == "Call" and str(t0.get("f", {}).get("fn", "")).endswith("::Ok") and len(t0.get("args", [])) == 1):
                continue
            inst = self._instance(f, inner)
            if inst is None or inst[0] or inst[1]:
                continue
            tl = _strip(inst[2])
            if not (tl.get("k") == "Call" and str(tl.get("f", {}).get("fn", "")).endswith("::Ok")):
                continue
            val = tl["args"][0]
            keep = {kk: n.get(kk) for kk in ("adj",)}
            n.clear()
            n.update(val)
            for kk, vv in keep.items():
                if vv and not n.get(kk):
                    n[kk] = vv
            self.stats["inlined_try_exprs"] = self.stats.get("inlined_try_exprs", 0) + 1
        for n in list(_walk(body)):
            c = _callee(n)
            if not c:
                continue
            f = self.inlinable(c)
            if f is None:
                continue
            fb = f["body"]
            if fb.get("stmts") or fb.get("expr") is None:
                self.kept_calls[c] = self.kept_calls.get(c, 0) + 1
                continue
            inst = self._instance(f, n)
            if inst is None or inst[0]:
                # by-value expression arguments would need a let: wrap as a block expression
                if inst is not None:
                    pre, st, tail = inst
                    blk = {"k": "Block", "stmts": pre + st, "expr": tail, "id": self._id(), "ty": n.get("ty"), "sp": n.get("sp")}
                    adj = n.get("adj")
                    n.clear()
                    n.update(blk)
                    if adj:
                        n["adj"] = adj
                continue
            pre, st, tail = inst
            adj = n.get("adj")
            sp = n.get("sp")
            n.clear()
            n.update(tail)
            if adj and not n.get("adj"):
                n["adj"] = adj

    def _id(self):
        self.fresh += 1
        return self.fresh

    # ------------------------------------------------------------------ P2
    def assign_forms(self, body):
        for n in _walk(body):
            if n.get("k") != "Assign":
                continue
            r = _strip(n["r"])
            if r.get("k") != "Binary" or r.get("op") not in ("+", "-", "*", "/"):
                continue
            if not _is_builtin_num(r):
                continue                      # overloaded operators: `x = x + e` and `x += e` are different trait methods
            if _same_place(n["l"], r["l"]):
                op, rhs = r["op"], r["r"]
            elif r["op"] in ("+", "*") and _same_place(n["l"], r["r"]):
                op, rhs = r["op"], r["l"]          # commutative builtin arithmetic only
            else:
                continue
            n["k"] = "AssignOp"
            n["op"] = op + "="
            n["r"] = rhs
            n["canon"] = "x = x op e"
            self.stats["assign_forms"] += 1

    # ------------------------------------------------------------------ P13
    def demote_accumulators(self, body):
        """`let mut a = X[i]; for .. { a += e; } X[i] = a;` (a used nowhere else, the loop neither reads nor writes X)  ->
        `for .. { X[i] += e; }`: a register copy of an accumulator cell, written back once."""
        for blk in [n for n in _walk(body) if n.get("k") == "Block"]:
            sts = blk.get("stmts", [])
            i = 0
            while i + 2 < len(sts) + 0:
                a_, l_, w_ = sts[i], sts[i + 1], sts[i + 2]
                i += 1
                if a_.get("k") != "Let" or a_.get("pat", {}).get("k") != "Bind" or not a_["pat"].get("mut") or a_.get("init") is None:
                    continue
                cell = _strip(a_["init"])
                via = None
                if cell.get("k") == "Local" and i >= 2:
                    # `let acc = X[i]; let mut a = acc;` (a by-value parameter of an inlined helper): the cell one name further
                    p_ = sts[i - 2]
                    if p_.get("k") == "Let" and p_.get("pat", {}).get("k") == "Bind" and not p_["pat"].get("mut") and p_["pat"].get("v") == cell.get("v") and p_.get("init") is not None and \
                            len([x for x in _walk(body) if x.get("k") == "Local" and x.get("v") == cell.get("v")]) == 1:
                        via, cell = p_, _strip(p_["init"])
                lp = _strip(l_.get("e") or {}) if l_.get("k") in ("Semi", "Expr") else {}
                wb = _strip(w_.get("e") or {}) if w_.get("k") in ("Semi", "Expr") else {}
                seed_ = None
                if cell.get("k") != "Index" and via is None and lp.get("k") in ("For", "While") and wb.get("k") == "Assign" and _strip(wb["l"]).get("k") == "Index" and self._pure(_strip(wb["l"])) and \
                        (self._pure(cell) or (cell.get("k") == "Call" and not cell.get("args") and str(_callee(cell) or "").endswith(("Zero::zero", "One::one", "::zero", "::one")))) and \
                        _strip(wb["r"]).get("k") == "Local" and _strip(wb["r"]).get("v") == a_["pat"]["v"]:
                    # `let mut a = Z; for .. { a += e; } X[i] = a;` (Z any side-effect free start value, usually zero)  ->  `X[i] = Z; for .. { X[i] += e; }`:
                    # the cell takes the start value first and then exactly the same additions in the same order
                    tgt_ = _strip(wb["l"])
                    base_ = _strip(tgt_["base"])
                    while base_.get("k") == "Field":
                        base_ = _strip(base_["e"])
                    bv_ = base_.get("v") if base_.get("k") == "Local" else None
                    if bv_ is not None and not any(x.get("k") == "Local" and x.get("v") == bv_ for x in _walk(cell)):
                        seed_, cell = cell, tgt_
                if cell.get("k") != "Index" or lp.get("k") not in ("For", "While") or wb.get("k") != "Assign" or not self._pure(cell):
                    continue
                av = a_["pat"]["v"]
                if not (_strip(wb["r"]).get("k") == "Local" and _strip(wb["r"]).get("v") == av and _same_pure(_strip(wb["l"]), cell)):
                    continue
                uses = [x for x in _walk(body) if x.get("k") == "Local" and x.get("v") == av]
                in_loop = [x for x in _walk(lp) if x.get("k") == "Local" and x.get("v") == av]
                if len(uses) != len(in_loop) + 1:
                    continue
                # inside the loop `a` appears only as the target of compound assignments
                tg = [y for y in _walk(lp) if y.get("k") == "AssignOp" and _strip(y["l"]).get("k") == "Local" and _strip(y["l"]).get("v") == av]
                if len(tg) != len(in_loop) or not tg:
                    continue
                base = _strip(cell["base"])
                while seed_ is not None and base.get("k") == "Field":
                    base = _strip(base["e"])
                bv = base.get("v") if base.get("k") == "Local" else None
                if bv is None or any(x.get("k") == "Local" and x.get("v") == bv for x in _walk(lp)):
                    continue
                idx_vars = {x.get("v") for x in _walk(cell["idx"]) if x.get("k") == "Local"}
                if any(y.get("k") in ("Assign", "AssignOp") and _strip(y["l"]).get("k") == "Local" and _strip(y["l"]).get("v") in idx_vars for y in _walk(lp)):
                    continue
                for y in tg:
                    c_ = copy.deepcopy(cell)
                    for x in _walk(c_):
                        if "id" in x:
                            x["id"] = self._id()
                        if x.get("sp") and y["l"].get("sp"):
                            x["sp"] = list(y["l"]["sp"])
                    y["l"] = c_
                if seed_ is not None:
                    # the write-back becomes the initial store, in the place of the `let`
                    wb["r"] = seed_
                    sp_a = list(a_.get("sp") or [0, 0, 0, 0])
                    w_["sp"] = sp_a
                    for x in _walk(w_):
                        if x.get("sp"):
                            x["sp"] = list(sp_a)
                    blk["stmts"] = [(w_ if x is a_ else x) for x in sts if x is not w_]
                else:
                    blk["stmts"] = [x for x in sts if x is not a_ and x is not w_ and x is not via]
                sts = blk["stmts"]
                self.stats["demoted_accumulators"] = self.stats.get("demoted_accumulators", 0) + 1
                i = 0

    def mem_replace(self, body):
        """`let old = mem::replace(place, v);`  ->  `let old = *place; *place = v;`  (v side-effect free and not reading place)"""
        # `acc += mem::replace(place, v);` (built-in arithmetic: the right operand is evaluated first)  ->  `let t = mem::replace(place, v); acc += t;`
        for blk in [n for n in _walk(body) if n.get("k") == "Block"]:
            out0, ch0 = [], False
            for st in blk.get("stmts", []):
                e = _strip(st.get("e") or {}) if st.get("k") in ("Semi", "Expr") else {}
                r = _strip(e.get("r") or {}) if e.get("k") == "AssignOp" and not e.get("fn") else {}
                if r.get("k") == "Call" and _callee(r) in ("std::mem::replace", "core::mem::replace") and len(r.get("args", [])) == 2 and self._pure(r["args"][1]) and self._pure(e["l"]):
                    self.fresh += 1
                    v = self.fresh
                    sp = st.get("sp") or [0, 0, 0, 0]
                    let = {"k": "Let", "pat": {"k": "Bind", "v": v, "name": "__old%d" % v, "mut": False, "byref": False, "ty": r.get("ty")}, "init": dict(r),
                           "sp": [sp[0], sp[1] - 0.4, sp[0], sp[1] - 0.35]}
                    keep = {kk: r.get(kk) for kk in ("ty", "sp")}
                    r.clear()
                    r.update({"k": "Local", "v": v, "name": "__old%d" % v, "id": self._id()})
                    r.update({kk: vv for kk, vv in keep.items() if vv is not None})
                    out0.append(let)
                    ch0 = True
                out0.append(st)
            if ch0:
                blk["stmts"] = out0
        for blk in [n for n in _walk(body) if n.get("k") == "Block"]:
            out = []
            ch = False
            for st in blk.get("stmts", []):
                e = _strip(st.get("init") or {}) if st.get("k") == "Let" else _strip(st.get("e") or {}) if st.get("k") == "Semi" else {}
                if e.get("k") == "Call" and _callee(e) in ("std::mem::replace", "core::mem::replace") and len(e.get("args", [])) == 2 and self._pure(e["args"][1], numeric=True):
                    dest, val = e["args"]
                    d0 = dest
                    while d0.get("k") == "AddrOf":
                        d0 = d0["e"]
                    place = d0 if d0 is not dest else {"k": "Unary", "op": "*", "e": dest, "id": self._id(), "ty": val.get("ty"), "sp": list(dest.get("sp") or [0, 0, 0, 0])}
                    if not self._pure(place):
                        out.append(st)
                        continue
                    sp = st.get("sp") or [0, 0, 0, 0]
                    if st.get("k") == "Let":
                        st["init"] = copy.deepcopy(place)
                        out.append(st)
                    asg = {"k": "Assign", "l": copy.deepcopy(place), "r": val, "id": self._id(), "ty": "()", "sp": [sp[2], sp[3] + 0.001, sp[2], sp[3] + 0.002]}
                    for x in _walk(asg["l"]):
                        if x.get("sp"):
                            x["sp"] = list(asg["sp"])
                    out.append({"k": "Semi", "e": asg, "sp": list(asg["sp"])})
                    ch = True
                else:
                    out.append(st)
            if ch:
                blk["stmts"] = out

    def for_tuple_patterns(self, body):
        """`for (a, b, c) in SRC` (SRC not an enumerate / zip chain that P3 rewrites)  ->  `for t in SRC { let a = t.0; let b = t.1; .. }`"""
        for f in [n for n in _walk(body) if n.get("k") == "For"]:
            pat = f.get("pat", {})
            if pat.get("k") != "Tuple" or f.get("canon") or f["body"].get("k") != "Block":
                continue
            it = _strip(f["iter"])
            names = set()
            x = it
            while x.get("k") == "MethodCall":
                names.add(x.get("name"))
                x = _strip(x["recv"])
            if names & {"enumerate", "zip"}:
                continue
            if not all(q.get("k") in ("Bind", "Wild") and not q.get("byref") for q in pat.get("ps", [])):
                continue
            self.fresh += 1
            tv = self.fresh
            sp = f["body"].get("sp") or f.get("sp") or [0, 0, 0, 0]
            lets = []
            for i_, q in enumerate(pat["ps"]):
                if q.get("k") != "Bind":
                    continue
                fld = {"k": "Field", "name": str(i_), "e": {"k": "Local", "v": tv, "name": "__t", "id": self._id(), "ty": pat.get("ty"), "sp": [sp[0], sp[1], sp[0], sp[1]]},
                       "id": self._id(), "ty": q.get("ty"), "sp": [sp[0], sp[1], sp[0], sp[1]]}
                lets.append({"k": "Let", "pat": q, "init": fld, "sp": [sp[0], sp[1] + 0.001 * (len(lets) + 1), sp[0], sp[1] + 0.001 * (len(lets) + 1)], "canon": "tuple-elem"})
            f["pat"] = {"k": "Bind", "v": tv, "name": "__t", "mut": False, "byref": False, "ty": pat.get("ty")}
            f["body"]["stmts"] = lets + list(f["body"].get("stmts", []))

    # ------------------------------------------------------------------ P12
    def if_assign(self, body):
        """`x = if c { s..; a } else { t..; b };` (a branch with statements)  ->  `if c { s..; x = a; } else { t..; x = b; }`;
        `let x = if ..` likewise with the declaration split off.  Branches without statements stay if-expressions."""
        for blk in [n for n in _walk(body) if n.get("k") == "Block"]:
            out = []
            ch = False
            for st in blk.get("stmts", []):
                tgt_mk = None
                rhs = None
                if st.get("k") in ("Semi", "Expr"):
                    e = _strip(st.get("e") or {})
                    if e.get("k") == "Assign" and _strip(e["r"]).get("k") == "If" and self._pure(e["l"]):
                        rhs = _strip(e["r"])
                        lhs = e["l"]
                        tgt_mk = lambda sp, lhs=lhs: copy.deepcopy(lhs)
                elif st.get("k") == "Let" and st.get("init") is not None and st["pat"].get("k") == "Bind" and _strip(st["init"]).get("k") == "If":
                    rhs = _strip(st["init"])
                    pb = st["pat"]
                    tgt_mk = lambda sp, pb=pb: {"k": "Local", "v": pb["v"], "name": pb.get("name"), "id": self._id(), "ty": pb.get("ty"), "sp": list(sp)}
                if rhs is None or rhs.get("else") is None:
                    out.append(st)
                    continue
                # collect the branches of the if / else-if chain
                leaves = []

                def collect(n):
                    th, el = n["then"], _strip(n["else"])
                    leaves.append((n, "then", th))
                    if el.get("k") == "If" and el.get("else") is not None:
                        collect(el)
                    else:
                        leaves.append((n, "else", n["else"]))
                collect(rhs)
                if not any(b.get("k") == "Block" and b.get("stmts") for _, _, b in leaves):
                    out.append(st)
                    continue
                if any(not (b.get("k") == "Block" and b.get("expr") is not None) and not (b.get("k") != "Block") for _, _, b in leaves):
                    out.append(st)
                    continue
                for owner, key, b in leaves:
                    if b.get("k") == "Block":
                        val = b["expr"]
                        sp = val.get("sp") or b.get("sp") or [0, 0, 0, 0]
                        asg = {"k": "Assign", "l": tgt_mk(sp), "r": val, "id": self._id(), "ty": "()", "sp": list(sp)}
                        b["stmts"] = list(b.get("stmts", [])) + [{"k": "Semi", "e": asg, "sp": list(sp)}]
                        del b["expr"]
                        b["ty"] = "()"
                    else:
                        sp = b.get("sp") or [0, 0, 0, 0]
                        asg = {"k": "Assign", "l": tgt_mk(sp), "r": b, "id": self._id(), "ty": "()", "sp": list(sp)}
                        owner[key] = {"k": "Block", "stmts": [{"k": "Semi", "e": asg, "sp": list(sp)}], "id": self._id(), "ty": "()", "sp": list(sp)}
                    n_ = owner
                    n_["ty"] = "()"
                ssp = st.get("sp") or [0, 0, 0, 0]
                if st.get("k") == "Let":
                    decl = {"k": "Let", "pat": dict(st["pat"], mut=True), "sp": [ssp[0], ssp[1], ssp[0], ssp[1] + 0.0001], "canon": "if-assign"}
                    out.append(decl)
                out.append({"k": "Expr", "e": rhs, "sp": list(rhs.get("sp") or ssp)})
                ch = True
            if ch:
                blk["stmts"] = out
                self.stats["if_assign"] = self.stats.get("if_assign", 0) + 1

    def self_select(self, body):
        """`x = if c { a } else { x };`  ->  `if c { x = a; }` (and `x = if c { x } else { a };` -> `if !c { x = a; }`): keeping the old value is
        not an assignment (what a fold `|best, v| if v > best { v } else { best }` becomes once it is a loop)."""
        for blk in [n for n in _walk(body) if n.get("k") == "Block"]:
            for st in blk.get("stmts", []):
                e = _strip(st.get("e") or {}) if st.get("k") in ("Semi", "Expr") else {}
                if e.get("k") != "Assign" or _strip(e["l"]).get("k") != "Local":
                    continue
                r = _strip(e["r"])
                if r.get("k") != "If" or r.get("else") is None:
                    continue
                x = _strip(e["l"])["v"]

                def val(b):
                    b = _strip(b)
                    if b.get("k") == "Block":
                        if b.get("stmts") or b.get("expr") is None:
                            return None
                        b = _strip(b["expr"])
                    return b
                tv, ev = val(r["then"]), val(r["else"])
                if tv is None or ev is None:
                    continue
                keeps_else = ev.get("k") == "Local" and ev.get("v") == x
                keeps_then = tv.get("k") == "Local" and tv.get("v") == x
                if keeps_else == keeps_then:
                    continue
                sp = st.get("sp") or e.get("sp") or [0, 0, 0, 0]
                newv = tv if keeps_else else ev
                cond = r["cond"] if keeps_else else {"k": "Unary", "op": "!", "e": r["cond"], "id": self._id(), "ty": "bool", "sp": list(r["cond"].get("sp") or sp)}
                asg = {"k": "Assign", "l": e["l"], "r": newv, "id": self._id(), "ty": "()", "sp": list(newv.get("sp") or sp)}
                node = {"k": "If", "cond": cond, "then": {"k": "Block", "stmts": [{"k": "Semi", "e": asg, "sp": list(asg["sp"])}], "id": self._id(), "ty": "()", "sp": list(sp)},
                        "id": self._id(), "ty": "()", "sp": list(sp)}
                st["k"] = "Expr"
                st["e"] = node
                self.stats["self_select"] = self.stats.get("self_select", 0) + 1

    # ------------------------------------------------------------------ P11
    SOME = "std::prelude::v1::Some"
    NONE = "std::prelude::v1::None"

    def _some(self, e, sp, ty=None):
        return {"k": "Call", "f": {"k": "Def", "dk": "Ctor(Variant, Fn)", "fn": self.SOME, "fn_local": False, "id": self._id(), "ty": "fn", "sp": list(sp)},
                "args": [e], "id": self._id(), "ty": ty or "std::option::Option<T>", "sp": list(sp)}

    def _none(self, sp, ty=None):
        return {"k": "Def", "dk": "Ctor(Variant, Const)", "fn": self.NONE, "fn_local": False, "id": self._id(), "ty": ty or "std::option::Option<T>", "sp": list(sp)}

    def _search_helper(self, path):
        """A private helper of the form `..; for .. { if .. { return Some(e); } } None`: every `return` carries Some(..),
        the value of the body is None (so a caller that matches on the result can absorb it)."""
        f = self.fns.get(path)
        if f is None or f.get("kind") not in ("Fn", "AssocFn") or self.known is None or path in self.known or norm_path(path) in self.known_norm:
            return None
        if f.get("pub") or f.get("impl_trait") or any(p.get("k") != "Bind" or p.get("byref") for p in f.get("params", [])):
            return None
        body = f.get("body")
        if not isinstance(body, dict) or body.get("k") != "Block" or body.get("expr") is None:
            return None
        t = _strip(body["expr"])
        if not (t.get("k") == "Def" and str(t.get("fn", "")).endswith("::None")):
            return None
        rets = [n for n in _walk(body) if n.get("k") == "Ret"]
        if not rets or any(n.get("k") == "Try" or _callee(n) == path for n in _walk(body)):
            return None
        for r in rets:
            e = _strip(r.get("e") or {})
            if not (e.get("k") == "Call" and e["f"].get("k") == "Def" and str(e["f"].get("fn", "")).endswith("::Some") and len(e.get("args", [])) == 1):
                return None
        return f

    def find_match_tail(self, body, f_owner):
        """At the tail of a unit function:  `let x = (lo..hi).find(|&k| T); match x { Some(p) => A, None => B }`  (or the find as the scrutinee)
             ->  `for k in lo..hi { if T { A[p := k]; return; } }  B`
        the scan-and-early-return loop that `find` abbreviates (first match wins in both forms, T is evaluated for the same k in the same order)."""
        if body.get("k") != "Block" or str(f_owner.get("output")) not in ("()", "None", ""):
            return
        t = _strip(body["expr"]) if body.get("expr") is not None else None
        if t is None or t.get("k") != "Match" or len(t.get("arms", [])) != 2 or any(a.get("guard") for a in t["arms"]):
            return
        scr = _strip(t["scrut"])
        drop = None
        if scr.get("k") == "Local" and body.get("stmts"):
            last = body["stmts"][-1]
            if last.get("k") == "Let" and (last.get("pat") or {}).get("k") == "Bind" and last["pat"].get("v") == scr.get("v") and last.get("init") is not None and \
                    len([x for x in _walk(body) if x.get("k") == "Local" and x.get("v") == scr.get("v")]) == 1:
                drop, scr = last, _strip(last["init"])
        if scr.get("k") != "MethodCall" or scr.get("name") != "find" or str(scr.get("fn")) != "std::iter::Iterator::find" or len(scr.get("args", [])) != 1:
            return
        rng, cl = _strip(scr["recv"]), _strip(scr["args"][0])
        if rng.get("k") != "Range" or cl.get("k") != "Closure" or len(cl.get("params", [])) != 1:
            return
        prm = cl["params"][0]
        if prm.get("k") != "Ref" or (prm.get("pat") or prm.get("p") or {}).get("k") != "Bind":
            return
        kb = prm.get("pat") or prm.get("p")
        T = cl["body"]
        if any(x.get("k") in ("Ret", "Try", "Closure") for x in _walk(T)):
            return
        some = [a for a in t["arms"] if str(a["pat"].get("path", "")).endswith("::Some") or str(a["pat"].get("path", "")).endswith("Some")]
        none = [a for a in t["arms"] if a not in some]
        if len(some) != 1 or len(none) != 1:
            return
        ps = some[0]["pat"].get("ps") or []
        if len(ps) != 1 or ps[0].get("k") != "Bind" or ps[0].get("byref"):
            return
        A, B = some[0]["body"], none[0]["body"]
        if any(x.get("k") in ("Ret", "Break", "Continue") for x in _walk(A)):
            return
        for x in _walk(A):
            if x.get("k") == "Local" and x.get("v") == ps[0]["v"]:
                x["v"] = kb["v"]
                x["name"] = kb.get("name")
        sp = list(t.get("sp") or [0, 0, 0, 0])
        ret = {"k": "Ret", "e": None, "id": self._id(), "ty": "!", "sp": list(sp)}
        a0 = _strip(A)
        a_st = list(a0.get("stmts", [])) + ([{"k": "Semi", "e": a0["expr"], "sp": a0["expr"].get("sp")}] if a0.get("expr") is not None else []) if a0.get("k") == "Block" and not a0.get("m") \
            else [{"k": "Semi", "e": A, "sp": A.get("sp")}]
        then = {"k": "Block", "stmts": a_st + [{"k": "Semi", "e": ret, "sp": list(sp)}], "expr": None, "id": self._id(), "ty": "!", "sp": list(sp)}
        iff = {"k": "If", "cond": T, "then": then, "else": None, "id": self._id(), "ty": "()", "sp": list(sp)}
        loop = {"k": "For", "pat": kb, "iter": scr["recv"], "body": {"k": "Block", "stmts": [{"k": "Semi", "e": iff, "sp": list(sp)}], "expr": None, "id": self._id(), "ty": "()", "sp": list(sp)},
                "id": self._id(), "ty": "()", "sp": list(sp)}
        b0 = _strip(B)
        stmts = [x for x in body["stmts"] if x is not drop] + [{"k": "Semi", "e": loop, "sp": list(sp)}]
        if b0.get("k") == "Block" and not b0.get("m"):
            stmts += list(b0.get("stmts", []))
            body["expr"] = b0.get("expr")
        else:
            body["expr"] = B
        body["stmts"] = stmts
        self.stats["find_match_tail"] = self.stats.get("find_match_tail", 0) + 1

    def option_searches(self, body, f_owner):
        """`match h(..) { Some(p) => A, None => B }` in tail position and `if let Some(p) = h(..) { A; return .. }` as a statement,
        h a search helper (see _search_helper), and `R.find(|&k| T).map(|k| E)` in tail position:
            -> h's statements with every `return Some(e)` turned into `{ let p = e; return A }` (resp. `{ let p = e; A }`),
               followed by B.  The caller then contains the scan loop itself, as before the helper was extracted."""
        if body.get("k") != "Block":
            return
        changed = True
        guard = 0
        while changed and guard < 4:
            changed = False
            guard += 1
            for blk in [n for n in _walk(body) if n.get("k") == "Block"]:
                is_fn_tail = blk is body
                # --- tail: match h(..) { Some(p) => A, None => B }
                tail = blk.get("expr")
                t = _strip(tail) if tail is not None else None
                if is_fn_tail and t is not None and t.get("k") == "MethodCall" and t.get("name") == "map" and str(t.get("fn", "")).startswith("std::option::Option") and len(t.get("args", [])) == 1:
                    # h(..).map(|k| E) with h a search helper  ==  match h(..) { Some(k) => Some(E), None => None }
                    call0 = _strip(t["recv"])
                    hp0 = _callee(call0)
                    cl0 = _strip(t["args"][0])
                    if hp0 and self._search_helper(hp0) is not None and cl0.get("k") == "Closure" and len(cl0.get("params", [])) == 1 and cl0["params"][0].get("k") == "Bind" and \
                            not any(x.get("k") in ("Ret", "Try") for x in _walk(cl0["body"])):
                        sp0 = t.get("sp") or [0, 0, 0, 0]
                        E0 = cl0["body"]
                        m0 = {"k": "Match", "scrut": t["recv"], "arms": [
                            {"pat": {"k": "TupleStruct", "path": "std::option::Option::Some", "ps": [cl0["params"][0]], "ty": call0.get("ty")}, "body": self._some(E0, E0.get("sp") or sp0, t.get("ty"))},
                            {"pat": {"k": "Path", "path": "std::option::Option::None", "ty": call0.get("ty")}, "body": self._none(sp0, t.get("ty"))}],
                            "id": self._id(), "ty": t.get("ty"), "sp": list(sp0)}
                        blk["expr"] = m0
                        tail, t = m0, m0
                if is_fn_tail and t is not None and t.get("k") == "Match" and len(t.get("arms", [])) == 2:
                    call = _strip(t["scrut"])
                    hp = _callee(call)
                    h = self._search_helper(hp) if hp else None
                    some_arm = [a for a in t["arms"] if a["pat"].get("k") in ("TupleStruct", "Struct") and str(a["pat"].get("path", "")).endswith("::Some")]
                    none_arm = [a for a in t["arms"] if a not in some_arm]
                    if h is not None and len(some_arm) == 1 and len(none_arm) == 1 and not any(a.get("guard") for a in t["arms"]):
                        pat = some_arm[0]["pat"]
                        inner = (pat.get("ps") or [x["pat"] for x in pat.get("fields", [])])
                        if len(inner) == 1 and inner[0].get("k") in ("Bind", "Wild"):
                            inst = self._instance(h, call)
                            if inst is not None:
                                pre, st, htail = inst
                                self._absorb_returns(st, inner[0], some_arm[0]["body"], as_return=True)
                                blk["stmts"] = list(blk.get("stmts", [])) + pre + st
                                blk["expr"] = none_arm[0]["body"]
                                changed = True
                                continue
                # --- tail: R.find(|&k| T).map(|k| E)
                if is_fn_tail and t is not None and t.get("k") == "MethodCall" and t.get("name") == "map" and str(t.get("fn", "")).startswith("std::option::Option") and len(t.get("args", [])) == 1:
                    fnd = _strip(t["recv"])
                    cl2 = _strip(t["args"][0])
                    if fnd.get("k") == "MethodCall" and fnd.get("name") == "find" and fnd.get("fn") == "std::iter::Iterator::find" and len(fnd.get("args", [])) == 1 and \
                            _strip(fnd["recv"]).get("k") == "Range" and cl2.get("k") == "Closure" and len(cl2.get("params", [])) == 1 and cl2["params"][0].get("k") == "Bind":
                        cl1 = _strip(fnd["args"][0])
                        p1 = cl1["params"][0] if cl1.get("k") == "Closure" and len(cl1.get("params", [])) == 1 else None
                        if p1 is not None and p1.get("k") == "Ref":
                            p1 = p1["p"]
                        if p1 is not None and p1.get("k") == "Bind" and not any(x.get("k") in ("Ret", "Try") for x in list(_walk(cl1["body"])) + list(_walk(cl2["body"]))):
                            sp = t.get("sp") or [0, 0, 0, 0]
                            k1 = p1["v"]
                            # E with its parameter renamed to the search variable
                            E = cl2["body"]
                            for u in [x for x in _walk(E) if x.get("k") == "Local" and x.get("v") == cl2["params"][0]["v"]]:
                                u["v"] = k1
                                u["name"] = p1.get("name")
                            T = cl1["body"]
                            # inside the find closure the parameter is `&k` / `*k`: uses are plain k after the Ref pattern
                            ret = {"k": "Ret", "e": self._some(E, E.get("sp") or sp, t.get("ty")), "id": self._id(), "ty": "!", "sp": list(E.get("sp") or sp)}
                            ifn = {"k": "If", "cond": T, "then": {"k": "Block", "stmts": [{"k": "Semi", "e": ret, "sp": list(ret["sp"])}], "id": self._id(), "ty": "!", "sp": list(ret["sp"])},
                                   "id": self._id(), "ty": "()", "sp": list(T.get("sp") or sp)}
                            loop = {"k": "For", "pat": dict(p1), "iter": _strip(fnd["recv"]),
                                    "body": {"k": "Block", "stmts": [{"k": "Expr", "e": ifn, "sp": list(ifn["sp"])}], "id": self._id(), "ty": "()", "sp": list(ifn["sp"])},
                                    "id": self._id(), "ty": "()", "sp": list(sp), "canon": "find-map"}
                            loop["iter"].pop("adj", None)
                            blk["stmts"] = list(blk.get("stmts", [])) + [{"k": "Expr", "e": loop, "sp": list(sp)}]
                            blk["expr"] = self._none([sp[2], sp[3], sp[2], sp[3]], t.get("ty"))
                            changed = True
                            continue
                # --- statement: if let Some(p) = h(..) { A (diverging) } [else { B }]
                out = []
                ch = False
                for st in blk.get("stmts", []):
                    e = _strip(st.get("e") or {}) if st.get("k") in ("Semi", "Expr") else {}
                    c = e.get("cond") if e.get("k") == "If" else None
                    done = False
                    if isinstance(c, dict) and c.get("k") == "LetCond":
                        pat = c["pat"]
                        call = _strip(c["init"])
                        hp = _callee(call)
                        h = self._search_helper(hp) if hp else None
                        inner = (pat.get("ps") or [x["pat"] for x in pat.get("fields", [])]) if pat.get("k") in ("TupleStruct", "Struct") and str(pat.get("path", "")).endswith("::Some") else []
                        A = e["then"]
                        if h is not None and len(inner) == 1 and inner[0].get("k") in ("Bind", "Wild") and self._leaves(A):
                            inst = self._instance(h, call)
                            if inst is not None:
                                pre, hst, htail = inst
                                self._absorb_returns(hst, inner[0], A, as_return=False)
                                out.extend(pre)
                                out.extend(hst)
                                if e.get("else") is not None:
                                    out.append({"k": "Semi", "e": e["else"], "sp": e["else"].get("sp")})
                                done = ch = True
                    if not done:
                        out.append(st)
                if ch:
                    blk["stmts"] = out
                    changed = True
        if guard > 1:
            self.stats["option_searches"] = self.stats.get("option_searches", 0) + 1

    @staticmethod
    def _leaves(blk):
        """the block ends in `return` (it never falls through)"""
        if blk.get("k") != "Block":
            return blk.get("k") == "Ret"
        last = blk.get("expr")
        if last is None and blk.get("stmts"):
            last = blk["stmts"][-1].get("e")
        return isinstance(last, dict) and _strip(last).get("k") == "Ret"

    def _absorb_returns(self, stmts, pbind, A, as_return):
        """in the helper's statements: `return Some(e)`  ->  `{ let p = e; return A }` / `{ let p = e; A }`"""
        holder = {"k": "Block", "stmts": stmts}
        for n in list(_walk(holder)):
            if n.get("k") != "Ret":
                continue
            e = _strip(n["e"])["args"][0]
            sp = n.get("sp") or e.get("sp") or [0, 0, 0, 0]
            a = copy.deepcopy(A)
            base = self.fresh
            self.fresh += 100000
            for x in _walk(a):
                if isinstance(x.get("id"), int):
                    x["id"] += base
                if x.get("sp"):
                    x["sp"] = [sp[0], sp[1] + 0.002, sp[2], sp[3] + 0.002]
            st2 = []
            if pbind.get("k") == "Bind":
                st2.append({"k": "Let", "pat": dict(pbind), "init": e, "sp": [sp[0], sp[1] + 0.001, sp[2], sp[3] + 0.001]})
            if as_return:
                val = a
                if not self._leaves(a):
                    val = {"k": "Ret", "e": a, "id": self._id(), "ty": "!", "sp": [sp[0], sp[1] + 0.002, sp[2], sp[3] + 0.002]}
                st2.append({"k": "Semi", "e": val, "sp": list(val.get("sp") or sp)})
            else:
                st2.append({"k": "Semi", "e": a, "sp": [sp[0], sp[1] + 0.002, sp[2], sp[3] + 0.002]})
            n.clear()
            n.update({"k": "Block", "stmts": st2, "id": self._id(), "ty": "!", "sp": list(sp)})

    # ------------------------------------------------------------------ P10
    def flatten_blocks(self, body):
        """A plain `{ .. }` statement (what a destructuring assignment `(a, b) = f();` desugars to, or a scope a maintainer
        added) is spliced into the enclosing statement list: bindings are identified by id, so scopes carry no meaning here."""
        again = True
        while again:
            again = False
            for blk in [n for n in _walk(body) if n.get("k") == "Block"]:
                out = []
                ch = False
                for st in blk.get("stmts", []):
                    e = st.get("e") if st.get("k") in ("Semi", "Expr") else None
                    if isinstance(e, dict) and e.get("k") == "Block" and not e.get("m") and not e.get("label") and not e.get("unsafe") and \
                            (e.get("stmts") or e.get("expr") is not None) and str(e.get("ty", "()")) in ("()", "!"):
                        out.extend(e.get("stmts", []))
                        if e.get("expr") is not None:
                            out.append({"k": "Semi", "e": e["expr"], "sp": e["expr"].get("sp")})
                        ch = True
                    else:
                        out.append(st)
                if ch:
                    blk["stmts"] = out
                    again = True

    # ------------------------------------------------------------------ P9
    def beta_reduce(self, body):
        """`let f = |a, b| e; .. f(x, y) ..`  ->  `.. e[a := x, b := y] ..` for an immutable, expression-bodied closure
        applied to side-effect-free arguments (what a helper taking `op: impl Fn` becomes once it is inlined)."""
        lets = {}
        for n in _walk(body):
            if n.get("k") == "Let" and n.get("pat", {}).get("k") == "Bind" and n.get("init") is not None:
                # (a `mut` binding of the closure - an `FnMut` parameter of an inlined helper - changes nothing: the body below writes nothing)
                c = _strip(n["init"])
                while c.get("k") == "AddrOf":
                    c = _strip(c["e"])
                if c.get("k") == "Closure" and all(p_.get("k") == "Bind" and not p_.get("mut") for p_ in c.get("params", [])):
                    cb = c["body"]
                    if not (cb.get("k") == "Block" and cb.get("stmts")) and not any(y.get("k") in ("Ret", "Try", "Assign", "AssignOp") for y in _walk(cb)):
                        lets[n["pat"]["v"]] = (n, c)
        if not lets:
            return
        used = {}
        for n in list(_walk(body)):
            if n.get("k") != "Call":
                continue
            f = _strip(n["f"])
            while f.get("k") in ("AddrOf",) or (f.get("k") == "Unary" and f.get("op") == "*"):
                f = _strip(f["e"])
            if f.get("k") != "Local" or f.get("v") not in lets:
                continue
            letn, c = lets[f["v"]]
            args = n.get("args", [])
            if len(args) != len(c["params"]) or not all(self._pure(a) for a in args):
                continue
            e = copy.deepcopy(_strip(c["body"]))
            base = self.fresh
            self.fresh += 100000
            for x in _walk(e):
                if isinstance(x.get("id"), int):
                    x["id"] += base
            sp = n.get("sp")
            for prm, a in zip(c["params"], args):
                for u in [x for x in _walk(e) if x.get("k") == "Local" and x.get("v") == prm["v"]]:
                    cp = copy.deepcopy(a)
                    u.clear()
                    u.update(cp)
            if sp:
                for x in _walk(e):
                    x["sp"] = list(sp)
            keep = n.get("adj")
            n.clear()
            n.update(e)
            if keep and not n.get("adj"):
                n["adj"] = keep
            used[f["v"]] = True
            self.stats["beta"] = self.stats.get("beta", 0) + 1
        # closures all of whose uses were applications are dropped
        for v, (letn, c) in lets.items():
            if used.get(v) and not any(x.get("k") == "Local" and x.get("v") == v for x in _walk(body)):
                letn["canon_dead"] = True
        for blk in [n for n in _walk(body) if n.get("k") == "Block"]:
            if any(s_.get("canon_dead") for s_ in blk.get("stmts", [])):
                blk["stmts"] = [s_ for s_ in blk["stmts"] if not s_.get("canon_dead")]

    def after_beta(self, body):
        """After closures were applied away: a capture list names only variables the closure body still mentions, and a block ending in
        `let x = E; x` (x immutable, used there only) ends in E."""
        for blk in [n for n in _walk(body) if n.get("k") == "Block" and n.get("stmts") and isinstance(n.get("expr"), dict)]:
            last, t = blk["stmts"][-1], _strip(blk["expr"])
            if last.get("k") == "Let" and (last.get("pat") or {}).get("k") == "Bind" and not last["pat"].get("mut") and not last["pat"].get("byref") and last.get("init") is not None and \
                    t.get("k") == "Local" and t.get("v") == last["pat"]["v"] and str(last["pat"].get("name", "")).startswith("__applied") and \
                    len([x for x in _walk(body) if x.get("k") == "Local" and x.get("v") == t["v"]]) == 1:
                blk["stmts"] = blk["stmts"][:-1]
                blk["expr"] = last["init"]
        for c in [n for n in _walk(body) if n.get("k") == "Closure" and n.get("captures")]:
            mentioned = {x.get("v") for x in _walk(c["body"]) if x.get("k") == "Local"}
            names_ = {x.get("name") for x in _walk(c["body"]) if x.get("k") == "Local"}       # (an inlined helper's locals were renumbered: fall back on the name)
            kept = [cp for cp in c["captures"] if cp.get("v") in mentioned or cp.get("v") is None or cp.get("var") in names_]
            if len(kept) != len(c["captures"]):
                c["captures"] = kept

    def beta_reduce_blocks(self, body):
        """`let step = |x: &mut M, c: usize| { stmts };  ..  step(&mut m, j);`  ->  the statements at the call, parameters replaced by the
        arguments (locals, literals, `&`/`&mut` of a local), the closure's own locals renamed apart.  Only closures that are not
        `move`, contain no `return`, and are only ever called as statements."""
        cands = {}
        for n in _walk(body):
            if n.get("k") == "Let" and n.get("pat", {}).get("k") == "Bind" and n.get("init") is not None:
                c = _strip(n["init"])
                if c.get("k") == "Closure" and not c.get("move") and all(p_.get("k") == "Bind" for p_ in c.get("params", [])):
                    cb = c["body"]
                    if cb.get("k") == "Block" and (cb.get("stmts") or cb.get("expr") is not None) and not any(y.get("k") in ("Ret", "Try") for y in _walk(cb)) and \
                            (str(cb.get("ty")) in ("()", "None") or (cb.get("stmts") and cb.get("expr") is not None)):
                        cands[n["pat"]["v"]] = (n, c)
        if not cands:
            return
        # a valued block closure applied in tail position (`move || partial(a, b)`, `{ ..; partial(a, b) }`): name the value first, so that
        # the application is a `let` like any other
        def _is_cand_call(e_):
            e0 = _strip(e_) if isinstance(e_, dict) else {}
            f0 = _strip(e0["f"]) if e0.get("k") == "Call" and isinstance(e0.get("f"), dict) else {}
            return f0.get("k") == "Local" and f0.get("v") in cands and str(cands[f0["v"]][1]["body"].get("ty")) not in ("()", "None")
        for n in list(_walk(body)):
            slot = "body" if n.get("k") == "Closure" else ("expr" if n.get("k") == "Block" and not n.get("m") else None)
            if slot is None or not isinstance(n.get(slot), dict) or not _is_cand_call(n[slot]):
                continue
            call = n[slot]
            self.fresh += 1
            v = self.fresh
            sp = list(call.get("sp") or [0, 0, 0, 0])
            ty = _strip(call).get("ty")
            let = {"k": "Let", "pat": {"k": "Bind", "v": v, "name": "__applied%d" % v, "mut": False, "byref": False, "ty": ty}, "init": call, "sp": list(sp)}
            loc_ = {"k": "Local", "v": v, "name": "__applied%d" % v, "id": self._id(), "ty": ty, "sp": [sp[2], sp[3] + 0.001, sp[2], sp[3] + 0.002]}
            if slot == "body":
                n["body"] = {"k": "Block", "stmts": [let], "expr": loc_, "id": self._id(), "ty": ty, "sp": list(sp)}
            else:
                n["stmts"] = list(n.get("stmts", [])) + [let]
                n["expr"] = loc_
        uses = {v: 0 for v in cands}
        calls = {v: 0 for v in cands}
        for n in _walk(body):
            if n.get("k") == "Local" and n.get("v") in cands:
                uses[n["v"]] += 1
        done = {}
        for blk in [n for n in _walk(body) if n.get("k") == "Block"]:
            out, changed = [], False
            for st in blk.get("stmts", []):
                e = _strip(st.get("e")) if st.get("k") in ("Semi", "Expr") and isinstance(st.get("e"), dict) else None
                as_let = False
                if e is None and st.get("k") == "Let" and isinstance(st.get("init"), dict) and _strip(st["init"]).get("k") == "Call":
                    e, as_let = _strip(st["init"]), True      # `let v = closure(args);` with a value-returning block closure
                f = _strip(e["f"]) if e is not None and e.get("k") == "Call" else None
                if f is None or f.get("k") != "Local" or f.get("v") not in cands:
                    out.append(st)
                    continue
                letn, c = cands[f["v"]]
                valued = str(c["body"].get("ty")) not in ("()", "None")
                if valued != as_let:
                    out.append(st)
                    continue
                args = e.get("args", [])
                if len(args) != len(c["params"]) or not all(self._aliasable(a) or self._pure(a) for a in args):
                    out.append(st)
                    continue
                cb = copy.deepcopy(c["body"])
                base = self.fresh
                self.fresh += 100000
                inner_binds = set()
                for x in _walk(cb):
                    if isinstance(x.get("id"), int):
                        x["id"] += base
                    if x.get("k") == "Bind" and isinstance(x.get("v"), int):
                        inner_binds.add(x["v"])
                for x in _walk(cb):      # rename the closure's own locals apart (one copy per call)
                    if x.get("k") in ("Bind", "Local") and x.get("v") in inner_binds:
                        x["v"] = x["v"] + base
                for prm, a in zip(c["params"], args):
                    for u in [x for x in _walk(cb) if x.get("k") == "Local" and x.get("v") == prm["v"]]:
                        cp = copy.deepcopy(a)
                        keep = {kk: u.get(kk) for kk in ("sp",)}
                        u.clear()
                        u.update(cp)
                        for kk, vv in keep.items():
                            if vv is not None:
                                u[kk] = vv
                # a parameter that was a reference is now `&mut X` / `&X` spelled out: where the use auto-dereferences it
                # (index base, method receiver, explicit `*`) the place is X itself
                for y in list(_walk(cb)):
                    for slot in (("base",) if y.get("k") == "Index" else ("recv",) if y.get("k") == "MethodCall" else ("e",) if y.get("k") == "Unary" and y.get("op") == "*" else ()):
                        inner = y.get(slot)
                        if isinstance(inner, dict) and _strip(inner).get("k") == "AddrOf" and isinstance(_strip(inner).get("e"), dict):
                            if slot == "e":
                                tgt = _strip(inner)["e"]
                                keep_sp = y.get("sp")
                                y.clear()
                                y.update(tgt)
                                if keep_sp:
                                    y["sp"] = keep_sp
                            else:
                                y[slot] = _strip(inner)["e"]
                sp = st.get("sp") or e.get("sp") or [0, 0, 0, 0]
                k_ = 0
                # the spliced nodes all sit on the call's line; keep their own program order (start position, outer node first)
                for y in sorted([y for y in _walk(cb) if y.get("sp")], key=lambda y: (y["sp"][0], y["sp"][1], -(y["sp"][2] if len(y["sp"]) > 2 else 0), -(y["sp"][3] if len(y["sp"]) > 3 else 0))):
                    k_ += 1
                    y["sp"] = [sp[0], sp[1] + 0.00001 * k_, sp[2] if len(sp) > 2 else sp[0], sp[3] if len(sp) > 3 else sp[1]]
                out.extend(cb.get("stmts", []))
                if as_let:
                    out.append(dict(st, init=cb["expr"]))
                elif cb.get("expr") is not None:
                    out.append({"k": "Semi", "e": cb["expr"], "sp": list(cb["expr"].get("sp") or sp)})
                calls[f["v"]] += 1
                changed = True
                self.stats["beta_blocks"] = self.stats.get("beta_blocks", 0) + 1
            if changed:
                blk["stmts"] = out
        for v, (letn, c) in cands.items():
            if calls[v] and calls[v] == uses[v]:
                letn["canon_dead"] = True
        for blk in [n for n in _walk(body) if n.get("k") == "Block"]:
            if any(s_.get("canon_dead") for s_ in blk.get("stmts", [])):
                blk["stmts"] = [s_ for s_ in blk["stmts"] if not s_.get("canon_dead")]

    # ------------------------------------------------------------------ P8
    def deref_addr(self, body):
        """`*&mut P` / `*&P`  ->  `P` (what an element borrowed from an iterator becomes once the loop is an index loop)."""
        for n in list(_walk(body)):
            if n.get("k") == "Unary" and n.get("op") == "*" and isinstance(n.get("e"), dict):
                a = _strip(n["e"])
                if a.get("k") == "AddrOf" and isinstance(a.get("e"), dict):
                    inner = a["e"]
                    keep = {kk: n.get(kk) for kk in ("sp",)}
                    n.clear()
                    n.update(inner)
                    if keep.get("sp") and not n.get("sp"):
                        n["sp"] = keep["sp"]

    def continue_guards(self, body):
        """In a loop body:  `if c { continue; }  rest`  ->  `if !c { rest }`  (the un-nested spelling of a filter)."""
        again = True
        while again:
            again = False
            for lp in [n for n in _walk(body) if n.get("k") in ("For", "While", "Loop")]:
                blk = lp.get("body")
                if not isinstance(blk, dict) or blk.get("k") != "Block":
                    continue
                sts = blk.get("stmts", [])
                for i, st in enumerate(sts):
                    e = _strip(st.get("e") or {}) if st.get("k") in ("Semi", "Expr") else {}
                    if e.get("k") != "If" or e.get("else") is not None or e.get("m") or (isinstance(e.get("cond"), dict) and e["cond"].get("k") == "LetCond"):
                        continue
                    th = _strip(e["then"])
                    only = th.get("k") == "Block" and not th.get("expr") and len(th.get("stmts", [])) == 1 and _strip(th["stmts"][0].get("e") or {}).get("k") == "Continue" and \
                        not _strip(th["stmts"][0]["e"]).get("label")
                    if not only:
                        continue
                    rest = sts[i + 1:]
                    if not rest and blk.get("expr") is None:
                        break
                    if any(x.get("k") == "Let" for x in rest) and any(True for _ in ()):
                        pass
                    sp = list(e.get("sp") or [0, 0, 0, 0])
                    neg = {"k": "Unary", "op": "!", "e": e["cond"], "id": self._id(), "ty": "bool", "sp": list(e["cond"].get("sp") or sp)}
                    inner = {"k": "Block", "stmts": rest, "expr": blk.get("expr"), "id": self._id(), "ty": "()", "sp": list((rest[0] if rest else blk["expr"]).get("sp") or sp)}
                    new_if = {"k": "If", "cond": neg, "then": inner, "else": None, "id": self._id(), "ty": "()", "sp": sp}
                    blk["stmts"] = sts[:i] + [{"k": "Semi", "e": new_if, "sp": sp}]
                    blk["expr"] = None
                    self.stats["continue_guards"] = self.stats.get("continue_guards", 0) + 1
                    again = True
                    break
                if again:
                    break

    def match_bools(self, body):
        """`match c { true => A, false => B }` (either order, or `_` for the second)  ->  `if c { A } else { B }`;  and as a statement
        `if c { <diverges> } else { B }`  ->  `if c { <diverges> }  B`: the fall-through work after the guard."""
        for n in list(_walk(body)):
            if n.get("k") != "Match" or len(n.get("arms", [])) != 2 or any(a.get("guard") is not None for a in n["arms"]):
                continue
            if str(_strip(n["scrut"]).get("ty", "")) != "bool":
                continue
            a0, a1 = n["arms"]
            l0 = str(a0["pat"].get("lit", "")) if a0["pat"].get("k") == "PatExpr" else None
            l1 = str(a1["pat"].get("lit", "")) if a1["pat"].get("k") == "PatExpr" else ("_" if a1["pat"].get("k") == "Wild" else None)
            if l0 not in ("true", "false") or l1 not in ("true", "false", "_") or l0 == l1:
                continue
            th, el = (a0["body"], a1["body"]) if l0 == "true" else (a1["body"], a0["body"])
            def blk_(b_):
                b0 = _strip(b_)
                if b0.get("k") == "Block" and not b0.get("m"):
                    return b_
                unit = str(b0.get("ty")) in ("()", "!")
                return {"k": "Block", "stmts": [{"k": "Semi", "e": b_, "sp": b_.get("sp")}] if unit else [], "expr": None if unit else b_, "id": self._id(), "ty": b0.get("ty"), "sp": list(b_.get("sp") or [0, 0, 0, 0])}
            new = {"k": "If", "cond": n["scrut"], "then": blk_(th), "else": blk_(el), "id": self._id(), "ty": n.get("ty"), "sp": list(n.get("sp") or [0, 0, 0, 0]), "canon": "match-bool"}
            n.clear()
            n.update(new)
            self.stats["match_bools"] = self.stats.get("match_bools", 0) + 1
        for blk in [x for x in _walk(body) if x.get("k") == "Block"]:
            out, ch = [], False
            tl = blk.get("expr")
            if tl is not None and _strip(tl).get("k") == "If" and str(_strip(tl).get("ty")) == "()" and _strip(tl).get("else") is not None and self._diverges(_strip(tl)["then"]):
                blk["stmts"] = list(blk.get("stmts", [])) + [{"k": "Semi", "e": tl, "sp": tl.get("sp")}]      # a unit `if` in tail position is a statement
                blk["expr"] = None
            for st in blk.get("stmts", []):
                e = _strip(st.get("e") or {}) if st.get("k") in ("Semi", "Expr") else {}
                if e.get("k") == "If" and e.get("else") is not None and not e.get("m") and str(e.get("ty")) in ("()", "None") and self._diverges(e["then"]) and \
                        _strip(e["else"]).get("k") == "Block" and not _strip(e["else"]).get("m") and not any(x.get("k") == "Let" for x in _strip(e["else"]).get("stmts", [])):
                    eb = _strip(e["else"])
                    e["else"] = None
                    out.append(st)
                    out.extend(eb.get("stmts", []))
                    if eb.get("expr") is not None:
                        out.append({"k": "Semi", "e": eb["expr"], "sp": eb["expr"].get("sp")})
                    ch = True
                else:
                    out.append(st)
            if ch:
                blk["stmts"] = out

    @staticmethod
    def _diverges(b):
        b = _strip(b)
        if str(b.get("ty")) == "!" or b.get("k") in ("Ret", "Break", "Continue"):
            return True
        if b.get("k") == "Block":
            for s_ in b.get("stmts", []):
                e_ = s_.get("e") or s_.get("init")
                if isinstance(e_, dict) and Canon._diverges(e_):
                    return True
            return b.get("expr") is not None and Canon._diverges(b["expr"])
        return False

    def match_ints(self, body):
        """`match s { 1 => A, 2 => B, _ => C }` on an integer s that is a plain local / parameter / field  ->
        `if s == 1 { A } else if s == 2 { B } else { C }` (s has no side effects, so evaluating it per test is the same)."""
        INTS = ("usize", "isize", "i32", "i64", "u32", "u64", "u8", "u16", "i8", "i16", "u128", "i128")
        for n in list(_walk(body)):
            if n.get("k") != "Match":
                continue
            sc = _strip(n["scrut"])
            if str(sc.get("ty", "")) not in INTS or not self._pure(sc):
                continue
            arms = n.get("arms", [])
            if len(arms) < 2 or any(a.get("guard") is not None for a in arms):
                continue
            lits, last = arms[:-1], arms[-1]
            if last["pat"].get("k") == "Bind" and not last["pat"].get("byref") and not last["pat"].get("sub"):
                # `other => body`: the catch-all arm that names the value:  `_ => { let other = s; body }`
                lb = last["body"]
                lsp = list(lb.get("sp") or n.get("sp") or [0, 0, 0, 0])
                let_ = {"k": "Let", "pat": last["pat"], "init": copy.deepcopy(sc), "sp": [lsp[0], lsp[1] - 0.0002, lsp[0], lsp[1] - 0.0001]}
                b0 = _strip(lb)
                if b0.get("k") == "Block" and not b0.get("m"):
                    b0["stmts"] = [let_] + list(b0.get("stmts", []))
                else:
                    unit = str(b0.get("ty")) in ("()", "!")
                    last["body"] = {"k": "Block", "stmts": [let_] + ([{"k": "Semi", "e": lb, "sp": lsp}] if unit else []), "expr": None if unit else lb, "id": self._id(), "ty": b0.get("ty"), "sp": lsp}
                last["pat"] = {"k": "Wild"}
            if last["pat"].get("k") != "Wild":
                continue
            if not all(a["pat"].get("k") == "PatExpr" and str(a["pat"].get("lit", "")).lstrip("-").isdigit() for a in lits):
                continue
            sp = n.get("sp") or [0, 0, 0, 0]
            chain = last["body"]
            for a in reversed(lits):
                lit = {"k": "Lit", "v": str(a["pat"]["lit"]), "id": self._id(), "ty": sc.get("ty"), "sp": list(a["body"].get("sp") or sp)}
                scc = copy.deepcopy(sc)
                for x in _walk(scc):
                    if x.get("sp"):
                        x["sp"] = list(lit["sp"])
                cond = {"k": "Binary", "op": "==", "l": scc, "r": lit, "id": self._id(), "ty": "bool", "sp": list(lit["sp"])}
                chain = {"k": "If", "cond": cond, "then": a["body"], "else": chain, "id": self._id(), "ty": n.get("ty"), "sp": list(a["body"].get("sp") or sp)}
            keep = {kk: n.get(kk) for kk in ("adj",)}
            chain["sp"] = list(sp)
            n.clear()
            n.update(chain)
            for kk, vv in keep.items():
                if vv is not None:
                    n[kk] = vv
            n["canon"] = "match-int"
            self.stats["match_ints"] = self.stats.get("match_ints", 0) + 1

    # ------------------------------------------------------------------ P6
    def while_loops(self, body):
        """Counting `while` loops become `for` loops:
             let mut i = lo; while i < hi { body; i += 1; }        ->  for i in lo..hi { body }
             let mut i = hi; while i > lo { i -= 1; body }          ->  for i in (lo..hi).rev() { body }
           when i is written nowhere else, the body has no `continue`, hi/lo are not written in the body (checked by the
           engine's stability machinery later: here they must be side-effect free) and i is not used after the loop."""
        for blk in [n for n in _walk(body) if n.get("k") == "Block"]:
            st = blk.get("stmts", [])
            tail = blk.get("expr")
            items = list(st) + ([{"k": "Expr", "e": tail, "_tail": True}] if tail is not None else [])
            for idx in range(1, len(items)):
                ws = items[idx]
                w = _strip(ws.get("e") or {}) if ws.get("k") in ("Semi", "Expr") else {}
                if w.get("k") != "While":
                    continue
                # the counter: declared by a `let mut i = X` somewhere before in this block, not touched in between
                c = _strip(w["cond"])
                if c.get("k") != "Binary" or c.get("op") not in ("<", ">", "!=") or c.get("fn"):
                    continue
                l_, r_ = _strip(c["l"]), _strip(c["r"])
                if l_.get("k") != "Local" or str(l_.get("ty", "")) != "usize":
                    continue
                iv = l_["v"]
                decl = None
                for j in range(idx - 1, -1, -1):
                    sj = items[j]
                    if sj.get("k") == "Let" and sj.get("pat", {}).get("k") == "Bind" and sj["pat"].get("v") == iv and sj.get("init") is not None:
                        decl = (j, sj)
                        break
                    if any(x.get("k") == "Local" and x.get("v") == iv for x in _walk(sj)):
                        break
                if decl is None or not self._pure(r_) or not self._pure(decl[1]["init"]):
                    continue
                wb = w["body"]
                if wb.get("k") != "Block" or wb.get("expr") is not None and _strip(wb["expr"]).get("ty") not in ("()", None):
                    continue
                bst = list(wb.get("stmts", []))
                if wb.get("expr") is not None:
                    bst.append({"k": "Expr", "e": wb["expr"]})
                if not bst:
                    continue
                if any(x.get("k") == "Continue" for x in _walk(wb) ):
                    continue

                def is_step(s_, op):
                    e_ = _strip(s_.get("e") or {}) if s_.get("k") in ("Semi", "Expr") else {}
                    return e_.get("k") == "AssignOp" and e_.get("op") == op and _strip(e_["l"]).get("k") == "Local" and _strip(e_["l"])["v"] == iv and \
                        _strip(e_["r"]).get("k") == "Lit" and _strip(e_["r"]).get("v") == "1"
                writes = [x for x in _walk(wb) if x.get("k") in ("Assign", "AssignOp") and _strip(x["l"]).get("k") == "Local" and _strip(x["l"])["v"] == iv]
                addr = [x for x in _walk(wb) if x.get("k") == "AddrOf" and x.get("mut") and _strip(x["e"]).get("k") == "Local" and _strip(x["e"])["v"] == iv]
                if len(writes) != 1 or addr:
                    continue
                # used after the loop?
                used_after = any(x.get("k") == "Local" and x.get("v") == iv for s2 in items[idx + 1:] for x in _walk(s2))
                if used_after:
                    continue
                rev = None
                if c["op"] in ("<", "!=") and is_step(bst[-1], "+="):
                    rev, lo, hi, newbody = False, decl[1]["init"], r_, bst[:-1]
                elif c["op"] == ">" and is_step(bst[0], "-="):
                    rev, lo, hi, newbody = True, r_, decl[1]["init"], bst[1:]
                elif c["op"] == ">" and is_step(bst[-1], "-=") and _strip(r_).get("k") == "Lit" and _strip(r_).get("v") == "0" and \
                        len([x for x in _walk(wb) if x.get("k") == "Local" and x.get("v") == iv]) == 1:
                    # `let mut left = n; while left > 0 { body; left -= 1; }`, the counter used for nothing else: n passes
                    rev, lo, hi, newbody = False, r_, decl[1]["init"], bst[:-1]
                if rev is None:
                    continue
                if c["op"] == "!=" and not (_strip(lo).get("k") == "Lit" and _strip(lo).get("v") == "0"):
                    continue        # `i != hi` counts up to hi only when it starts at or below it
                sp = w.get("sp") or [0, 0, 0, 0]
                rng = {"k": "Range", "lo": copy.deepcopy(lo), "hi": copy.deepcopy(hi), "incl": False, "id": self._id(), "ty": "std::ops::Range<usize>", "sp": list(c.get("sp") or sp)}
                it = rng if not rev else {"k": "MethodCall", "name": "rev", "fn": "std::iter::Iterator::rev", "fn_local": False, "recv": rng, "args": [],
                                          "id": self._id(), "ty": "std::iter::Rev<std::ops::Range<usize>>", "sp": list(c.get("sp") or sp)}
                newblk = {"k": "Block", "stmts": newbody, "id": wb.get("id"), "ty": "()", "sp": wb.get("sp")}
                pat = dict(decl[1]["pat"], mut=False)
                forn = {"k": "For", "pat": pat, "iter": it, "body": newblk, "id": w.get("id"), "ty": "()", "sp": sp, "canon": "while-loop"}
                w.clear()
                w.update(forn)
                decl[1]["canon_dead"] = True
                self.stats["while_loops"] = self.stats.get("while_loops", 0) + 1
            # drop the now-dead counter declarations
            if any(s_.get("canon_dead") for s_ in st):
                blk["stmts"] = [s_ for s_ in st if not s_.get("canon_dead")]

    # ------------------------------------------------------------------ P7
    def assert_eq_forms(self, body):
        """`assert_eq!(a, b, ..)` / `assert_ne!(a, b, ..)` (a match on `(&a, &b)` binding left_val / right_val)  ->  `if !(a == b) { panic }` resp.
        `if a == b { panic }`: the guard in the form every rule already reads."""
        for m in [y for y in _walk(body) if y.get("k") == "Match" and str(y.get("m") or "").split("::")[-1] in ("assert_eq", "assert_ne") and len(y.get("arms", [])) == 1]:
            sc = _strip(m["scrut"])
            arm = m["arms"][0]
            pat = arm.get("pat", {})
            if sc.get("k") != "Tup" or len(sc.get("es", [])) != 2 or pat.get("k") != "Tuple" or len(pat.get("ps", [])) != 2 or not all(q.get("k") == "Bind" for q in pat["ps"]):
                continue
            ops = []
            for e_ in sc["es"]:
                e0 = _strip(e_)
                ops.append(e0["e"] if e0.get("k") == "AddrOf" else e0)
            inner = [y for y in _walk(arm["body"]) if y.get("k") == "If"]
            if not inner:
                continue
            iff = inner[0]
            lv, rv = pat["ps"][0]["v"], pat["ps"][1]["v"]

            def subst(node):
                for u in [y for y in _walk(node) if y.get("k") == "Unary" and y.get("op") == "*" and _strip(y["e"]).get("k") == "Local" and _strip(y["e"]).get("v") in (lv, rv)]:
                    src = copy.deepcopy(ops[0] if _strip(u["e"])["v"] == lv else ops[1])
                    keep = {kk: u.get(kk) for kk in ("sp",)}
                    u.clear()
                    u.update(src)
                    for kk, vv in keep.items():
                        if vv is not None:
                            u[kk] = vv
            subst(iff["cond"])
            keepm = {kk: m.get(kk) for kk in ("sp", "ty")}
            new = {"k": "If", "cond": iff["cond"], "then": iff["then"], "id": self._id()}
            m.clear()
            m.update(new)
            for kk, vv in keepm.items():
                if vv is not None:
                    m[kk] = vv
            m["ty"] = "()"
            self.stats["assert_eq"] = self.stats.get("assert_eq", 0) + 1

    @staticmethod
    def _readonly(e):
        return not any(y.get("k") in ("Assign", "AssignOp", "Closure", "Ret", "Try", "Break", "Continue") or (y.get("k") == "AddrOf" and y.get("mut")) or
                       str(y.get("adj") or "").startswith("&mut") for y in _walk(e))

    def match_bind_guards(self, body):
        """`match E { v if g(v) => A(v), w => B(w) }` (every arm an irrefutable binding or `_`, E read-only)  ->
        `if g(E) { A(E) } else { B(E) }`: a value selected by tests on itself."""
        for m in [y for y in _walk(body) if y.get("k") == "Match" and 1 <= len(y.get("arms", [])) <= 4]:
            arms = m["arms"]
            if not all(a["pat"].get("k") in ("Bind", "Wild") and not a["pat"].get("byref") and not a["pat"].get("sub") for a in arms):
                continue
            if arms[-1].get("guard") is not None or not all(a.get("guard") is not None for a in arms[:-1]):
                continue
            sc = m["scrut"]
            if not self._readonly(sc):
                continue
            sp = m.get("sp") or [0, 0, 0, 0]

            def inst(node, pat):
                node = copy.deepcopy(node)
                if pat.get("k") == "Bind":
                    for u in [y for y in _walk(node) if y.get("k") == "Local" and y.get("v") == pat["v"]]:
                        keep = {kk: u.get(kk) for kk in ("sp", "adj")}
                        u.clear()
                        u.update(copy.deepcopy(sc))
                        for kk, vv in keep.items():
                            if vv is not None:
                                u[kk] = vv
                return node

            def blk(e):
                if e.get("k") == "Block":
                    return e
                return {"k": "Block", "stmts": [], "expr": e, "id": self._id(), "ty": e.get("ty"), "sp": list(e.get("sp") or sp)}
            res = blk(inst(arms[-1]["body"], arms[-1]["pat"]))
            for a in reversed(arms[:-1]):
                res = {"k": "If", "cond": inst(a["guard"], a["pat"]), "then": blk(inst(a["body"], a["pat"])), "else": res if res.get("k") == "Block" else blk(res),
                       "id": self._id(), "ty": m.get("ty"), "sp": list(sp)}
            keepm = {kk: m.get(kk) for kk in ("ty", "sp", "adj")}
            m.clear()
            m.update(res if res.get("k") == "If" else {"k": "Block", "stmts": [], "expr": res.get("expr"), "id": self._id()})
            for kk, vv in keepm.items():
                if vv is not None:
                    m[kk] = vv
            self.stats["match_bind_guards"] = self.stats.get("match_bind_guards", 0) + 1

    def split_last_match(self, body):
        """`match X.split_last() { None => A, Some((&last, rest)) => B }`  ->  `if X.is_empty() { A } else { B[last := X[len-1], rest := &X[0..len-1]] }`
        (X a Vec / slice place that B does not write)."""
        for m in [y for y in _walk(body) if y.get("k") == "Match" and len(y.get("arms", [])) == 2]:
            sc = _strip(m["scrut"])
            if sc.get("k") != "MethodCall" or sc.get("name") != "split_last" or sc.get("args") or "[T]::" not in str(sc.get("fn") or ""):
                continue
            X = sc["recv"]
            if not self._pure(X):
                continue
            none_arm = some_arm = None
            for a in m["arms"]:
                pa = a["pat"]
                if str(pa.get("path", "")).endswith("::None") and pa.get("k") in ("PatExpr", "Path", "Struct", "TupleStruct") and not pa.get("ps"):
                    none_arm = a
                elif pa.get("k") == "TupleStruct" and str(pa.get("path", "")).endswith("::Some") and len(pa.get("ps", [])) == 1 and pa["ps"][0].get("k") == "Tuple" and len(pa["ps"][0].get("ps", [])) == 2:
                    some_arm = a
            if none_arm is None or some_arm is None or none_arm.get("guard") or some_arm.get("guard"):
                continue
            p_last, p_rest = some_arm["pat"]["ps"][0]["ps"]
            b_last = p_last["p"] if p_last.get("k") == "Ref" else p_last
            if b_last.get("k") not in ("Bind", "Wild") or p_rest.get("k") not in ("Bind", "Wild") or b_last.get("mut") or p_rest.get("mut"):
                continue
            sp = m.get("sp") or [0, 0, 0, 0]
            ety = str(b_last.get("ty", "")).lstrip("&") if p_last.get("k") != "Ref" else b_last.get("ty")

            def usz(node):
                node.setdefault("ty", "usize")
                node.setdefault("id", self._id())
                node.setdefault("sp", list(sp))
                return node

            def base():
                r = copy.deepcopy(X)
                r.pop("adj", None)
                return r

            def length():
                return usz({"k": "MethodCall", "name": "len", "fn": "std::vec::Vec<T, A>::len", "impl": "std::vec::Vec<T, A>::len", "fn_local": False, "recv": base(), "args": []})

            def lastidx():
                return usz({"k": "Binary", "op": "-", "l": length(), "r": usz({"k": "Lit", "v": "1"})})
            bodyB = some_arm["body"]
            if b_last.get("k") == "Bind":
                elem = {"k": "Index", "base": base(), "idx": lastidx(), "id": self._id(), "ty": ety, "sp": list(sp)}
                repl = elem if p_last.get("k") == "Ref" else {"k": "AddrOf", "mut": False, "e": elem, "id": self._id(), "ty": b_last.get("ty"), "sp": list(sp)}
                for u in [y for y in _walk(bodyB) if y.get("k") == "Local" and y.get("v") == b_last["v"]]:
                    keep = {kk: u.get(kk) for kk in ("sp", "adj")}
                    u.clear()
                    u.update(copy.deepcopy(repl))
                    for kk, vv in keep.items():
                        if vv is not None:
                            u[kk] = vv
            if p_rest.get("k") == "Bind":
                rng = {"k": "Range", "lo": usz({"k": "Lit", "v": "0"}), "hi": lastidx(), "incl": False, "id": self._id(), "ty": "std::ops::Range<usize>", "sp": list(sp)}
                sl = {"k": "AddrOf", "mut": False, "e": {"k": "Index", "base": base(), "idx": rng, "id": self._id(), "ty": "[%s]" % ety, "sp": list(sp)},
                      "id": self._id(), "ty": p_rest.get("ty"), "sp": list(sp)}
                for u in [y for y in _walk(bodyB) if y.get("k") == "Local" and y.get("v") == p_rest["v"]]:
                    keep = {kk: u.get(kk) for kk in ("sp", "adj")}
                    u.clear()
                    u.update(copy.deepcopy(sl))
                    for kk, vv in keep.items():
                        if vv is not None:
                            u[kk] = vv
            cond = {"k": "MethodCall", "name": "is_empty", "fn": "std::vec::Vec<T, A>::is_empty", "impl": "std::vec::Vec<T, A>::is_empty", "fn_local": False,
                    "recv": base(), "args": [], "id": self._id(), "ty": "bool", "sp": list(sp)}

            def blk(e):
                if e.get("k") == "Block":
                    return e
                return {"k": "Block", "stmts": [], "expr": e, "id": self._id(), "ty": e.get("ty"), "sp": list(e.get("sp") or sp)}
            keepm = {kk: m.get(kk) for kk in ("ty", "sp", "adj")}
            m.clear()
            m.update({"k": "If", "cond": cond, "then": blk(none_arm["body"]), "else": blk(bodyB), "id": self._id()})
            for kk, vv in keepm.items():
                if vv is not None:
                    m[kk] = vv
            self.stats["split_last"] = self.stats.get("split_last", 0) + 1

    def checked_sub_ok_or(self, body):
        """`X.checked_sub(K).ok_or(E)` (X, K pure usize expressions, E pure)  ->  `if X < K { Err(E) } else { Ok(X - K) }`."""
        for n in [y for y in _walk(body) if y.get("k") == "MethodCall" and y.get("name") == "ok_or" and len(y.get("args", [])) == 1]:
            cs = _strip(n["recv"])
            if not (cs.get("k") == "MethodCall" and cs.get("name") == "checked_sub" and len(cs.get("args", [])) == 1 and str(cs.get("ty", "")).startswith("std::option::Option<usize>")):
                continue
            X, K, E = cs["recv"], cs["args"][0], n["args"][0]
            if not (self._pure(X) and self._pure(K) and self._pure(E)):
                continue
            rty = str(n.get("ty"))
            sp = list(n.get("sp") or [0, 0, 0, 0])

            def ctor(nm, arg):
                return {"k": "Call", "f": {"k": "Def", "dk": "Ctor(Variant, Fn)", "fn": "std::prelude::v1::%s" % nm, "fn_local": False, "id": self._id(), "ty": "fn", "sp": list(sp)},
                        "args": [arg], "id": self._id(), "ty": rty, "sp": list(sp)}

            def fresh(e):
                c = copy.deepcopy(e)
                c.pop("adj", None)
                for x in _walk(c):
                    if "id" in x:
                        x["id"] = self._id()
                return c
            cond = {"k": "Binary", "op": "<", "l": fresh(X), "r": fresh(K), "id": self._id(), "ty": "bool", "sp": list(sp)}
            diff = {"k": "Binary", "op": "-", "l": fresh(X), "r": fresh(K), "id": self._id(), "ty": "usize", "sp": list(sp)}
            new = {"k": "If", "cond": cond,
                   "then": {"k": "Block", "stmts": [], "expr": ctor("Err", E), "id": self._id(), "ty": rty, "sp": list(sp)},
                   "else": {"k": "Block", "stmts": [], "expr": ctor("Ok", diff), "id": self._id(), "ty": rty, "sp": list(sp)},
                   "id": self._id(), "ty": rty, "sp": list(sp)}
            n.clear()
            n.update(new)
            self.stats["checked_sub_ok_or"] = self.stats.get("checked_sub_ok_or", 0) + 1

    def ret_if(self, body):
        """`return if c { A } else { B };`  ->  `if c { return A; } else { return B; }` (also nested): each arm is an exit of its own."""
        again = True
        while again:
            again = False
            for n in [y for y in _walk(body) if y.get("k") == "Ret" and isinstance(y.get("e"), dict)]:
                e = _strip(n["e"])
                if e.get("k") != "If" or e.get("else") is None or e.get("m") or isinstance(e.get("cond"), dict) and e["cond"].get("k") == "LetCond":
                    continue
                sp = n.get("sp") or [0, 0, 0, 0]

                def arm(a):
                    a0 = a
                    if _strip(a0).get("k") == "Block" and not _strip(a0).get("m"):
                        b = _strip(a0)
                        val = b.get("expr")
                        if val is None:
                            return None
                        r_ = {"k": "Ret", "e": val, "id": self._id(), "ty": "!", "sp": list(val.get("sp") or sp)}
                        return {"k": "Block", "stmts": list(b.get("stmts", [])) + [{"k": "Semi", "e": r_, "sp": list(r_["sp"])}], "expr": None, "id": self._id(), "ty": "!", "sp": list(b.get("sp") or sp)}
                    r_ = {"k": "Ret", "e": a0, "id": self._id(), "ty": "!", "sp": list(a0.get("sp") or sp)}
                    return {"k": "Block", "stmts": [{"k": "Semi", "e": r_, "sp": list(r_["sp"])}], "expr": None, "id": self._id(), "ty": "!", "sp": list(a0.get("sp") or sp)}
                t_, f_ = arm(e["then"]), arm(e["else"])
                if t_ is None or f_ is None:
                    continue
                new = {"k": "If", "cond": e["cond"], "then": t_, "else": f_, "id": self._id(), "ty": "!", "sp": list(sp)}
                n.clear()
                n.update(new)
                self.stats["ret_if"] = self.stats.get("ret_if", 0) + 1
                again = True
                break

    def guard_else(self, body):
        """`if C { BODY } else { <diverges> }`  ->  `if !C { <diverges> }  BODY` (statement or tail position): the guard spelled with
        the work in the `then` arm.  Bindings are identified by id, so splicing BODY into the enclosing list changes nothing."""
        again = True
        while again:
            again = False
            for blk in [n for n in _walk(body) if n.get("k") == "Block"]:
                sts = blk.get("stmts", [])
                items = [(i, st, _strip(st.get("e") or {})) for i, st in enumerate(sts) if st.get("k") in ("Semi", "Expr")]
                cand = None
                for i, st, e in items:
                    if e.get("k") == "If" and e.get("else") is not None:
                        cand = (i, e, False)
                        th, el = e["then"], _strip(e["else"])
                        if th.get("k") == "Block" and el.get("k") == "Block" and str(el.get("ty")) == "!" and str(th.get("ty")) != "!" and not e.get("m") and \
                                not any(y.get("k") in ("Ret", "Break", "Continue") for y in _walk(el)):
                            break          # (only a panicking else: a `return` there is an exit the rules look at where it stands)
                        cand = None
                if cand is None and blk.get("expr") is not None:
                    e = _strip(blk["expr"])
                    if e.get("k") == "If" and e.get("else") is not None and not e.get("m"):
                        th, el = e["then"], _strip(e["else"])
                        if th.get("k") == "Block" and el.get("k") == "Block" and str(el.get("ty")) == "!" and str(th.get("ty")) != "!" and \
                                not any(y.get("k") in ("Ret", "Break", "Continue") for y in _walk(el)):
                            cand = (len(sts), e, True)
                if cand is None:
                    continue
                i, e, tail = cand
                th, el = e["then"], _strip(e["else"])
                sp = e.get("sp") or [0, 0, 0, 0]
                neg = {"k": "Unary", "op": "!", "e": e["cond"], "id": self._id(), "ty": "bool", "sp": list(e["cond"].get("sp") or sp)}
                guard = {"k": "If", "cond": neg, "then": el, "else": None, "id": self._id(), "ty": "()", "sp": list(sp)}
                new = [{"k": "Semi", "e": guard, "sp": list(sp)}] + list(th.get("stmts", []))
                if tail:
                    blk["stmts"] = sts + new
                    blk["expr"] = th.get("expr")
                else:
                    if th.get("expr") is not None:
                        new.append({"k": "Semi", "e": th["expr"], "sp": th["expr"].get("sp")})
                    blk["stmts"] = sts[:i] + new + sts[i + 1:]
                self.stats["guard_else"] = self.stats.get("guard_else", 0) + 1
                again = True
                break

    def flag_exits(self, body):
        """`let mut done = false; LOOP { .. done = true; break; .. } if done { A } else { B }` (the loop is the last statement, the flag is
        written only as `done = true` immediately followed by the `break` of that loop, and read only by the tail)  ->
        `LOOP { .. return A; .. } B`: at the `break` nothing runs between the exit and the tail, so returning A there is the same."""
        if body.get("k") != "Block" or not body.get("stmts"):
            return
        tail = _strip(body["expr"]) if body.get("expr") is not None else None
        if tail is None or tail.get("k") != "If" or tail.get("else") is None:
            return
        c = _strip(tail["cond"])
        neg = False
        if c.get("k") == "Unary" and c.get("op") == "!":
            c, neg = _strip(c["e"]), True
        if c.get("k") != "Local":
            return
        flag = c["v"]
        lp_stmt = body["stmts"][-1]
        lp = _strip(lp_stmt.get("e") or {}) if lp_stmt.get("k") in ("Semi", "Expr") else {}
        if lp.get("k") not in ("For", "While", "Loop"):
            return
        decl = [st for st in body["stmts"] if st.get("k") == "Let" and st.get("pat", {}).get("k") == "Bind" and st["pat"].get("v") == flag]
        if len(decl) != 1 or decl[0].get("init") is None or _strip(decl[0]["init"]).get("k") != "Lit" or _strip(decl[0]["init"]).get("v") != "false":
            return
        # every use of the flag: the declaration, the tail condition, and `flag = true` statements directly followed by `break`
        sets = []
        reads = 0
        for n in _walk(body):
            if n.get("k") == "Local" and n.get("v") == flag:
                reads += 1

        def scan(blk):
            ok = True
            sts = blk.get("stmts", [])
            for i, st in enumerate(sts):
                e = _strip(st.get("e") or {}) if st.get("k") in ("Semi", "Expr") else {}
                if e.get("k") == "Assign" and _strip(e["l"]).get("k") == "Local" and _strip(e["l"]).get("v") == flag:
                    nxt = sts[i + 1] if i + 1 < len(sts) else None
                    nb = _strip(nxt.get("e") or {}) if nxt is not None and nxt.get("k") in ("Semi", "Expr") else (_strip(blk["expr"]) if nxt is None and blk.get("expr") is not None else {})
                    r = _strip(e["r"])
                    if r.get("k") == "Lit" and r.get("v") == "true" and nb.get("k") == "Break" and nb.get("e") is None and not nb.get("label"):
                        sets.append((blk, i, nxt is None))
                    else:
                        ok = False
            return ok
        good = True
        inner_loops = [n for n in _walk(lp["body"]) if n.get("k") in ("For", "While", "Loop")]
        for n in _walk(lp):
            if n.get("k") == "Block":
                if any(n is il.get("body") or any(n is x for x in _walk(il)) for il in inner_loops):
                    # a `break` inside a nested loop leaves that loop, not ours
                    if any(x.get("k") == "Local" and x.get("v") == flag for x in _walk(n)):
                        good = False
                    continue
                good = scan(n) and good
        if not good or not sets or reads != len(sets) + 1:
            return
        A, B = (tail["else"], tail["then"]) if neg else (tail["then"], tail["else"])
        sp = tail.get("sp") or [0, 0, 0, 0]
        for blk, i, at_tail in sets:
            val = copy.deepcopy(A)
            for x in _walk(val):
                if "id" in x:
                    x["id"] = self._id()
            ret = {"k": "Ret", "e": val, "id": self._id(), "ty": "!", "sp": list(blk["stmts"][i].get("sp") or sp)}
            if at_tail:
                blk["stmts"] = blk["stmts"][:i] + [{"k": "Semi", "e": ret, "sp": list(ret["sp"])}]
                blk["expr"] = None
            else:
                blk["stmts"] = blk["stmts"][:i] + [{"k": "Semi", "e": ret, "sp": list(ret["sp"])}] + blk["stmts"][i + 2:]
        body["stmts"] = [st for st in body["stmts"] if st is not decl[0]]
        body["expr"] = B
        self.stats["flag_exits"] = self.stats.get("flag_exits", 0) + 1

    def loop_to_while(self, body):
        """`loop { if c1 { break; } if c2 { break; } BODY }`  ->  `while !c1 && !c2 { BODY }` (the leading exits of a `loop` are its condition)."""
        for n in [y for y in _walk(body) if y.get("k") == "Loop" and y.get("src") == "Loop" and isinstance(y.get("body"), dict)]:
            stmts = list(n["body"].get("stmts", []))
            conds = []
            while stmts:
                e = _strip(stmts[0].get("e") or {}) if stmts[0].get("k") in ("Semi", "Expr") else {}
                if e.get("k") != "If" or e.get("else") is not None:
                    break
                th = e["then"]
                ts = th.get("stmts", []) if th.get("k") == "Block" else None
                only_break = False
                if ts is not None:
                    items = [_strip(x.get("e") or {}) for x in ts] + ([_strip(th["expr"])] if th.get("expr") is not None else [])
                    only_break = len(items) == 1 and items[0].get("k") == "Break" and items[0].get("e") is None and not items[0].get("label")
                if not only_break:
                    break
                conds.append(e["cond"])
                stmts.pop(0)
            if not conds:
                continue
            sp = n.get("sp") or [0, 0, 0, 0]

            def neg(c):
                return {"k": "Unary", "op": "!", "e": c, "id": self._id(), "ty": "bool", "sp": list(c.get("sp") or sp)}
            cond = neg(conds[0])
            for c in conds[1:]:
                cond = {"k": "Binary", "op": "&&", "l": cond, "r": neg(c), "id": self._id(), "ty": "bool", "sp": list(sp)}
            n["body"]["stmts"] = stmts
            n["k"] = "While"
            n["cond"] = cond
            n.pop("src", None)
            self.stats["loop_to_while"] = self.stats.get("loop_to_while", 0) + 1

    def end_element_lets(self, body):
        """`let Some(t) = X.last_mut() else { <diverges> };` (also last / first / first_mut; X a pure Vec / slice place)  ->
        `if X.is_empty() { <diverges> }` and every later use of `t` is `&mut X[len-1]` (resp. `&X[..]`, index 0 for first)."""
        for blk in [n for n in _walk(body) if n.get("k") == "Block"]:
            out, changed = [], False
            stmts = list(blk.get("stmts", []))
            for pos, st in enumerate(stmts):
                ok = st.get("k") == "Let" and isinstance(st.get("els"), dict) and st.get("init") is not None
                pat = st.get("pat", {}) if ok else {}
                init = _strip(st["init"]) if ok else {}
                inner = pat["ps"][0] if pat.get("k") == "TupleStruct" and len(pat.get("ps", [])) == 1 else None
                if not (ok and str(pat.get("path", "")).endswith("::Some") and inner is not None and inner.get("k") == "Bind" and not inner.get("mut") and
                        init.get("k") == "MethodCall" and "[T]::" in str(init.get("fn") or "") and self._pure(init["recv"]) and
                        ((init.get("name") in ("last", "last_mut", "first", "first_mut") and not init.get("args")) or
                         (init.get("name") in ("get", "get_mut") and len(init.get("args", [])) == 1 and str(init["args"][0].get("ty")) == "usize" and self._pure(init["args"][0])))):
                    out.append(st)
                    continue
                by_index = init.get("name") in ("get", "get_mut")
                X = init["recv"]
                sp = st.get("sp") or [0, 0, 0, 0]

                def usz(node):
                    node.setdefault("ty", "usize")
                    node.setdefault("id", self._id())
                    node.setdefault("sp", list(sp))
                    return node

                def base():
                    r = copy.deepcopy(X)
                    r.pop("adj", None)
                    return r
                if by_index:
                    ix = copy.deepcopy(init["args"][0])
                    for x_ in _walk(ix):
                        if "id" in x_:
                            x_["id"] = self._id()
                elif init["name"].startswith("last"):
                    ix = usz({"k": "Binary", "op": "-", "l": usz({"k": "MethodCall", "name": "len", "fn": "std::vec::Vec<T, A>::len", "impl": "std::vec::Vec<T, A>::len", "fn_local": False,
                                                                "recv": base(), "args": []}), "r": usz({"k": "Lit", "v": "1"})})
                else:
                    ix = usz({"k": "Lit", "v": "0"})
                ety = str(inner.get("ty", "")).lstrip("&").replace("mut ", "", 1).strip()
                ref = {"k": "AddrOf", "mut": init["name"].endswith("_mut"), "e": {"k": "Index", "base": base(), "idx": ix, "id": self._id(), "ty": ety, "sp": list(sp)},
                       "id": self._id(), "ty": inner.get("ty"), "sp": list(sp)}
                cond = {"k": "MethodCall", "name": "is_empty", "fn": "std::vec::Vec<T, A>::is_empty", "impl": "std::vec::Vec<T, A>::is_empty", "fn_local": False,
                        "recv": base(), "args": [], "id": self._id(), "ty": "bool", "sp": list(sp)}
                if by_index:
                    # `let Some(t) = X.get(i) else { D }`: D runs exactly when i >= X.len()
                    ln_ = usz({"k": "MethodCall", "name": "len", "fn": "std::vec::Vec<T, A>::len", "impl": "std::vec::Vec<T, A>::len", "fn_local": False, "recv": base(), "args": []})
                    cond = {"k": "Binary", "op": ">=", "l": copy.deepcopy(ix), "r": ln_, "id": self._id(), "ty": "bool", "sp": list(sp)}
                out.append({"k": "Expr", "e": {"k": "If", "cond": cond, "then": st["els"], "id": self._id(), "ty": "()", "sp": list(sp)}, "sp": list(sp)})
                rest = stmts[pos + 1:] + ([{"e": blk["expr"]}] if blk.get("expr") is not None else [])
                for r_ in rest:
                    for u in [y for y in _walk(r_) if y.get("k") == "Local" and y.get("v") == inner["v"]]:
                        keep = {kk: u.get(kk) for kk in ("sp",)}
                        u.clear()
                        u.update(copy.deepcopy(ref))
                        for kk, vv in keep.items():
                            if vv is not None:
                                u[kk] = vv
                changed = True
                self.stats["end_element_lets"] = self.stats.get("end_element_lets", 0) + 1
            if changed:
                blk["stmts"] = out

    def sin_cos_lets(self, body):
        """`let (s, c) = X.sin_cos();` (X a pure f64 expression)  ->  `let s = X.sin(); let c = X.cos();`"""
        for blk in [n for n in _walk(body) if n.get("k") == "Block"]:
            out, ch = [], False
            for st in blk.get("stmts", []):
                init = _strip(st.get("init") or {}) if st.get("k") == "Let" else {}
                pat = st.get("pat", {}) if st.get("k") == "Let" else {}
                if pat.get("k") == "Tuple" and len(pat.get("ps", [])) == 2 and all(q.get("k") == "Bind" for q in pat["ps"]) and init.get("k") == "MethodCall" and \
                        init.get("name") == "sin_cos" and str(init.get("fn")) in ("f64::sin_cos", "f32::sin_cos") and not init.get("args"):
                    sp = st.get("sp") or [0, 0, 0, 0]
                    if not self._pure(init["recv"]):
                        # evaluate the argument once: `let t = X; let s = t.sin(); let c = t.cos();`
                        self.fresh += 1
                        tv = self.fresh
                        fty = str(init.get("fn")).split("::")[0]
                        out.append({"k": "Let", "pat": {"k": "Bind", "v": tv, "name": "__angle%d" % tv, "mut": False, "byref": False, "ty": fty}, "init": init["recv"],
                                    "sp": [sp[0], sp[1] - 0.001, sp[2], sp[3]]})
                        init = dict(init, recv={"k": "Local", "v": tv, "name": "__angle%d" % tv, "id": self._id(), "ty": fty, "sp": list(init["recv"].get("sp") or sp)})
                    for k_, (q, nm) in enumerate(zip(pat["ps"], ("sin", "cos"))):
                        call = {"k": "MethodCall", "name": nm, "fn": str(init["fn"]).replace("sin_cos", nm), "fnargs": str(init.get("fnargs", "")).replace("sin_cos", nm), "targs": [], "fn_local": False,
                                "recv": copy.deepcopy(init["recv"]), "args": [], "id": self._id(), "ty": q.get("ty"), "sp": list(init.get("sp") or sp)}
                        for x in _walk(call["recv"]):
                            if "id" in x:
                                x["id"] = self._id()
                        out.append({"k": "Let", "pat": q, "init": call, "sp": [sp[0], sp[1] + 0.001 * k_, sp[2], sp[3]]})
                    ch = True
                    self.stats["sin_cos_lets"] = self.stats.get("sin_cos_lets", 0) + 1
                else:
                    out.append(st)
            if ch:
                blk["stmts"] = out

    def if_let_try_from(self, body):
        """`if let Ok(c) = usize::try_from(X) { B }` (X a pure signed integer)  ->  `if X >= 0 { B[c := X as usize] }`."""
        for n in [y for y in _walk(body) if y.get("k") == "If" and isinstance(y.get("cond"), dict) and y["cond"].get("k") == "LetCond"]:
            lc = n["cond"]
            pat, init = lc.get("pat", {}), _strip(lc.get("init") or {})
            if not (pat.get("k") == "TupleStruct" and str(pat.get("path", "")).endswith("::Ok") and len(pat.get("ps", [])) == 1 and pat["ps"][0].get("k") == "Bind" and not pat["ps"][0].get("mut")):
                continue
            f_ = init.get("f", {}) if init.get("k") == "Call" else {}
            if not (f_.get("k") == "Def" and str(f_.get("fn")) == "std::convert::TryFrom::try_from" and str(f_.get("impl", "")).startswith("<usize as std::convert::TryFrom<i") and
                    len(init.get("args", [])) == 1 and self._pure(init["args"][0])):
                continue
            X = init["args"][0]
            b = pat["ps"][0]
            sp = n.get("sp") or [0, 0, 0, 0]
            cast = {"k": "Cast", "e": copy.deepcopy(X), "id": self._id(), "ty": "usize", "sp": list(sp)}
            for u in [y for y in _walk(n["then"]) if y.get("k") == "Local" and y.get("v") == b["v"]]:
                keep = {kk: u.get(kk) for kk in ("sp",)}
                u.clear()
                u.update(copy.deepcopy(cast))
                for kk, vv in keep.items():
                    if vv is not None:
                        u[kk] = vv
            zero = {"k": "Lit", "v": "0", "id": self._id(), "ty": X.get("ty"), "sp": list(sp)}
            n["cond"] = {"k": "Binary", "op": ">=", "l": copy.deepcopy(X), "r": zero, "id": self._id(), "ty": "bool", "sp": list(sp)}
            self.stats["if_let_try_from"] = self.stats.get("if_let_try_from", 0) + 1

    def if_let_get(self, body):
        """`if let Some(p) = X.get(i) { B }` (X a pure Vec / slice place, i pure, no else or any else)  ->  `if i < X.len() { B[p := &X[i]] }`."""
        for n in [y for y in _walk(body) if y.get("k") == "If" and isinstance(y.get("cond"), dict) and y["cond"].get("k") == "LetCond"]:
            lc = n["cond"]
            pat, init = lc.get("pat", {}), _strip(lc.get("init") or {})
            if not (pat.get("k") == "TupleStruct" and str(pat.get("path", "")).endswith("::Some") and len(pat.get("ps", [])) == 1):
                continue
            if not (init.get("k") == "MethodCall" and init.get("name") == "get" and len(init.get("args", [])) == 1 and "[T]::get" in str(init.get("fn") or "") and
                    self._pure(init["recv"]) and self._pure(init["args"][0]) and str(init["args"][0].get("ty")) == "usize"):
                continue
            q = pat["ps"][0]
            b = q["p"] if q.get("k") == "Ref" else q
            if b.get("k") not in ("Bind", "Wild") or b.get("mut"):
                continue
            sp = n.get("sp") or [0, 0, 0, 0]
            X = copy.deepcopy(init["recv"])
            X.pop("adj", None)
            ix = init["args"][0]
            ety = b.get("ty") if q.get("k") == "Ref" else str(b.get("ty", "")).lstrip("&")
            if b.get("k") == "Bind":
                elem = {"k": "Index", "base": copy.deepcopy(X), "idx": copy.deepcopy(ix), "id": self._id(), "ty": ety, "sp": list(sp)}
                repl = elem if q.get("k") == "Ref" else {"k": "AddrOf", "mut": False, "e": elem, "id": self._id(), "ty": b.get("ty"), "sp": list(sp)}
                for u in [y for y in _walk(n["then"]) if y.get("k") == "Local" and y.get("v") == b["v"]]:
                    keep = {kk: u.get(kk) for kk in ("sp", "adj")}
                    u.clear()
                    u.update(copy.deepcopy(repl))
                    for kk, vv in keep.items():
                        if vv is not None:
                            u[kk] = vv
            ln = {"k": "MethodCall", "name": "len", "fn": "std::vec::Vec<T, A>::len", "impl": "std::vec::Vec<T, A>::len", "fn_local": False, "recv": copy.deepcopy(X), "args": [],
                  "id": self._id(), "ty": "usize", "sp": list(sp)}
            n["cond"] = {"k": "Binary", "op": "<", "l": copy.deepcopy(ix), "r": ln, "id": self._id(), "ty": "bool", "sp": list(sp)}
            self.stats["if_let_get"] = self.stats.get("if_let_get", 0) + 1

    def split_tuple_let_else(self, body):
        """`let (Ok(a), Ok(b)) = (E1, E2) else { D };` with read-only E1, E2  ->  `let Ok(a) = E1 else { D }; let Ok(b) = E2 else { D };`"""
        for blk in [n for n in _walk(body) if n.get("k") == "Block"]:
            out, changed = [], False
            for st in blk.get("stmts", []):
                pat = st.get("pat", {}) if st.get("k") == "Let" and isinstance(st.get("els"), dict) and st.get("init") is not None else {}
                init = _strip(st["init"]) if pat else {}
                if pat.get("k") == "Tuple" and init.get("k") == "Tup" and len(pat.get("ps", [])) == len(init.get("es", [])) >= 2 and \
                        all(q.get("k") == "TupleStruct" and str(q.get("path", "")).split("::")[-1] in ("Ok", "Some") for q in pat["ps"]) and \
                        all(self._readonly(e_) for e_ in init["es"]):
                    sp = st.get("sp") or [0, 0, 0, 0]
                    for k_, (q, e_) in enumerate(zip(pat["ps"], init["es"])):
                        els = copy.deepcopy(st["els"])
                        base = self.fresh
                        self.fresh += 1000
                        for y in _walk(els):
                            if isinstance(y.get("id"), int):
                                y["id"] += base
                        out.append({"k": "Let", "pat": q, "init": e_, "els": els, "sp": [sp[0], sp[1] + 0.0001 * k_, sp[2] if len(sp) > 2 else sp[0], sp[3] if len(sp) > 3 else sp[1]]})
                    changed = True
                else:
                    out.append(st)
            if changed:
                blk["stmts"] = out

    def let_else(self, body):
        """`let Ok(x) = E else { <diverges> };`  ->  `let x = match E { Ok(x') => x', Err(_) => <diverges> };` (likewise `Some(x)` / `None`)."""
        for n in [y for y in _walk(body) if y.get("k") == "Let" and isinstance(y.get("els"), dict) and y.get("init") is not None]:
            pat = n["pat"]
            inner = None
            if pat.get("k") == "TupleStruct" and len(pat.get("ps", [])) == 1:
                inner = pat["ps"][0]
            elif pat.get("k") == "Struct" and len(pat.get("fields", [])) == 1:
                inner = pat["fields"][0].get("pat")
            ctor = str(pat.get("path", "")).split("::")[-1]
            if inner is None or inner.get("k") != "Bind" or inner.get("byref") or ctor not in ("Ok", "Some"):
                continue
            self.fresh += 1
            v2 = self.fresh
            sp = n.get("sp") or [0, 0, 0, 0]
            ity = inner.get("ty")
            ok_pat = {"k": "TupleStruct", "path": pat.get("path"), "ps": [{"k": "Bind", "v": v2, "name": "__ok", "mut": False, "byref": False, "ty": ity}], "ty": pat.get("ty")}
            other = {"k": "TupleStruct", "path": str(pat.get("path", "")).rsplit("::", 1)[0] + "::Err", "ps": [{"k": "Wild", "ty": "_"}], "ty": pat.get("ty")} if ctor == "Ok" else \
                {"k": "Path", "path": str(pat.get("path", "")).rsplit("::", 1)[0] + "::None", "ty": pat.get("ty")}
            m = {"k": "Match", "scrut": n["init"],
                 "arms": [{"pat": ok_pat, "body": {"k": "Local", "v": v2, "name": "__ok", "id": self._id(), "ty": ity, "sp": list(sp)}, "sp": list(sp)},
                          {"pat": other, "body": n["els"], "sp": list(n["els"].get("sp") or sp)}],
                 "id": self._id(), "ty": ity, "sp": list(sp)}
            n["pat"] = inner
            n["init"] = m
            del n["els"]
            self.stats["let_else"] = self.stats.get("let_else", 0) + 1

    def split_tuple_lets(self, body):
        """`let (a, b, c) = (x, y, z);` (typically what is left of a tuple-returning helper after inlining)  ->  `let a = x; let b = y; let c = z;`
        (bindings are identified by id in this representation, so the new names cannot capture anything on the right)."""
        for blk in [n for n in _walk(body) if n.get("k") == "Block"]:
            out, changed = [], False
            for st in blk.get("stmts", []):
                pat = st.get("pat", {}) if st.get("k") == "Let" else {}
                init = _strip(st["init"]) if st.get("k") == "Let" and st.get("init") is not None else None
                if pat.get("k") == "Tuple" and init is not None and init.get("k") == "Tup" and len(init.get("es", [])) == len(pat.get("ps", [])) and \
                        all(not q.get("byref") for q in pat["ps"]):
                    sp = st.get("sp") or [0, 0, 0, 0]
                    for k_, (q, e_) in enumerate(zip(pat["ps"], init["es"])):
                        lsp = [sp[0], sp[1] + 0.0001 * k_, sp[2] if len(sp) > 2 else sp[0], sp[3] if len(sp) > 3 else sp[1]]
                        if q.get("k") != "Wild":
                            out.append({"k": "Let", "pat": q, "init": e_, "sp": lsp, "canon": "tuple-let"})
                        else:
                            out.append({"k": "Semi", "e": e_, "sp": lsp})
                    changed = True
                    self.stats["tuple_lets"] = self.stats.get("tuple_lets", 0) + 1
                else:
                    out.append(st)
            if changed:
                blk["stmts"] = out

    def drop_debug_asserts(self, body):
        """`debug_assert!(..)`, `debug_assert_eq!(..)`, `debug_assert_ne!(..)` statements are removed: they are compiled out of
        release builds, so they cannot be what makes a property hold, and as statements they only add a panic path that the
        refusal / single-path rules would otherwise have to explain."""
        for blk in [n for n in _walk(body) if n.get("k") == "Block"]:
            keep = []
            for st in blk.get("stmts", []):
                e = st.get("e") if st.get("k") in ("Semi", "Expr") else None
                if isinstance(e, dict) and str(e.get("m") or "").split("::")[-1].startswith("debug_assert"):
                    self.stats["debug_asserts_dropped"] = self.stats.get("debug_asserts_dropped", 0) + 1
                    continue
                keep.append(st)
            if len(keep) != len(blk.get("stmts", [])):
                blk["stmts"] = keep
            t = blk.get("expr")
            if isinstance(t, dict) and str(t.get("m") or "").split("::")[-1].startswith("debug_assert"):
                blk["expr"] = None

    def result_temporaries(self, body):
        """`let mut t = E; <statements that use t and never mention X>; X = t;` (t not used afterwards)  ->  `X = E; <the statements on X>`:
        the value was built in a temporary and moved into X (the body of an inlined `fn step(x, ..) -> X` helper)."""
        again = True
        while again:
            again = False
            for blk in [n for n in _walk(body) if n.get("k") == "Block"]:
                sts = blk.get("stmts", [])
                for i, st in enumerate(sts):
                    if st.get("k") != "Let" or (st.get("pat") or {}).get("k") != "Bind" or not st["pat"].get("mut") or st["pat"].get("byref") or st.get("init") is None:
                        continue
                    tv = st["pat"]["v"]
                    for j in range(i + 1, len(sts)):
                        e = _strip(sts[j].get("e") or {}) if sts[j].get("k") in ("Semi", "Expr") else {}
                        if e.get("k") == "Assign" and _strip(e["r"]).get("k") == "Local" and _strip(e["r"]).get("v") == tv and _strip(e["l"]).get("k") == "Local":
                            xv = _strip(e["l"])["v"]
                            mid = sts[i + 1:j]
                            uses_after = any(x.get("k") == "Local" and x.get("v") == tv for s_ in sts[j + 1:] for x in _walk(s_)) or \
                                (blk.get("expr") is not None and any(x.get("k") == "Local" and x.get("v") == tv for x in _walk(blk["expr"])))
                            x_mid = any(x.get("k") == "Local" and x.get("v") == xv for s_ in mid for x in _walk(s_))
                            closures = any(x.get("k") in ("Closure", "Ret", "Break", "Continue", "Try") for s_ in mid for x in _walk(s_))
                            if uses_after or x_mid or closures or xv == tv:
                                break
                            xl = _strip(e["l"])
                            for s_ in mid:
                                for x in _walk(s_):
                                    if x.get("k") == "Local" and x.get("v") == tv:
                                        x["v"] = xv
                                        x["name"] = xl.get("name")
                            sp = list(st.get("sp") or [0, 0, 0, 0])
                            asg = {"k": "Assign", "l": copy.deepcopy(xl), "r": st["init"], "id": self._id(), "ty": "()", "sp": sp}
                            asg["l"]["sp"] = list(sp)
                            asg["l"]["id"] = self._id()
                            blk["stmts"] = sts[:i] + [{"k": "Semi", "e": asg, "sp": sp}] + mid + sts[j + 1:]
                            self.stats["result_temporaries"] = self.stats.get("result_temporaries", 0) + 1
                            again = True
                            break
                        if any(x.get("k") in ("Ret", "Break", "Continue") for x in _walk(sts[j])):
                            break
                    if again:
                        break
                if again:
                    break

    def extend_map(self, body):
        """`X.extend(R.map(|p| E));` as a statement  ->  `for p in R { X.push(E); }`: extend pulls the items in order and pushes each."""
        for blk in [n for n in _walk(body) if n.get("k") == "Block"]:
            for st in blk.get("stmts", []):
                e = _strip(st.get("e") or {}) if st.get("k") in ("Semi", "Expr") else {}
                if e.get("k") != "MethodCall" or e.get("name") != "extend" or len(e.get("args", [])) != 1 or not str(e.get("fn", "")).startswith(("std::iter::Extend", "std::vec::Vec")):
                    continue
                it = _strip(e["args"][0])
                if it.get("k") != "MethodCall" or it.get("name") != "map" or len(it.get("args", [])) != 1 or not str(it.get("fn", "")).startswith("std::iter::Iterator::map"):
                    continue
                cl = _strip(it["args"][0])
                if cl.get("k") != "Closure" or len(cl.get("params", [])) != 1 or cl["params"][0].get("k") != "Bind" or cl["params"][0].get("byref") or \
                        any(x.get("k") in ("Ret", "Try", "Break", "Continue") for x in _walk(cl["body"])) or not self._pure(_strip(e["recv"])):
                    continue
                sp = list(e.get("sp") or [0, 0, 0, 0])
                push = {"k": "MethodCall", "name": "push", "fn": "std::vec::Vec<T, A>::push", "fn_local": False, "recv": e["recv"], "args": [cl["body"]], "id": self._id(), "ty": "()", "sp": list(sp)}
                loop = {"k": "For", "pat": cl["params"][0], "iter": it["recv"], "body": {"k": "Block", "stmts": [{"k": "Semi", "e": push, "sp": list(sp)}], "expr": None, "id": self._id(), "ty": "()", "sp": list(sp)},
                        "id": self._id(), "ty": "()", "sp": list(sp)}
                st["e"] = loop
                st["k"] = "Semi"
                self.stats["extend_map"] = self.stats.get("extend_map", 0) + 1

    def for_map_loops(self, body):
        """`for p in X.map(|t| E) { body }`  ->  `for t in X { let p = E; body }` (also through `.into_iter()` of X): `map` is lazy, E is
        evaluated once per element, in order, immediately before the body runs for it."""
        for lp in [n for n in _walk(body) if n.get("k") == "For"]:
            it = _strip(lp.get("iter") or {})
            if it.get("k") != "MethodCall" or it.get("name") != "map" or len(it.get("args", [])) != 1 or not str(it.get("fn", "")).startswith("std::iter::Iterator::map"):
                continue
            cl = _strip(it["args"][0])
            if cl.get("k") != "Closure" or len(cl.get("params", [])) != 1 or cl["params"][0].get("k") != "Bind" or cl["params"][0].get("byref"):
                continue
            if any(x.get("k") in ("Ret", "Try", "Break", "Continue") for x in _walk(cl["body"])) or lp["body"].get("k") != "Block":
                continue
            src = it["recv"]
            s0 = _strip(src)
            if s0.get("k") == "MethodCall" and s0.get("name") == "into_iter" and not s0.get("args"):
                src = s0["recv"]
            sp = list(lp.get("sp") or [0, 0, 0, 0])
            bsp = list(lp["body"].get("sp") or sp)
            let = {"k": "Let", "pat": lp["pat"], "init": cl["body"], "sp": [bsp[0], bsp[1] + 0.0001, bsp[0], bsp[1] + 0.0002]}
            lp["pat"] = cl["params"][0]
            lp["iter"] = src
            lp["body"]["stmts"] = [let] + list(lp["body"].get("stmts", []))
            self.stats["for_map_loops"] = self.stats.get("for_map_loops", 0) + 1

    def struct_pattern_lets(self, body):
        """`let S { a, b: c } = P;` (P a local / parameter, every field pattern a plain binding)  ->  `let a = P.a; let c = P.b;` when P is a
        value, `let a = &mut P.a; ..` / `let a = &P.a; ..` when P is a reference (default binding modes): the fields under their own names."""
        for blk in [n for n in _walk(body) if n.get("k") == "Block"]:
            out, changed = [], False
            for st in blk.get("stmts", []):
                pat = st.get("pat") or {}
                init = _strip(st.get("init") or {}) if st.get("k") == "Let" else {}
                if st.get("k") == "Let" and pat.get("k") == "Struct" and st.get("els") is None and init.get("k") == "Local" and pat.get("fields") and \
                        all((fp.get("pat") or {}).get("k") == "Bind" and not fp["pat"].get("byref") for fp in pat["fields"]):
                    pty = str(init.get("ty") or "")
                    sp = list(st.get("sp") or [0, 0, 0, 0])
                    for j, fp in enumerate(pat["fields"]):
                        b = fp["pat"]
                        bty = str(b.get("ty") or "")
                        fld = {"k": "Field", "e": copy.deepcopy(init), "name": fp["name"], "id": self._id(), "ty": bty.replace("&mut ", "", 1).replace("&", "", 1) if pty.startswith("&") else bty, "sp": list(sp)}
                        val = fld
                        if pty.startswith("&") and bty.startswith("&"):
                            val = {"k": "AddrOf", "mut": bty.startswith("&mut"), "e": fld, "id": self._id(), "ty": bty, "sp": list(sp)}
                        out.append({"k": "Let", "pat": b, "init": val, "sp": [sp[0], sp[1] + 0.001 * j, sp[2], sp[3] + 0.001 * j]})
                    changed = True
                    self.stats["struct_pattern_lets"] = self.stats.get("struct_pattern_lets", 0) + 1
                else:
                    out.append(st)
            if changed:
                blk["stmts"] = out

    def slice_aliases(self, body):
        """`let t = &mut X[a..b];` / `let t = &X[a..b];` (t immutable, X a place, a and b side-effect free)  ->  every use of `t` is the
        sub-slice expression itself (while `t` lives X cannot be touched otherwise: that is what the borrow means)."""
        for blk in [n for n in _walk(body) if n.get("k") == "Block"]:
            keep, changed = [], False
            for st in blk.get("stmts", []):
                if st.get("k") == "Let" and st.get("pat", {}).get("k") == "Bind" and not st["pat"].get("mut") and not st["pat"].get("byref") and st.get("init") is not None:
                    i0 = _strip(st["init"])
                    sr_ = self._subrange(i0) if i0.get("k") == "AddrOf" else None
                    whole = False
                    if sr_ is None and i0.get("k") == "AddrOf" and isinstance(i0.get("e"), dict):
                        # `let t = &mut self.val;`: a borrow of a whole field (a path of fields from a local), nothing evaluated
                        pl = _strip(i0["e"])
                        depth = 0
                        while pl.get("k") == "Field":
                            pl = _strip(pl["e"])
                            depth += 1
                        whole = depth >= 1 and pl.get("k") == "Local"
                    if whole or (sr_ is not None and self._pure(sr_[0]) and all(x_ is None or self._pure(x_) for x_ in sr_[1:3])):
                        v = st["pat"]["v"]
                        uses = [y for y in _walk(blk) if y.get("k") == "Local" and y.get("v") == v]
                        in_closure = any(c_.get("k") == "Closure" and any(y.get("k") == "Local" and y.get("v") == v for y in _walk(c_)) for c_ in _walk(blk))
                        if uses and not in_closure:        # (a sub-slice captured by a closure stays a named borrow: what is captured matters to the rules)
                            if whole:
                                # where the use auto-dereferences the borrow (index base, method receiver, explicit `*`) the place itself stands there
                                for y in list(_walk(blk)):
                                    for slot in (("base",) if y.get("k") == "Index" else ("recv",) if y.get("k") == "MethodCall" else ("e",) if y.get("k") == "Unary" and y.get("op") == "*" else ()):
                                        t_ = y.get(slot)
                                        if isinstance(t_, dict) and _strip(t_).get("k") == "Local" and _strip(t_).get("v") == v:
                                            pc = copy.deepcopy(i0["e"])
                                            if slot == "e":
                                                ksp = y.get("sp")
                                                y.clear()
                                                y.update(pc)
                                                if ksp:
                                                    y["sp"] = ksp
                                            else:
                                                if t_.get("sp"):
                                                    pc["sp"] = t_["sp"]
                                                y[slot] = pc
                                uses = [y for y in _walk(blk) if y.get("k") == "Local" and y.get("v") == v]
                            for u in uses:
                                cp = copy.deepcopy(i0)
                                keepk = {kk: u.get(kk) for kk in ("sp", "adj")}
                                u.clear()
                                u.update(cp)
                                for kk, vv in keepk.items():
                                    if vv is not None:
                                        u[kk] = vv
                            changed = True
                            self.stats["slice_aliases"] = self.stats.get("slice_aliases", 0) + 1
                            continue
                keep.append(st)
            if changed:
                blk["stmts"] = keep

    def fill_calls(self, body):
        """`X.fill(e);` / `X[a..b].fill(e);` on a Vec or slice, as a statement, e side-effect free  ->  `for i in 0..len(X) { X[i] = e }` resp. `for i in a..b { X[i] = e }`."""
        for blk in [n for n in _walk(body) if n.get("k") == "Block"]:
            items = list(blk.get("stmts", []))
            tail_is = False
            t = blk.get("expr")
            if isinstance(t, dict) and _strip(t).get("k") == "MethodCall" and _strip(t).get("name") == "fill" and str(t.get("ty")) == "()":
                items.append({"k": "Semi", "e": t, "sp": t.get("sp")})
                tail_is = True
            changed = False
            for st in items:
                e = _strip(st.get("e")) if st.get("k") in ("Semi", "Expr") and isinstance(st.get("e"), dict) else None
                if e is None or e.get("k") != "MethodCall" or e.get("name") != "fill" or len(e.get("args", [])) != 1 or "[T]::fill" not in str(e.get("fn") or e.get("impl") or ""):
                    continue
                arg = e["args"][0]
                if not self._pure(arg):
                    continue
                recv = e["recv"]
                sub = self._subrange(recv)
                sp = st.get("sp") or e.get("sp") or [0, 0, 0, 0]

                def usz(node):
                    node.setdefault("ty", "usize")
                    node.setdefault("id", self._id())
                    node.setdefault("sp", list(sp))
                    return node
                if sub is not None:
                    base, lo_n, hi_n, incl = sub
                    if incl:
                        continue
                else:
                    base, lo_n, hi_n = recv, None, None
                    r0 = _strip(base)
                    while r0.get("k") == "AddrOf":
                        r0 = _strip(r0["e"])
                    base = r0
                if not self._pure(base):
                    continue
                b_ = copy.deepcopy(base)
                b_.pop("adj", None)
                hi = copy.deepcopy(hi_n) if hi_n is not None else usz({"k": "MethodCall", "name": "len", "fn": "std::vec::Vec<T, A>::len", "impl": "std::vec::Vec<T, A>::len",
                                                                        "fn_local": False, "recv": copy.deepcopy(b_), "args": []})
                self.fresh += 1
                iv = self.fresh
                ety = arg.get("ty")
                ix = usz({"k": "Local", "v": iv, "name": "__i"})
                if lo_n is not None and not (_strip(lo_n).get("k") == "Lit" and str(_strip(lo_n).get("v")) == "0"):
                    # zero-based: element a + i for i in 0..b-a (so a flat index a = r*stride keeps its row / column reading)
                    ix = usz({"k": "Binary", "op": "+", "l": copy.deepcopy(lo_n), "r": ix})
                    hi = usz({"k": "Binary", "op": "-", "l": hi, "r": copy.deepcopy(lo_n)})
                lo = usz({"k": "Lit", "v": "0"})
                tgt = {"k": "Index", "base": copy.deepcopy(b_), "idx": ix, "id": self._id(), "ty": ety, "sp": list(sp)}
                asg = {"k": "Assign", "l": tgt, "r": arg, "id": self._id(), "ty": "()", "sp": list(sp)}
                loop = {"k": "For", "pat": {"k": "Bind", "v": iv, "name": "__i", "mut": False, "byref": False, "ty": "usize"},
                        "iter": {"k": "Range", "lo": lo, "hi": hi, "incl": False, "id": self._id(), "ty": "std::ops::Range<usize>", "sp": list(sp)},
                        "body": {"k": "Block", "stmts": [{"k": "Semi", "e": asg, "sp": list(sp)}], "id": self._id(), "ty": "()", "sp": list(sp)},
                        "id": self._id(), "ty": "()", "sp": list(sp), "canon": "fill-loop"}
                st["k"] = "Expr"
                st["e"] = loop
                changed = True
                self.stats["fill_loops"] = self.stats.get("fill_loops", 0) + 1
            if changed and tail_is:
                blk["stmts"] = items
                blk["expr"] = None

    def for_each_loops(self, body):
        """`SRC.for_each(|p| { .. });` as a statement  ->  `for p in SRC { .. }` (the closure has no `return`, which would mean `continue`)."""
        for blk in [n for n in _walk(body) if n.get("k") == "Block"]:
            items = list(blk.get("stmts", []))
            tail_is = False
            t = blk.get("expr")
            if isinstance(t, dict) and _strip(t).get("k") == "MethodCall" and _strip(t).get("name") == "for_each" and str(t.get("ty")) == "()":
                items.append({"k": "Semi", "e": t, "sp": t.get("sp")})
                tail_is = True
            changed = False
            for st in items:
                e = _strip(st.get("e")) if st.get("k") in ("Semi", "Expr") and isinstance(st.get("e"), dict) else None
                if e is None or e.get("k") != "MethodCall" or e.get("name") != "for_each" or e.get("fn") != "std::iter::Iterator::for_each" or len(e.get("args", [])) != 1:
                    continue
                cl = _strip(e["args"][0])
                if cl.get("k") != "Closure" or len(cl.get("params", [])) != 1 or any(y.get("k") in ("Ret", "Try") for y in _walk(cl["body"])):
                    continue
                cb = cl["body"]
                if cb.get("k") != "Block":
                    cb = {"k": "Block", "stmts": [{"k": "Semi", "e": cb, "sp": cb.get("sp")}], "id": self._id(), "ty": "()", "sp": list(cb.get("sp") or [0, 0, 0, 0])}
                elif cb.get("expr") is not None:
                    cb = dict(cb)
                    cb["stmts"] = list(cb.get("stmts", [])) + [{"k": "Semi", "e": cb["expr"], "sp": cb["expr"].get("sp")}]
                    cb["expr"] = None
                sp = st.get("sp") or e.get("sp") or [0, 0, 0, 0]
                loop = {"k": "For", "pat": cl["params"][0], "iter": e["recv"], "body": cb, "id": self._id(), "ty": "()", "sp": list(sp), "canon": "for-each"}
                st["k"] = "Expr"
                st["e"] = loop
                changed = True
                self.stats["for_each_loops"] = self.stats.get("for_each_loops", 0) + 1
            if changed and tail_is:
                blk["stmts"] = items
                blk["expr"] = None

    def fold_tuple_loops(self, body):
        """`let (a, b) = SRC.fold((i0, i1), |(x, y), P| e);`  ->  `let mut a = i0; let mut b = i1; for P in SRC { <(a, b) = e> }` where the
        tuple-valued body (a tuple, an if/else of tuples, a block ending in one, or the accumulator itself) becomes
        component assignments; an identity component (`x` kept) is dropped.  The accumulator parameter may also be a
        plain binding used through `.0` / `.1`.  Refused when a later component reads an earlier assigned one."""
        for blk in [n for n in _walk(body) if n.get("k") == "Block"]:
            out, changed = [], False
            for st in blk.get("stmts", []):
                res = self._fold_tuple_stmt(st)
                if res is None:
                    out.append(st)
                else:
                    out.extend(res)
                    changed = True
            if changed:
                blk["stmts"] = out

    def _fold_tuple_stmt(self, st):
        if st.get("k") != "Let" or st.get("init") is None or st["pat"].get("k") != "Tuple":
            return None
        pats = st["pat"].get("ps", [])
        if not pats or not all(q.get("k") in ("Bind", "Wild") and not q.get("byref") for q in pats):
            return None
        x = _strip(st["init"])
        if not (x.get("k") == "MethodCall" and x.get("name") == "fold" and x.get("fn") == "std::iter::Iterator::fold" and len(x.get("args", [])) == 2):
            return None
        init = _strip(x["args"][0])
        cl = _strip(x["args"][1])
        if init.get("k") != "Tup" or len(init.get("es", [])) != len(pats) or cl.get("k") != "Closure" or len(cl.get("params", [])) != 2:
            return None
        if any(y.get("k") in ("Ret", "Try") for y in _walk(cl["body"])):
            return None
        if any(y.get("k") in ("Assign", "AssignOp", "Closure", "Ret", "Try") or (y.get("k") == "AddrOf" and y.get("mut")) or str(y.get("adj") or "").startswith("&mut") for e_ in init["es"] for y in _walk(e_)):
            return None                     # the initial values only read (they are evaluated before the source iterator is built)
        n = len(pats)
        sp = st.get("sp") or x.get("sp") or [0, 0, 0, 0]
        # target variables
        tv = []
        for q in pats:
            if q.get("k") == "Bind":
                tv.append((q["v"], q.get("name"), q.get("ty")))
            else:
                self.fresh += 1
                tv.append((self.fresh, "__acc%d" % self.fresh, q.get("ty")))
        accp = cl["params"][0]
        bodye = cl["body"]
        # the element parameter bound as a whole tuple (`|best, candidate|` over `.map(|i| (i, f(i)))`): give its components names
        elp = cl["params"][1]
        if elp.get("k") == "Bind" and str(elp.get("ty", "")).startswith("(") and not elp.get("mut"):
            inner, depth, parts, cur = str(elp["ty"])[1:-1], 0, [], ""
            for ch in inner:
                if ch in "<([":
                    depth += 1
                elif ch in ">)]":
                    depth -= 1
                if ch == "," and depth == 0:
                    parts.append(cur.strip())
                    cur = ""
                else:
                    cur += ch
            if cur.strip():
                parts.append(cur.strip())
            if len(parts) >= 2:
                qs = []
                for k_, ty_ in enumerate(parts):
                    self.fresh += 1
                    qs.append({"k": "Bind", "v": self.fresh, "name": "%s_%d" % (elp.get("name", "e"), k_), "mut": False, "byref": False, "ty": ty_})
                for u in [y for y in _walk(bodye) if y.get("k") == "Field" and _strip(y["e"]).get("k") == "Local" and _strip(y["e"]).get("v") == elp["v"] and str(y.get("name")).isdigit() and int(y["name"]) < len(qs)]:
                    q_ = qs[int(u["name"])]
                    keep = {kk: u.get(kk) for kk in ("ty", "sp", "adj")}
                    u.clear()
                    u.update({"k": "Local", "v": q_["v"], "name": q_["name"], "id": self._id()})
                    for kk, vv in keep.items():
                        if vv is not None:
                            u[kk] = vv
                for u in [y for y in _walk(bodye) if y.get("k") == "Local" and y.get("v") == elp["v"]]:
                    usp = u.get("sp") or sp
                    keep = {kk: u.get(kk) for kk in ("ty", "sp")}
                    u.clear()
                    u.update({"k": "Tup", "es": [{"k": "Local", "v": q_["v"], "name": q_["name"], "id": self._id(), "ty": q_["ty"], "sp": list(usp)} for q_ in qs], "id": self._id()})
                    for kk, vv in keep.items():
                        if vv is not None:
                            u[kk] = vv
                cl["params"][1] = {"k": "Tuple", "ps": qs, "ty": elp.get("ty")}

        def local(k, spx):
            v, name, ty = tv[k]
            return {"k": "Local", "v": v, "name": name, "id": self._id(), "ty": ty, "sp": list(spx)}
        whole_acc = None
        if accp.get("k") == "Tuple" and len(accp.get("ps", [])) == n and all(q.get("k") in ("Bind", "Wild") for q in accp["ps"]):
            ren = {q["v"]: k for k, q in enumerate(accp["ps"]) if q.get("k") == "Bind"}
            for u in [y for y in _walk(bodye) if y.get("k") == "Local" and y.get("v") in ren]:
                k = ren[u["v"]]
                u["v"], u["name"] = tv[k][0], tv[k][1]
        elif accp.get("k") == "Bind":
            whole_acc = accp["v"]
            for u in [y for y in _walk(bodye) if y.get("k") == "Field" and _strip(y["e"]).get("k") == "Local" and _strip(y["e"]).get("v") == whole_acc and str(y.get("name")).isdigit()]:
                k = int(u["name"])
                if k >= n:
                    return None
                keep = {kk: u.get(kk) for kk in ("ty", "sp", "adj")}
                u.clear()
                u.update(local(k, keep.get("sp") or sp))
                for kk, vv in keep.items():
                    if vv is not None:
                        u[kk] = vv
        else:
            return None
        targets = {tv[k][0] for k in range(n)}

        def assigns(e):
            """statements performing (targets) = e, or None"""
            e0 = _strip(e)
            k_ = e0.get("k")
            esp = e0.get("sp") or sp
            if k_ == "Local" and whole_acc is not None and e0.get("v") == whole_acc:
                return []
            if k_ == "Tup" and len(e0.get("es", [])) == n:
                outs, written = [], set()
                for k, c in enumerate(e0["es"]):
                    c0 = _strip(c)
                    if c0.get("k") == "Local" and c0.get("v") == tv[k][0]:
                        continue            # identity component
                    if any(y.get("k") == "Local" and y.get("v") in written for y in _walk(c)):
                        return None         # simultaneous assignment would be needed
                    csp = c.get("sp") or esp
                    outs.append({"k": "Semi", "e": {"k": "Assign", "l": local(k, csp), "r": c, "id": self._id(), "ty": "()", "sp": list(csp)}, "sp": list(csp)})
                    written.add(tv[k][0])
                return outs
            if k_ == "If" and e0.get("else") is not None:
                a, b = assigns(e0["then"]), assigns(e0["else"])
                if a is None or b is None:
                    return None
                mk = lambda ss, src: {"k": "Block", "stmts": ss, "id": self._id(), "ty": "()", "sp": list(src.get("sp") or esp)}
                node = {"k": "If", "cond": e0["cond"], "then": mk(a, e0["then"]), "id": self._id(), "ty": "()", "sp": list(esp)}
                if b:
                    node["else"] = mk(b, e0["else"])
                return [{"k": "Expr", "e": node, "sp": list(esp)}]
            if k_ == "Block" and e0.get("expr") is not None and not e0.get("m"):
                tail = assigns(e0["expr"])
                if tail is None:
                    return None
                return list(e0.get("stmts", [])) + tail
            return None
        stm = assigns(bodye)
        if stm is None:
            return None
        if whole_acc is not None and any(y.get("k") == "Local" and y.get("v") == whole_acc for s_ in stm for y in _walk(s_)):
            return None                     # the accumulator is used as a whole somewhere else
        lets = []
        for k in range(n):
            v, name, ty = tv[k]
            lsp = [sp[0], sp[1] - 0.3 + 0.001 * k, sp[0], sp[1] - 0.26]
            ini = init["es"][k]
            for y in _walk(ini):
                if y.get("sp"):
                    y["sp"] = list(lsp)
            lets.append({"k": "Let", "pat": {"k": "Bind", "v": v, "name": name, "mut": True, "byref": False, "ty": ty}, "init": ini, "sp": lsp, "canon": "fold-acc"})
        src_it = x["recv"]
        bsp = list(bodye.get("sp") or sp)
        loop = {"k": "For", "pat": cl["params"][1], "iter": src_it,
                "body": {"k": "Block", "stmts": stm, "id": self._id(), "ty": "()", "sp": bsp},
                "id": self._id(), "ty": "()", "sp": [sp[0], sp[1] - 0.25, sp[0], sp[1] - 0.2], "canon": "fold-loop"}
        self.stats["fold_tuple_loops"] = self.stats.get("fold_tuple_loops", 0) + 1
        return lets + [{"k": "Expr", "e": loop, "sp": list(loop["sp"])}]

    def fold_loops(self, body):
        """`let v = SRC.fold(init, |acc, p| e);`  ->  `let mut v = init; for p in SRC { v = e[acc := v]; }` and the same for a
        fold that is the value of the block or an operand of a statement (hoisted into a `let` first: SRC and the
        closure only read)."""
        for blk in [n for n in _walk(body) if n.get("k") == "Block"]:
            out = []
            changed = False
            stmts = list(blk.get("stmts", []))
            tail = blk.get("expr")
            if tail is not None:
                stmts.append({"k": "Expr", "e": tail, "_tail": True, "sp": tail.get("sp")})
            for st in stmts:
                folds = []
                e_ = st.get("init") if st.get("k") == "Let" else st.get("e")
                if e_ is not None:
                    stack = [e_]
                    while stack:
                        x = stack.pop()
                        if x.get("k") in ("Closure", "For", "While", "Loop", "If", "Match") or (x.get("k") == "Block" and (x.get("stmts") or x.get("m"))):
                            continue
                        if x.get("k") == "Binary" and x.get("op") in ("&&", "||"):
                            continue
                        if x.get("k") == "MethodCall" and x.get("name") == "fold" and x.get("fn") == "std::iter::Iterator::fold" and len(x.get("args", [])) == 2:
                            cl = _strip(x["args"][1])
                            init_reads_only = not any(y.get("k") in ("Assign", "AssignOp", "Closure", "Ret", "Try") or (y.get("k") == "AddrOf" and y.get("mut")) or
                                                      str(y.get("adj") or "").startswith("&mut") for y in _walk(x["args"][0]))
                            if cl.get("k") == "Closure" and len(cl.get("params", [])) == 2 and cl["params"][0].get("k") == "Bind" and \
                                    not any(y.get("k") in ("Ret", "Try") for y in _walk(cl["body"])) and (self._pure(x["args"][0]) or init_reads_only):
                                folds.append(x)
                                continue
                        stack.extend(_kids(x))
                for x in folds:
                    cl = _strip(x["args"][1])
                    accp = cl["params"][0]
                    direct = st.get("k") == "Let" and st["pat"].get("k") == "Bind" and _strip(st["init"]) is x
                    sp = st.get("sp") or x.get("sp") or [0, 0, 0, 0]
                    if direct:
                        v, vname, vty = st["pat"]["v"], st["pat"].get("name"), st["pat"].get("ty")
                    else:
                        self.fresh += 1
                        v, vname, vty = self.fresh, "__fold%d" % self.fresh, x.get("ty")
                    # loop body: v = e[acc := v]
                    bodye = cl["body"]
                    for u in [y for y in _walk(bodye) if y.get("k") == "Local" and y.get("v") == accp["v"]]:
                        u["v"] = v
                        u["name"] = vname
                    pre_stmts = []
                    if bodye.get("k") == "Block" and bodye.get("expr") is not None and not bodye.get("m"):
                        pre_stmts = list(bodye.get("stmts", []))        # `|acc, p| { let ..; acc + .. }`
                        bodye = bodye["expr"]
                    bsp = list(bodye.get("sp") or sp)
                    asg = {"k": "Assign", "l": {"k": "Local", "v": v, "name": vname, "id": self._id(), "ty": vty, "sp": bsp}, "r": bodye, "id": self._id(), "ty": "()", "sp": bsp}
                    b0_ = _strip(bodye)
                    identity = b0_.get("k") == "Local" and b0_.get("v") == v        # `|mut acc, x| { acc *= x; acc }`: the tail hands the accumulator back
                    src_it = x["recv"]
                    s0 = _strip(src_it)
                    if s0.get("k") == "MethodCall" and s0.get("name") == "into_iter" and not s0.get("args") and str(s0["recv"].get("ty", "")).lstrip("&mut ").startswith("std::vec::Vec<"):
                        src_it = s0["recv"]          # `for p in v` is `for p in v.into_iter()`
                    loop = {"k": "For", "pat": cl["params"][1], "iter": src_it,
                            "body": {"k": "Block", "stmts": pre_stmts + ([] if identity else [{"k": "Semi", "e": asg, "sp": bsp}]), "id": self._id(), "ty": "()", "sp": bsp},
                            "id": self._id(), "ty": "()", "sp": [sp[0], sp[1] - 0.25, sp[0], sp[1] - 0.2], "canon": "fold-loop"}
                    let = {"k": "Let", "pat": {"k": "Bind", "v": v, "name": vname, "mut": True, "byref": False, "ty": vty}, "init": x["args"][0],
                           "sp": [sp[0], sp[1] - 0.3, sp[0], sp[1] - 0.26], "canon": "fold-acc"}
                    for y in _walk(let["init"]):
                        if y.get("sp"):
                            y["sp"] = list(let["sp"])
                    out.append(let)
                    out.append({"k": "Expr", "e": loop, "sp": list(loop["sp"])})
                    changed = True
                    if direct:
                        st["_drop"] = True
                    else:
                        keep = {kk: x.get(kk) for kk in ("ty", "sp", "adj")}
                        x.clear()
                        x.update({"k": "Local", "v": v, "name": vname, "id": self._id()})
                        for kk, vv in keep.items():
                            if vv is not None:
                                x[kk] = vv
                if not st.get("_drop"):
                    out.append(st)
            if changed:
                new_stmts = [s_ for s_ in out if not s_.get("_tail")]
                blk["stmts"] = new_stmts
                # (the tail expression node was rewritten in place)

    # ------------------------------------------------------------------ P4
    def collect_loops(self, body):
        """`let v = SRC.map(|p| e).collect();` (v a Vec)  ->  `let mut v = Vec::new(); for p in SRC { v.push(e) }`
        (the for loop is then rewritten by P3).  Only as the initialiser of a plain `let`."""
        def is_chain(c):
            if c.get("k") != "MethodCall" or c.get("name") != "collect" or c.get("args") or not str(c.get("ty", "")).startswith("std::vec::Vec<"):
                return False
            m_ = _strip(c["recv"])
            if m_.get("k") != "MethodCall":
                return False
            if m_.get("name") == "map" and len(m_.get("args", [])) == 1 and m_.get("fn") == "std::iter::Iterator::map":
                cl_ = _strip(m_["args"][0])
                return cl_.get("k") == "Closure" and len(cl_.get("params", [])) == 1 and not any(n.get("k") in ("Ret", "Try") for n in _walk(cl_["body"]))
            if m_.get("name") == "flat_map" and len(m_.get("args", [])) == 1 and m_.get("fn") == "std::iter::Iterator::flat_map":
                # (A..B).flat_map(|j| (C..D).map(move |k| e)).collect(): two nested range loops
                cl_ = _strip(m_["args"][0])
                if cl_.get("k") == "Closure" and len(cl_.get("params", [])) == 1 and cl_["params"][0].get("k") == "Bind" and _strip(m_["recv"]).get("k") == "Range":
                    b_ = _strip(cl_["body"])
                    while b_.get("k") == "Block" and not b_.get("stmts") and b_.get("expr") is not None:
                        b_ = _strip(b_["expr"])
                    if b_.get("k") == "MethodCall" and b_.get("name") == "map" and b_.get("fn") == "std::iter::Iterator::map" and _strip(b_["recv"]).get("k") == "Range":
                        c2 = _strip(b_["args"][0])
                        return c2.get("k") == "Closure" and len(c2.get("params", [])) == 1 and c2["params"][0].get("k") == "Bind" and \
                            not any(n.get("k") in ("Ret", "Try") for n in _walk(c2["body"]))
                return False
            return m_.get("name") in ("copied", "cloned") and not m_.get("args")

        for blk in [n for n in _walk(body) if n.get("k") == "Block"]:
            # a chain that is an operand of a statement (e.g. the argument of Vector::create) is first given a `let` of its own
            stmts1 = []
            items = list(blk.get("stmts", []))
            if blk.get("expr") is not None:
                items.append({"k": "Expr", "e": blk["expr"], "_tail": True, "sp": blk["expr"].get("sp")})
            for st in items:
                e_ = st.get("init") if st.get("k") == "Let" else st.get("e")
                if isinstance(e_, dict):
                    direct = _strip(e_) if st.get("k") == "Let" and st.get("pat", {}).get("k") == "Bind" else None
                    stack = [e_]
                    while stack:
                        x = stack.pop()
                        if x.get("k") in ("Closure", "For", "While", "Loop", "If", "Match") or (x.get("k") == "Block" and (x.get("stmts") or x.get("m"))):
                            continue
                        if x.get("k") == "Binary" and x.get("op") in ("&&", "||"):
                            continue
                        if x is not direct and is_chain(x):
                            self.fresh += 1
                            v = self.fresh
                            ssp = st.get("sp") or x.get("sp") or [0, 0, 0, 0]
                            let = {"k": "Let", "pat": {"k": "Bind", "v": v, "name": "__coll%d" % v, "mut": False, "byref": False, "ty": x.get("ty")},
                                   "init": dict(x), "sp": [ssp[0], ssp[1] - 0.4, ssp[0], ssp[1] - 0.35], "canon": "hoisted-collect"}
                            keep = {kk: x.get(kk) for kk in ("ty", "sp", "adj")}
                            x.clear()
                            x.update({"k": "Local", "v": v, "name": "__coll%d" % v, "id": self._id()})
                            for kk, vv in keep.items():
                                if vv is not None:
                                    x[kk] = vv
                            stmts1.append(let)
                            continue
                        stack.extend(_kids(x))
                if not st.get("_tail"):
                    stmts1.append(st)
            blk["stmts"] = stmts1
            out = []
            changed = False
            for st in blk.get("stmts", []):
                out.append(st)
                if st.get("k") != "Let" or st.get("init") is None or st["pat"].get("k") != "Bind":
                    continue
                c = _strip(st["init"])
                if not is_chain(c):
                    continue
                m = _strip(c["recv"])
                if m.get("name") == "flat_map":
                    cl1 = _strip(m["args"][0])
                    b_ = _strip(cl1["body"])
                    while b_.get("k") == "Block" and not b_.get("stmts") and b_.get("expr") is not None:
                        b_ = _strip(b_["expr"])
                    cl2 = _strip(b_["args"][0])
                    sp = st.get("sp") or [0, 0, 0, 0]
                    csp = c.get("sp") or sp
                    v = st["pat"]["v"]
                    vty = st["pat"].get("ty", c.get("ty"))
                    e2 = cl2["body"]
                    push = {"k": "MethodCall", "name": "push", "fn": "std::vec::Vec<T, A>::push", "impl": "std::vec::Vec<T, A>::push", "fn_local": False,
                            "recv": {"k": "Local", "v": v, "name": st["pat"].get("name"), "id": self._id(), "adj": "&mut " + str(vty), "ty": vty, "sp": list(e2.get("sp") or csp)},
                            "args": [e2], "id": self._id(), "ty": "()", "sp": list(e2.get("sp") or csp)}
                    inner = {"k": "For", "pat": cl2["params"][0], "iter": _strip(b_["recv"]),
                             "body": {"k": "Block", "stmts": [{"k": "Semi", "e": push, "sp": list(push["sp"])}], "id": self._id(), "ty": "()", "sp": list(cl2.get("sp") or csp)},
                             "id": self._id(), "ty": "()", "sp": list(b_.get("sp") or csp), "canon": "collect-loop"}
                    outer = {"k": "For", "pat": cl1["params"][0], "iter": _strip(m["recv"]),
                             "body": {"k": "Block", "stmts": [{"k": "Expr", "e": inner, "sp": list(inner["sp"])}], "id": self._id(), "ty": "()", "sp": list(cl1.get("sp") or csp)},
                             "id": self._id(), "ty": "()", "sp": [csp[0], csp[1] + 0.0005, csp[2], csp[3]], "canon": "collect-loop"}
                    st["pat"] = dict(st["pat"], mut=True)
                    st["init"] = {"k": "Call", "f": {"k": "Def", "dk": "AssocFn", "fn": "std::vec::Vec<T>::new", "fn_local": False, "id": self._id(), "ty": "fn", "sp": list(csp)},
                                  "args": [], "id": self._id(), "ty": vty, "sp": list(csp)}
                    st["sp"] = [sp[0], sp[1], csp[0], csp[1] + 0.0002]
                    out.append({"k": "Expr", "e": outer, "sp": list(outer["sp"])})
                    changed = True
                    continue
                if m.get("name") in ("copied", "cloned"):
                    # X.iter().copied().collect(): push each element
                    self.fresh += 1
                    pv = self.fresh
                    ety = str(c.get("ty", ""))[len("std::vec::Vec<"):-1]
                    csp0 = m.get("sp") or [0, 0, 0, 0]
                    cl = {"k": "Closure", "params": [{"k": "Ref", "p": {"k": "Bind", "v": pv, "name": "__e", "mut": False, "byref": False, "ty": ety}, "ty": "&" + ety}],
                          "body": {"k": "Local", "v": pv, "name": "__e", "id": self._id(), "ty": ety, "sp": list(csp0)}, "sp": list(csp0)}
                    src = m["recv"]
                else:
                    cl = _strip(m["args"][0])
                    src = m["recv"]
                sp = st.get("sp") or [0, 0, 0, 0]
                csp = c.get("sp") or sp
                v = st["pat"]["v"]
                vty = st["pat"].get("ty", c.get("ty"))
                cbody, cpre = cl["body"], []
                if cbody.get("k") == "Block" and cbody.get("expr") is not None and not cbody.get("m"):
                    cpre, cbody = list(cbody.get("stmts", [])), cbody["expr"]       # `|i| { let ..; value }`
                push = {"k": "MethodCall", "name": "push", "fn": "std::vec::Vec<T, A>::push", "impl": "std::vec::Vec<T, A>::push", "fn_local": False,
                        "recv": {"k": "Local", "v": v, "name": st["pat"].get("name"), "id": self._id(), "adj": "&mut " + str(vty), "ty": vty, "sp": list(cbody.get("sp") or csp)},
                        "args": [cbody], "id": self._id(), "ty": "()", "sp": list(cbody.get("sp") or csp)}
                loop = {"k": "For", "pat": cl["params"][0], "iter": src,
                        "body": {"k": "Block", "stmts": cpre + [{"k": "Semi", "e": push, "sp": list(push["sp"])}], "id": self._id(), "ty": "()", "sp": list(cl.get("sp") or csp)},
                        "id": self._id(), "ty": "()", "sp": [csp[0], csp[1] + 0.0005, csp[2], csp[3]], "canon": "collect-loop"}
                # is the source a plain range, or something P3 can turn into an index loop?  (otherwise leave the statement alone)
                if _strip(src).get("k") == "Range" and cl["params"][0].get("k") == "Bind":
                    loop["iter"] = _strip(src)
                else:
                    probe = copy.deepcopy(loop)
                    before = self.stats["iterator_loops"]
                    self._iter_loop(probe)
                    ok = self.stats["iterator_loops"] > before
                    self.stats["iterator_loops"] = before
                    if not ok:
                        continue
                st["pat"] = dict(st["pat"], mut=True)
                st["init"] = {"k": "Call", "f": {"k": "Def", "dk": "AssocFn", "fn": "std::vec::Vec<T>::new", "fn_local": False, "id": self._id(), "ty": "fn", "sp": list(csp)},
                              "args": [], "id": self._id(), "ty": vty, "sp": list(csp)}
                st["sp"] = [sp[0], sp[1], csp[0], csp[1] + 0.0002]
                out.append({"k": "Expr", "e": loop, "sp": list(loop["sp"])})
                changed = True
            if changed:
                blk["stmts"] = out

    # ------------------------------------------------------------------ P3
    def iter_loops(self, body):
        for n in list(_walk(body)):
            if n.get("k") != "For":
                continue
            self._iter_loop(n)

    def _iter_loop(self, f):
        it = _strip(f["iter"])
        # `for PAT in SRC.map(|p| e)`  ->  `for p in SRC { let PAT = e; .. }` (e is evaluated once per element, in order)
        if it.get("k") == "MethodCall" and it.get("name") == "map" and it.get("fn") == "std::iter::Iterator::map" and len(it.get("args", [])) == 1 and f["body"].get("k") == "Block":
            cl = _strip(it["args"][0])
            if cl.get("k") == "Closure" and len(cl.get("params", [])) == 1 and not any(y.get("k") in ("Ret", "Try") for y in _walk(cl["body"])):
                pat, cb, pre = f["pat"], cl["body"], []
                if cb.get("k") == "Block" and cb.get("expr") is not None and not cb.get("m"):
                    pre, cb = list(cb.get("stmts", [])), cb["expr"]
                bsp = f["body"].get("sp") or f.get("sp") or [0, 0, 0, 0]
                lets = None
                cb0 = _strip(cb)
                if pat.get("k") == "Tuple" and cb0.get("k") == "Tup" and len(cb0.get("es", [])) == len(pat.get("ps", [])) and all(q.get("k") in ("Bind", "Wild") for q in pat["ps"]):
                    lets = []
                    bound = set()
                    okp = True
                    for q, e_ in zip(pat["ps"], cb0["es"]):
                        if any(y.get("k") == "Local" and y.get("v") in bound for y in _walk(e_)):
                            okp = False
                        if q.get("k") == "Bind":
                            lets.append({"k": "Let", "pat": q, "init": e_, "sp": [bsp[0], bsp[1] + 0.0001 * (len(lets) + 1), bsp[0], bsp[1] + 0.0001 * (len(lets) + 1)], "canon": "map-elem"})
                            bound.add(q["v"])
                    if not okp:
                        lets = None
                elif pat.get("k") == "Bind":
                    lets = [{"k": "Let", "pat": pat, "init": cb, "sp": [bsp[0], bsp[1] + 0.0001, bsp[0], bsp[1] + 0.0001], "canon": "map-elem"}]
                if lets is not None:
                    # `let i = i;` (the element passed through) is dropped by renaming
                    keep = []
                    cp = cl["params"][0]
                    for l_ in lets:
                        i0 = _strip(l_["init"])
                        if cp.get("k") == "Bind" and i0.get("k") == "Local" and i0.get("v") == cp["v"] and not l_["pat"].get("mut"):
                            for u in [y for y in _walk(f["body"]) if y.get("k") == "Local" and y.get("v") == l_["pat"]["v"]]:
                                u["v"], u["name"] = cp["v"], cp.get("name")
                            continue
                        keep.append(l_)
                    f["body"]["stmts"] = pre + keep + list(f["body"].get("stmts", []))
                    f["pat"] = cp
                    f["iter"] = it["recv"]
                    self.stats["map_loops"] = self.stats.get("map_loops", 0) + 1
                    return self._iter_loop(f)
        rev = False
        lo_extra, take = None, None
        enum = False
        # peel adaptors
        while it.get("k") == "MethodCall" and it.get("name") in ("rev", "enumerate", "take", "skip"):
            nm = it["name"]
            if nm == "rev":
                if enum:
                    return          # enumerate().rev() numbers differently
                rev = not rev
            elif nm == "enumerate":
                if rev or take is not None or lo_extra is not None:
                    return          # rev().enumerate() / take().enumerate() number from 0 in a different order
                enum = True
            elif nm == "take":
                if rev or take is not None:
                    return
                take = it["args"][0]
            elif nm == "skip":
                if rev or lo_extra is not None or enum:
                    return
                lo_extra = it["args"][0]
            it = _strip(it["recv"])
        srcs = []
        if it.get("k") == "MethodCall" and it.get("name") == "windows" and len(it.get("args", [])) == 1 and not rev and take is None and lo_extra is None:
            return self._windows_loop(f, it, enum)
        if it.get("k") == "MethodCall" and it.get("name") == "zip" and len(it.get("args", [])) == 1:
            a = self._container(_strip(it["recv"]))
            b = self._container(_strip(it["args"][0]))
            if a is None or b is None:
                return
            srcs = [a, b]
        else:
            a = self._container(it)
            if a is None:
                return
            srcs = [a]
        pat = f["pat"]
        idx_pat = None
        elem_pat = pat
        if enum:
            if pat.get("k") != "Tuple" or len(pat.get("ps", [])) != 2 or pat["ps"][0].get("k") not in ("Bind", "Wild"):
                return
            idx_pat, elem_pat = pat["ps"][0], pat["ps"][1]
        if len(srcs) == 2:
            if elem_pat.get("k") != "Tuple" or len(elem_pat.get("ps", [])) != 2:
                return
            elem_pats = elem_pat["ps"]
        else:
            elem_pats = [elem_pat]
        for q in elem_pats:
            q2 = q["p"] if q.get("k") == "Ref" else q
            if q2.get("k") not in ("Bind", "Wild"):
                return
        sp = f.get("sp") or [0, 0, 0, 0]
        isp = it.get("sp") or sp
        if idx_pat is not None and idx_pat.get("k") == "Bind":
            iv, iname = idx_pat["v"], idx_pat.get("name", "i")
        else:
            self.fresh += 1
            iv, iname = self.fresh, "__i"
        def usz(node):
            node.setdefault("ty", "usize")
            node.setdefault("id", self._id())
            node.setdefault("sp", list(isp))
            return node
        def length(c):
            r = copy.deepcopy(c)
            r.pop("adj", None)          # a shared read of the length, whatever borrow the iterator took
            return usz({"k": "MethodCall", "name": "len", "fn": "std::vec::Vec<T, A>::len", "impl": "std::vec::Vec<T, A>::len", "fn_local": False,
                        "recv": r, "args": []})
        offsets = [None] * len(srcs)        # per source: the start a of a sub-slice X[a..b] when the index runs from 0
        if any(len(s_) > 2 for s_ in srcs) and len(srcs) == 1:
            # a sub-slice X[a..b]: the single-source, no skip form is rewritten with the index i running over a..b itself
            if lo_extra is not None or take is not None or enum:
                return
            c_, _m, lo_n, hi_n, incl_n = srcs[0]
            if incl_n and hi_n is None:
                return
            lo_extra = lo_n
            hi = copy.deepcopy(hi_n) if hi_n is not None else length(c_)
            if incl_n:
                hi = usz({"k": "Binary", "op": "+", "l": hi, "r": usz({"k": "Lit", "v": "1"})})      # X[a..=b] is X[a..b+1]
        elif any(len(s_) > 2 for s_ in srcs):
            # zipped with a sub-slice: the index runs from 0 and addresses X[a + i]; the sub-slice has b - a elements
            if lo_extra is not None or take is not None or enum or rev:
                return

            def slen(s_):
                if len(s_) <= 2:
                    return length(s_[0])
                c_, _m, lo_n, hi_n, incl_n = s_
                if incl_n:
                    return None
                h_ = copy.deepcopy(hi_n) if hi_n is not None else length(c_)
                if lo_n is None:
                    return h_
                return usz({"k": "Binary", "op": "-", "l": h_, "r": copy.deepcopy(lo_n)})
            lens_ = [slen(s_) for s_ in srcs]
            if any(x is None for x in lens_):
                return
            for k_, s_ in enumerate(srcs):
                if len(s_) > 2:
                    offsets[k_] = s_[2]
            hi = lens_[0]
            for l_ in lens_[1:]:
                hi = usz({"k": "Call", "f": {"k": "Def", "dk": "Fn", "fn": "std::cmp::min", "id": self._id(), "ty": "fn", "sp": list(isp)}, "args": [hi, l_]})
            srcs = [tuple(s_[:2]) + tuple(s_[2:]) for s_ in srcs]
        else:
            hi = length(srcs[0][0])
        for s in (srcs[1:] if not any(o is not None for o in offsets) and not (any(len(s_) > 2 for s_ in srcs) and len(srcs) > 1) else []):
            hi = usz({"k": "Call", "f": {"k": "Def", "dk": "Fn", "fn": "std::cmp::min", "id": self._id(), "ty": "fn", "sp": list(isp)}, "args": [hi, length(s[0])]})
        if take is not None:
            hi = usz({"k": "Call", "f": {"k": "Def", "dk": "Fn", "fn": "std::cmp::min", "id": self._id(), "ty": "fn", "sp": list(isp)}, "args": [hi, copy.deepcopy(take)]})
        lo = usz({"k": "Lit", "v": "0"}) if lo_extra is None else copy.deepcopy(lo_extra)
        rng = {"k": "Range", "lo": lo, "hi": hi, "incl": False, "id": self._id(), "ty": "std::ops::Range<usize>", "sp": list(isp)}
        new_iter = rng
        if rev:
            new_iter = {"k": "MethodCall", "name": "rev", "fn": "std::iter::Iterator::rev", "fn_local": False, "recv": rng, "args": [],
                        "id": self._id(), "ty": "std::iter::Rev<std::ops::Range<usize>>", "sp": list(isp)}
        body = f["body"]
        if body.get("k") != "Block":
            return
        bsp = body.get("sp") or sp
        lets = []
        for k_src, (src_, q) in enumerate(zip(srcs, elem_pats)):
            c, mutable = src_[0], src_[1]
            q2 = q["p"] if q.get("k") == "Ref" else q
            if q2.get("k") == "Wild":
                continue
            ety = q2.get("ty", "")
            ixe = usz({"k": "Local", "v": iv, "name": iname})
            if offsets[k_src] is not None:
                ixe = usz({"k": "Binary", "op": "+", "l": copy.deepcopy(offsets[k_src]), "r": ixe})
            idxn = {"k": "Index", "base": copy.deepcopy(c), "idx": ixe, "id": self._id(),
                    "ty": ety.lstrip("&").replace("mut ", "", 1).strip() if q.get("k") != "Ref" else ety, "sp": [bsp[0], bsp[1], bsp[0], bsp[1]]}
            init = idxn if q.get("k") == "Ref" else {"k": "AddrOf", "mut": bool(mutable), "e": idxn, "id": self._id(), "ty": ety, "sp": [bsp[0], bsp[1], bsp[0], bsp[1]]}
            if q.get("k") != "Ref" and not q2.get("mut"):
                # the binding IS a reference to X[i] (X is borrowed for the whole loop, i is the loop variable): transparent
                for u in [x for x in _walk(body) if x.get("k") == "Local" and x.get("v") == q2["v"]]:
                    c = copy.deepcopy(init)
                    for x in _walk(c):
                        if x.get("sp"):
                            x["sp"] = list(u.get("sp") or x["sp"])
                    u.clear()
                    u.update(c)
                continue
            lets.append({"k": "Let", "pat": q2, "init": init, "sp": [bsp[0], bsp[1] + 0.001 * (len(lets) + 1), bsp[0], bsp[1] + 0.001 * (len(lets) + 1)], "canon": "iter-elem"})
        body["stmts"] = lets + list(body.get("stmts", []))
        f["pat"] = {"k": "Bind", "v": iv, "name": iname, "mut": False, "byref": False, "ty": "usize"}
        f["iter"] = new_iter
        f["canon"] = "iterator-loop"
        self.stats["iterator_loops"] += 1

    def _windows_loop(self, f, it, enum):
        """for [(k,)] w in X.windows(c)  ->  for k in 0..len(X)-(c-1) with every w[d] (d literal) rewritten to X[k + d]."""
        w = _strip(it["args"][0])
        if w.get("k") != "Lit" or not str(w.get("v", "")).isdigit() or int(w["v"]) < 1:
            return
        width = int(w["v"])
        X = it["recv"]
        fnp = str(it.get("impl") or it.get("fn") or "")
        if "[T]" not in fnp and "slice" not in fnp:
            return
        pat = f["pat"]
        if enum:
            if pat.get("k") != "Tuple" or len(pat.get("ps", [])) != 2 or pat["ps"][0].get("k") != "Bind":
                return
            idx_pat, wpat = pat["ps"]
        else:
            idx_pat, wpat = None, pat
        if wpat.get("k") != "Bind":
            return
        wv = wpat["v"]
        body = f["body"]
        uses = [n for n in _walk(body) if n.get("k") == "Local" and n.get("v") == wv]
        idxs = []
        for n in _walk(body):
            if n.get("k") == "Index":
                b = n["base"]
                while b.get("k") in ("AddrOf",) or (b.get("k") == "Unary" and b.get("op") == "*"):
                    b = b["e"]
                if b.get("k") == "Local" and b.get("v") == wv:
                    d = _strip(n["idx"])
                    if d.get("k") != "Lit" or not str(d.get("v", "")).isdigit() or int(d["v"]) >= width:
                        return
                    idxs.append((n, int(d["v"])))
        if len(idxs) != len(uses):
            return              # the window is used other than by constant indexing
        isp = it.get("sp") or f.get("sp") or [0, 0, 0, 0]
        if idx_pat is not None:
            iv, iname = idx_pat["v"], idx_pat.get("name", "k")
        else:
            self.fresh += 1
            iv, iname = self.fresh, "__k"

        def usz(node):
            node.setdefault("ty", "usize")
            node.setdefault("id", self._id())
            node.setdefault("sp", list(isp))
            return node
        for n, d in idxs:
            sp = n.get("sp")
            ty = n.get("ty")
            loc_i = usz({"k": "Local", "v": iv, "name": iname, "sp": list(sp or isp)})
            new_idx = loc_i if d == 0 else usz({"k": "Binary", "op": "+", "l": loc_i, "r": usz({"k": "Lit", "v": str(d), "sp": list(sp or isp)}), "sp": list(sp or isp)})
            n["base"] = copy.deepcopy(X)
            for x in _walk(n["base"]):
                if x.get("sp"):
                    x["sp"] = list(sp or isp)
            n["idx"] = new_idx
            for key in ("fn", "fnargs", "targs", "impl", "impl_local", "fn_local"):
                n.pop(key, None)
        Xr = copy.deepcopy(X)
        Xr.pop("adj", None)
        ln = usz({"k": "MethodCall", "name": "len", "fn": "std::vec::Vec<T, A>::len", "impl": "std::vec::Vec<T, A>::len", "fn_local": False, "recv": Xr, "args": []})
        hi = ln if width == 1 else usz({"k": "Binary", "op": "-", "l": ln, "r": usz({"k": "Lit", "v": str(width - 1)})})
        f["pat"] = {"k": "Bind", "v": iv, "name": iname, "mut": False, "byref": False, "ty": "usize"}
        f["iter"] = {"k": "Range", "lo": usz({"k": "Lit", "v": "0"}), "hi": hi, "incl": False, "id": self._id(), "ty": "std::ops::Range<usize>", "sp": list(isp)}
        f["canon"] = "windows-loop"
        self.stats["iterator_loops"] += 1

    @staticmethod
    def _subrange(r):
        """X[a..b] / X[..b] / X[a..] / X[..]  ->  (X, lo node | None, hi node | None, inclusive)"""
        n = r
        while n.get("k") == "AddrOf" or (n.get("k") == "Unary" and n.get("op") == "*") or \
                (n.get("k") == "Block" and not n.get("stmts") and n.get("expr") is not None):
            n = n["e"] if n.get("k") != "Block" else n["expr"]
        if n.get("k") != "Index":
            return None
        ix = n["idx"]
        if ix.get("k") == "Range":
            return n["base"], ix.get("lo"), ix.get("hi"), bool(ix.get("incl"))
        if ix.get("k") == "Struct" and str(ix.get("path", "")).startswith("std::ops::Range"):
            fl = {f["name"]: f["e"] for f in ix.get("fields", [])}
            nm = ix["path"].split("::")[-1]
            if nm in ("RangeTo", "RangeFrom", "RangeFull", "Range"):
                return n["base"], fl.get("start"), fl.get("end"), False
            if nm == "RangeToInclusive":
                return n["base"], None, fl.get("end"), True
        return None

    @staticmethod
    def _container(it):
        """(container expr, mutable[, lo, hi, incl]) for X.iter() / X.iter_mut() / &X / &mut X over a Vec / slice,
        X possibly a sub-slice X0[a..b]."""
        k = it.get("k")
        if k == "MethodCall" and it.get("name") == "into_iter" and not it.get("args") and str(it["recv"].get("ty", "")).lstrip("&").replace("mut ", "").strip().startswith("std::vec::Vec<"):
            return it["recv"], False          # the Vec is consumed element by element, in order: element i is v[i]
        if k == "MethodCall" and it.get("name") in ("iter", "iter_mut") and not it.get("args"):
            fnp = str(it.get("impl") or it.get("fn") or "")
            if "[T]" in fnp or "slice" in fnp or "Vec" in fnp:
                sub = Canon._subrange(it["recv"])
                if sub is not None:
                    return sub[0], it["name"] == "iter_mut", sub[1], sub[2], sub[3]
                return it["recv"], it["name"] == "iter_mut"
            return None
        if k == "AddrOf":
            ty = str(it["e"].get("ty", ""))
            if ty.startswith("std::vec::Vec<") or ty.startswith("[") or ty.startswith("&std::vec::Vec<") or ty.startswith("&mut std::vec::Vec<"):
                return it["e"], bool(it.get("mut"))
        return None


def _same_place(a, b):
    a, b = _strip(a), _strip(b)
    ka, kb = a.get("k"), b.get("k")
    if ka != kb:
        return False
    if ka == "Local":
        return a.get("v") == b.get("v")
    if ka == "Field":
        return a.get("name") == b.get("name") and _same_place(a["e"], b["e"])
    if ka == "Index":
        return _same_place(a["base"], b["base"]) and _same_pure(a["idx"], b["idx"])
    if ka == "Unary" and a.get("op") == "*" and b.get("op") == "*":
        return _same_place(a["e"], b["e"])
    if ka == "AddrOf":
        return _same_place(a["e"], b["e"])
    return False


def _same_pure(a, b):
    a, b = _strip(a), _strip(b)
    if a.get("k") != b.get("k"):
        return False
    k = a.get("k")
    if k == "Lit":
        return a.get("v") == b.get("v")
    if k in ("Local", "Field", "Index", "AddrOf"):
        return _same_place(a, b)
    if k == "Tup":
        return len(a["es"]) == len(b["es"]) and all(_same_pure(x, y) for x, y in zip(a["es"], b["es"]))
    if k == "Binary":
        return a.get("op") == b.get("op") and not a.get("fn") and not b.get("fn") and _same_pure(a["l"], b["l"]) and _same_pure(a["r"], b["r"])
    if k == "Unary":
        return a.get("op") == b.get("op") and _same_pure(a["e"], b["e"])
    if k == "Cast":
        return a.get("ty") == b.get("ty") and _same_pure(a["e"], b["e"])
    if k == "MethodCall":
        return a.get("name") == b.get("name") and (a.get("impl") or a.get("fn")) == (b.get("impl") or b.get("fn")) and not a.get("args") and not b.get("args") \
            and a.get("name") in ("len", "size", "rows", "cols") and _same_pure(a["recv"], b["recv"])
    return False


def _is_builtin_num(binary):
    return not binary.get("fn") and str(binary.get("ty", "")) in ("usize", "isize", "i32", "i64", "u32", "u64", "f64", "f32", "u8", "u16", "i8", "i16", "u128", "i128")


def canonicalise(d, known=None):
    """Mutates the PDB dict in place; returns statistics."""
    c = Canon(d, known if known is not None else known_fns())
    for f in d["fns"]:
        c.run_fn(f)
    # helpers all of whose call sites were inlined are no longer analysed on their own
    for p, cnt in c.inlined_calls.items():
        if not c.kept_calls.get(p):
            c.fns[p]["inlined_everywhere"] = True
    st = dict(c.stats)
    st["inlined_helpers"] = sorted(c.inlined_calls)
    return st
