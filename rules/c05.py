"""C05 — tridiagonal matrix equals its dense twin; solve is exact or refuses."""
from .pdb import strip, walk, loc, ancestors
from .terms import Ctx, num, show, lin_add, lin_sub, lin_parts
from .common import (P, F, SIZE, LEN, effects, callee_path, call_args, ctor_summary, in_macro, OP_OF_TRAIT, forwards_to, canon_atom,
                     armed_bounds, effective_guards, is_zero_term, norm_cmp, diverges, GE, single_expr_body)
from .guards import facts, cond_atoms
from .guards import for_range as raw_for_range
from .common import for_range_total as for_range
from .algebra import SymExec, NotStraight

LEVEL = "other"
T = "tridiagonal::Tridiagonal<T>"
N = F(P(0), "n")
SUB, MAIN, SUP = F(P(0), "sub"), F(P(0), "main"), F(P(0), "sup")


def pos_of(diag, e):
    """(row, col) of element e of a diagonal."""
    if diag == "main":
        return (e, e)
    if diag == "sub":
        return (lin_add(e, num(1)), e)
    return (e, lin_add(e, num(1)))


def diag_of(t):
    """idx(self.<diag>, e) -> (diag, e)"""
    if t[0] == "idx" and t[1][0] == "field" and t[1][1] == P(0) and t[1][2] in ("sub", "main", "sup"):
        return t[1][2], t[2]
    if t[0] == "idx" and t[1][0] == "field" and t[1][2] == "vec" and t[1][1][0] == "field" and t[1][1][1] == P(0):
        return t[1][1][2], t[2]
    return None


INVARIANT = {SIZE(SUB): lin_add(N, num(-1)), SIZE(MAIN): N, SIZE(SUP): lin_add(N, num(-1))}


def _pos(n):
    sp = n.get("sp")
    return (sp[0], sp[1]) if sp else (0, 0)


def run(rep, pdb, tier):
    # ---- the solvers answer for every nonsingular system: their own panics depend on shapes (or an exactly-zero pivot) only
    from .c01 import rule_rejects_only_shapes
    rule_rejects_only_shapes(rep, pdb, [f_ for f_ in (pdb.fn("%s::%s" % (T, n_)) for n_ in ('solve', 'det')) if f_ is not None], floor=1)
    # ---- storage map
    maps = []
    for tr, name in (("std::ops::Index", "index"), ("std::ops::IndexMut", "index_mut")):
        path = "<%s as %s<(usize, usize)>>::%s" % (T, tr, name)
        fn = pdb.fn(path)
        key = "storage-map/%s" % name
        rule = "bounds guard, then i==j -> main[i], i==j+1 -> sub[j], i+1==j -> sup[i], else panic"
        if fn is None:
            rep.missing(key, rule, "function %s not found" % path)
            continue
        ctx = Ctx.for_fn(pdb, fn)
        i, j = F(P(1), "0"), F(P(1), "1")
        eff = effective_guards(pdb, fn)
        g_ok = GE(i, N) in eff and GE(j, N) in eff
        got = {}
        for s in fn["body"].get("stmts", []):
            e = strip(s.get("e") or {})
            if e.get("k") == "If" and e.get("else") is None:
                rets = [x for x in walk(e["then"]) if x.get("k") == "Ret"]
                if len(rets) == 1 and rets[0].get("e") is not None:
                    atoms = [canon_atom(a) for a in cond_atoms(ctx, e["cond"], True)]
                    d = diag_of(ctx.term(rets[0]["e"]))
                    if d is not None and len(atoms) == 1:
                        got[d[0]] = (atoms[0], d[1])
        tail_div = diverges(fn["body"].get("expr")) if fn["body"].get("expr") is not None else (fn["body"].get("stmts") and diverges(strip(fn["body"]["stmts"][-1].get("e") or {})))
        want = {"main": (canon_atom(norm_cmp("==", i, j)), {i, j}),
                "sub": (canon_atom(norm_cmp("==", i, lin_add(j, num(1)))), {j, lin_add(i, num(-1))}),
                "sup": (canon_atom(norm_cmp("==", lin_add(i, num(1)), j)), {i, lin_add(j, num(-1))})}
        if set(got) != set(want):
            # the same map written as one `if / else if / else { panic }` expression (or any mix): classify every way the function
            # returns a value by the equality known there
            from .common import return_paths
            got2, others, n_div = {}, 0, 0
            for fs_, val_, node_ in return_paths(ctx):
                if diverges(node_):
                    n_div += 1
                    continue
                d = diag_of(val_)
                cf = {canon_atom(f_) for f_ in fs_ if f_[0] == "cmp"}
                hit = [k for k in want if want[k][0] in cf]
                if d is not None and d[0] in hit:
                    got2[d[0]] = (want[d[0]][0], d[1])
                else:
                    others += 1
            if set(got2) == set(want) and not others:
                got = got2
                tail_div = tail_div or n_div >= 1
        ok = g_ok and bool(tail_div) and set(got) == set(want) and all(got[d][0] == want[d][0] and got[d][1] in want[d][1] for d in want)
        rep.add(key, rule, ok, fn["body"], "guards=%s branches=%s falls through to panic=%s" % (g_ok, sorted(got), bool(tail_div)), where=loc(fn["body"]))
        maps.append({d: (got[d][0]) for d in got})
    rep.add("storage-map/agree", "Index and IndexMut implement the same map", len(maps) == 2 and maps[0] == maps[1], None, "", where="src/tridiagonal.rs")
    # ---- convert
    fn = pdb.fn("%s::convert" % T)
    if fn is None:
        rep.missing("convert", "convert exists", "not found")
    else:
        ctx = Ctx.for_fn(pdb, fn)
        sets = [e for e in effects(pdb, ctx) if e.kind == "set" and e.index[0] == "tup"]
        k = 0
        for e in sets:
            d = diag_of(e.value)
            k += 1
            rule = "every assignment dense[(r,c)] = D[e] in convert satisfies (r,c) = pos(D,e) (sub[e] <-> (e+1,e), main[e] <-> (e,e), sup[e] <-> (e,e+1))"
            ok = d is not None and (e.index[1], e.index[2]) == pos_of(d[0], d[1])
            rep.add("convert/%s#%d" % (d[0] if d else "?", k), rule, ok, e.node, "dense[(%s,%s)] = %s" % (show(e.index[1], ctx), show(e.index[2], ctx), show(e.value, ctx)))
        # dense is n x n zeros
        tb = [b for b in ctx.binds.values() if b.kind == "let" and b.init is not None and ctx.term(b.init)[0] == "call" and str(ctx.term(b.init)[1]).endswith("Matrix<T>::new")]
        okz = len(tb) == 1 and ctx.term(tb[0].init)[2:4] == (N, N) and is_zero_term(ctx.term(tb[0].init)[4])
        rep.add("convert/shape", "the dense result is n x n zeros", okz, fn["body"], "", where=loc(fn["body"]))
    # ---- stencil
    path = "<&%s as std::ops::Mul<&vector::Vector<T>>>::mul" % T
    mul = pdb.fn(path)
    if mul is None:
        rep.missing("stencil", "&Tridiagonal * &Vector exists", "not found")
    else:
        ctx = Ctx.for_fn(pdb, mul)
        sets = [e for e in effects(pdb, ctx) if e.kind == "set"]
        k = 0
        rows_written = []
        for e in sets:
            prods = []

            def flat(t):
                if t[0] == "op" and t[1] == "+":
                    flat(t[2])
                    flat(t[3])
                else:
                    prods.append(t)
            flat(e.value)
            rows_written.append(e.index)
            for pr in prods:
                k += 1
                rule = "every product D[e]*vec[f] has f = col(pos(D,e)) and is accumulated (positively) into result[row(pos(D,e))]"
                ok = False
                det = show(pr, ctx)
                if pr[0] == "op" and pr[1] == "*":
                    d = diag_of(pr[2])
                    v = pr[3]
                    if d is not None and v[0] == "idx" and v[1] in (P(1), F(P(1), "vec")):
                        r, c = pos_of(d[0], d[1])
                        ok = v[2] == c and e.index == r
                rep.add("stencil/product#%d" % k, rule, ok, e.node, "result[%s] += %s" % (show(e.index, ctx), det))
        # rows covered: 0, 1..n-1 (loop), n-1   (or the single row when n == 1)
        loops = [n_ for n_ in walk(mul["body"]) if n_.get("k") == "For"]
        r = for_range(ctx, loops[0]) if len(loops) == 1 else None
        cover = r is not None and r[1] == num(1) and r[2] == lin_add(N, num(-1)) and not r[3] and num(0) in rows_written and lin_add(N, num(-1)) in rows_written and r[0] in rows_written
        rep.add("stencil/rows", "rows 0, 1..n-1 and n-1 are each written (first/last rows separately, interior by the loop)", cover, mul["body"], "rows written: %s" % [show(x, ctx) for x in rows_written], where=loc(mul["body"]))
    # ---- bounds (L, armed) with the struct invariant and the domain n >= 1
    dom = [norm_cmp("<=", num(1), N)]
    n_b = 0
    for p in ("%s::det" % T, "%s::convert" % T, path):
        f = pdb.fn(p)
        if f is None:
            rep.missing("bounds/%s" % p, "function exists", "not found")
            continue
        n_b += armed_bounds(rep, pdb, f, "bounds", extra_facts=dom, usize_terms=(N,), eqmap=INVARIANT,
                            only_bases=lambda bt: True)
    # struct invariant established by the constructors / resize
    for name in ("new", "with_elements"):
        f = pdb.fn("%s::%s" % (T, name))
        rule = "constructors establish len(main) = n, len(sub) = len(sup) = n-1"
        if f is None:
            rep.missing("invariant/%s" % name, rule, "not found")
            continue
        summ = ctor_summary(pdb, f)
        npar = [t for t in (summ or {}).values() if t[0] == "param"]
        ok = summ is not None and summ.get("n", ("x",))[0] == "param"
        if ok:
            nn = summ["n"]

            def vlen(t):
                return t[2] if t[0] == "call" and str(t[1]).endswith("Vector<T>::new") else None
            ok = vlen(summ["main"]) == nn and vlen(summ["sub"]) == lin_add(nn, num(-1)) and vlen(summ["sup"]) == lin_add(nn, num(-1))
        rep.add("invariant/%s" % name, rule, ok, f["body"], "", where=loc(f["body"]))
    for name, ln in (("with_vectors", SIZE), ("with_vecs", LEN)):
        f = pdb.fn("%s::%s" % (T, name))
        rule = "constructors from given diagonals reject unless len(sub) = len(sup) = len(main) - 1 and record n = len(main)"
        if f is None:
            rep.missing("invariant/%s" % name, rule, "not found")
            continue
        summ = ctor_summary(pdb, f)
        ok = summ is not None and summ.get("n") == ln(P(1))
        from .common import NE
        eff = effective_guards(pdb, f)
        ok = ok and NE(ln(P(0)), lin_add(ln(P(1)), num(-1))) in eff and NE(ln(P(2)), lin_add(ln(P(1)), num(-1))) in eff
        rep.add("invariant/%s" % name, rule, ok, f["body"], "", where=loc(f["body"]))
    f = pdb.fn("%s::resize" % T)
    rule = "resize(n) re-establishes the invariant: sub, sup get n-1 zeros, main gets n zeros, n is recorded"
    if f is None:
        rep.missing("invariant/resize", rule, "not found")
    else:
        c2 = Ctx.for_fn(pdb, f)
        asg = {e.target: e.value for e in effects(pdb, c2) if e.kind == "assign"}

        def vnew(t, ln):
            return t is not None and t[0] == "call" and str(t[1]).endswith("Vector<T>::new") and t[2] == ln and is_zero_term(t[3])
        ok = vnew(asg.get(SUB), lin_add(P(1), num(-1))) and vnew(asg.get(SUP), lin_add(P(1), num(-1))) and vnew(asg.get(MAIN), P(1)) and asg.get(N) == P(1)
        rep.add("invariant/resize", rule, ok, f["body"], "", where=loc(f["body"]))
    f = pdb.fn("%s::transpose" % T)
    rule = "transpose returns a clone of self transposed in place"
    if f is None:
        rep.missing("transpose/by-value", rule, "not found")
    else:
        c2 = Ctx.for_fn(pdb, f)
        calls = [n_ for n_ in walk(f["body"]) if n_.get("k") == "MethodCall" and callee_path(n_) == "%s::transpose_in_place" % T]
        tail = f["body"].get("expr")
        ok = len(calls) == 1 and tail is not None
        if ok:
            recv = c2.term(calls[0]["recv"])
            ok = recv[0] == "var" and c2.def_term(recv) == P(0) and c2.term(tail) == recv
        rep.add("transpose/by-value", rule, ok, f["body"], "", where=loc(f["body"]))
    f = pdb.fn("tridiagonal::Tridiagonal<complex::Complex<T>>::conj")
    rule = "conj conjugates each of the three diagonals, pairing like with like, and keeps n"
    if f is None:
        rep.missing("operators/conj", rule, "not found")
    else:
        summ = ctor_summary(pdb, f)
        cj = "vector::Vector<complex::Complex<T>>::conj"
        ok = summ is not None and summ.get("n") == N and all(summ.get(d) == ("call", cj, F(P(0), d)) for d in ("sub", "main", "sup"))
        rep.add("operators/conj", rule, ok, f["body"], "", where=loc(f["body"]))
    # ---- refuse (D)
    sv = pdb.fn("%s::solve" % T)
    if sv is None:
        rep.missing("refuse", "solve exists", "not found")
    else:
        ctx = Ctx.for_fn(pdb, sv)
        divs = [n_ for n_ in walk(sv["body"]) if n_.get("k") in ("Binary", "AssignOp") and n_.get("op") in ("/", "/=") and not in_macro(n_)]
        divisors = {ctx.term(d["r"]) for d in divs}
        rule = "in solve every division has the pivot variable as divisor, and every definition of that variable is followed, before any division by it, by `if <that value> == zero { panic }`"
        ok, det = len(divisors) == 1 and list(divisors)[0][0] == "var", "divisors=%s" % [show(d, ctx) for d in divisors]
        if ok:
            beta = list(divisors)[0]
            b = ctx.binds.get(beta[1])
            defs = []
            if b is not None and b.node is not None:
                defs.append((b.node, ctx.term(b.init)))
            for a in ctx.assigns.get(beta[1], []):
                st = a.get("_p")
                defs.append((st, ctx.term(a["r"])))
            bad = []
            for st, val in defs:
                blk = st.get("_p")
                stmts = blk.get("stmts", [])
                idx = [i for i, s in enumerate(stmts) if s is st]
                guarded = False
                if idx and val[0] not in ("var", "num"):
                    # the value was tested just before it was stored (`let pivot = ..; if pivot == zero { panic }; beta = pivot;`: the immutable
                    # name is inlined, so the guard and the assignment carry the same term)
                    for s in reversed(stmts[:idx[0]]):
                        e = strip(s.get("e") or s.get("init") or {})
                        if e.get("k") == "If" and diverges(e["then"]) and e.get("else") is None:
                            atoms = cond_atoms(ctx, e["cond"], True)
                            if len(atoms) == 1 and atoms[0][0] == "cmp" and atoms[0][1] == "==" and val in (atoms[0][2], atoms[0][3]) and \
                                    (is_zero_term(atoms[0][2]) or is_zero_term(atoms[0][3])):
                                guarded = True
                            break
                        if any(x.get("k") in ("For", "While", "Loop") for x in walk(s)):
                            break
                if idx and not guarded:
                    for s in stmts[idx[0] + 1:]:
                        e = strip(s.get("e") or s.get("init") or {})
                        if e.get("k") == "If" and diverges(e["then"]) and e.get("else") is None:
                            atoms = cond_atoms(ctx, e["cond"], True)
                            if len(atoms) == 1 and atoms[0][0] == "cmp" and atoms[0][1] == "==":
                                a_, b_ = atoms[0][2], atoms[0][3]
                                tested = b_ if is_zero_term(a_) else (a_ if is_zero_term(b_) else None)
                                if tested is not None and tested in (beta, val):
                                    guarded = True
                                    break
                        uses_div = any(x.get("k") in ("Binary", "AssignOp") and x.get("op") in ("/", "/=") and ctx.term(x["r"]) == beta for x in walk(s))
                        if uses_div:
                            break
                if not guarded:
                    bad.append("definition at %s (value %s) reaches a division unguarded" % (loc(st), show(val, ctx)))
            ok = not bad and len(defs) >= 2
            det += "; definitions=%d %s" % (len(defs), bad)
        rep.add("refuse/solve", rule, ok, sv["body"], det, where=loc(sv["body"]))
        # ... and refuses ONLY then: every panic of solve is the entry size guard or a zero test of the pivot value
        if len(divisors) == 1 and list(divisors)[0][0] == "var":
            beta = list(divisors)[0]
            vals = {beta}
            b = ctx.binds.get(beta[1])
            if b is not None and b.init is not None:
                vals.add(ctx.term(b.init))
            for a in ctx.assigns.get(beta[1], []):
                vals.add(ctx.term(a["r"]))
            bad = []
            n_p = 0
            for n_ in walk(sv["body"]):
                if n_.get("k") == "If" and n_.get("else") is None and diverges(n_["then"]) and not any(x.get("k") == "Ret" for x in walk(n_["then"])):
                    n_p += 1
                    atoms = cond_atoms(ctx, n_["cond"], True)
                    okp = False
                    if len(atoms) == 1 and atoms[0][0] == "cmp" and atoms[0][1] == "==":
                        a_, b_ = atoms[0][2], atoms[0][3]
                        tested = b_ if is_zero_term(a_) else (a_ if is_zero_term(b_) else None)
                        okp = tested in vals
                    if len(atoms) == 1 and atoms[0][0] == "cmp" and atoms[0][1] == "!=" and canon_atom(atoms[0]) == canon_atom(norm_cmp("!=", N, SIZE(P(1)))):
                        okp = True     # the entry size guard
                    if not okp:
                        # a consistency check of the receiver's own diagonal lengths that the struct invariant (len(main) = n,
                        # len(sub) = len(sup) = n - 1, established by every constructor: bounds/*) refutes can never fire
                        from .common import subst_term
                        from .terms import lin_sub as _ls
                        alts = cond_atoms(ctx, n_["cond"], True)
                        flat = []
                        def _fl(xs):
                            for at in xs:
                                if isinstance(at, (list,)):
                                    yield from _fl(at)
                                elif at[0] in ("or", "and"):
                                    yield from _fl(at[1])
                                else:
                                    yield at
                        flat = list(_fl(alts))
                        for at in []:
                            pass
                        dead = bool(flat)
                        for at in flat:
                            if at[0] != "cmp" or at[1] not in ("!=", "<", ">"):
                                dead = False
                                break
                            d_ = _ls(subst_term(at[2], INVARIANT), subst_term(at[3], INVARIANT))
                            if not (d_[0] == "num" and d_[1] == 0):
                                dead = False
                                break
                        okp = dead
                    if not okp:
                        bad.append("panic at %s is not a zero test of the pivot" % loc(n_))
            rep.add("refuse/only-zero-pivot", "solve refuses only for a mismatched size or when the pivot value itself is zero (a zero diagonal entry alone is not a zero pivot)",
                    not bad and n_p >= 3, sv["body"], "panic guards=%d %s" % (n_p, bad), where=loc(sv["body"]))
        rep.add("refuse/divisions", "solve contains the three divisions of the Thomas algorithm", len(divs) == 3, sv["body"], "divisions=%d" % len(divs), where=loc(sv["body"]))
    # ---- transpose (A)
    tp = pdb.fn("%s::transpose_in_place" % T)
    rule = "after transpose_in_place: sub = old sup, sup = old sub, main untouched"
    if tp is None:
        rep.missing("transpose", rule, "not found")
    else:
        ex = SymExec(pdb, tp)
        try:
            ex.run()
            s1, s2 = ex.read(SUB), ex.read(SUP)
            ok = s1 == ("in", SUP) and s2 == ("in", SUB) and MAIN not in ex.written and N not in ex.written
            det = "sub := %s, sup := %s, written=%s" % (s1, s2, ex.written)
        except NotStraight as e:
            ok, det = False, str(e)
        rep.add("transpose", rule, ok, tp["body"], det, where=loc(tp["body"]), proof=True)
    # ---- det recurrence
    dt = pdb.fn("%s::det" % T)
    rule = "f[0]=1, f[1]=main[0]*f[0], f[j]=main[j-1]*f[j-1] - sub[j-2]*sup[j-2]*f[j-2] for j in 2..=n, result f[n] (modulo commutativity; the off-diagonal factors are the transposed pair)"
    if dt is None:
        rep.missing("det-recurrence", rule, "not found")
    else:
        ctx = Ctx.for_fn(pdb, dt)
        sets = [e for e in effects(pdb, ctx) if e.kind == "set"]
        from .algebra import comm
        ok, det = len(sets) == 3, "assignments to f: %d" % len(sets)
        if ok:
            f = sets[0].target
            byidx = {e.index: e for e in sets if not e.loops}
            lp = [e for e in sets if e.loops]
            ok = num(0) in byidx and num(1) in byidx and len(lp) == 1
            if ok:
                from .common import is_zero_term as _z
                one = byidx[num(0)].value[0] == "call" and str(byidx[num(0)].value[1]).endswith("One::one")
                f1 = byidx[num(1)].value

                def m(t, e):
                    return ("idx", t, e)

                def tree(t):
                    # terms -> comparable trees modulo commutativity of * and +
                    if t[0] == "op":
                        a, b = tree(t[2]), tree(t[3])
                        if t[1] in ("+", "*") and repr(a) > repr(b):
                            a, b = b, a
                        return ("op", t[1], a, b)
                    return t
                okf1 = tree(f1) == tree(("op", "*", m(MAIN, num(0)), m(f, num(0))))
                e = lp[0]
                r = for_range(ctx, e.loops[0])
                j = r[0]
                jm1, jm2 = lin_add(j, num(-1)), lin_add(j, num(-2))
                w1 = ("op", "-", ("op", "*", m(MAIN, jm1), m(f, jm1)), ("op", "*", ("op", "*", m(SUB, jm2), m(SUP, jm2)), m(f, jm2)))
                v = e.value
                okr = e.index == j and v[0] == "op" and v[1] == "-" and tree(v[2]) == tree(w1[2])
                # the subtracted product: three factors {sub[j-2], sup[j-2], f[j-2]} in any association
                facs = []

                def fl(t):
                    if t[0] == "op" and t[1] == "*":
                        fl(t[2])
                        fl(t[3])
                    else:
                        facs.append(t)
                if okr:
                    fl(v[3])
                    okr = sorted(facs, key=repr) == sorted([m(SUB, jm2), m(SUP, jm2), m(f, jm2)], key=repr)
                rng = r[1] == num(2) and (r[2] == lin_add(N, num(1)) and not r[3] or r[2] == N and r[3])
                tail = dt["body"].get("expr")
                ret = tail is not None and ctx.term(tail) == ("idx", f, N)
                fb = ctx.binds.get(f[1]) if f[0] == "var" else None
                fi = ctx.term(fb.init) if fb is not None and fb.init is not None else None
                flen = fi is not None and fi[0] == "call" and str(fi[1]).endswith("Vector<T>::new") and fi[2] == lin_add(N, num(1))
                ok = one and okf1 and okr and rng and ret and flen
                det = "f[0]=one:%s f[1]:%s recurrence:%s j in 2..=n:%s returns f[n]:%s f has n+1 entries:%s" % (one, okf1, okr, rng, ret, flen)
        if not ok and not sets:
            # the same three-term recurrence on two rolling scalars: prev = one, cur = main[0]*prev; for j in 2..=n { next = main[j-1]*cur - sub[j-2]*sup[j-2]*prev;
            # prev = cur; cur = next }; result cur (only the last two minors are kept)
            effs_ = effects(pdb, ctx)
            asg = [e for e in effs_ if e.kind == "assign" and e.loops and e.target[0] == "var"]
            if len(asg) == 2:
                a_first, a_second = sorted(asg, key=lambda e_: _pos(e_.node))
                prev, cur = a_first.target, a_second.target
                r = for_range(ctx, a_first.loops[0])
                if r is not None and a_first.value == cur and a_first.loops == a_second.loops:
                    j = r[0]
                    jm1, jm2 = lin_add(j, num(-1)), lin_add(j, num(-2))
                    nxt = a_second.value
                    if nxt[0] == "var" and ctx.def_term(nxt) is not None:
                        nxt = ctx.def_term(nxt)

                    def tree2(t):
                        if t[0] == "op":
                            a, b = tree2(t[2]), tree2(t[3])
                            if t[1] in ("+", "*") and repr(a) > repr(b):
                                a, b = b, a
                            return ("op", t[1], a, b)
                        return t
                    facs2 = []

                    def fl2(t):
                        if t[0] == "op" and t[1] == "*":
                            fl2(t[2])
                            fl2(t[3])
                        else:
                            facs2.append(t)
                    okr = nxt[0] == "op" and nxt[1] == "-" and tree2(nxt[2]) == tree2(("op", "*", ("idx", MAIN, jm1), cur))
                    if okr:
                        fl2(nxt[3])
                        okr = sorted(facs2, key=repr) == sorted([("idx", SUB, jm2), ("idx", SUP, jm2), prev], key=repr)
                    # the value of `next` must be formed before prev / cur are shifted
                    nb_ = ctx.binds.get(a_second.value[1]) if a_second.value[0] == "var" else None
                    order = nb_ is not None and _pos(nb_.node) < _pos(a_first.node) < _pos(a_second.node)
                    pb_, cb_ = ctx.binds.get(prev[1]), ctx.binds.get(cur[1])
                    pi_ = ctx.term(pb_.init) if pb_ is not None and pb_.init is not None else None
                    ci_ = ctx.term(cb_.init) if cb_ is not None and cb_.init is not None else None
                    one = pi_ is not None and pi_[0] == "call" and str(pi_[1]).endswith("One::one")
                    okf1 = ci_ is not None and tree2(ci_) in (tree2(("op", "*", ("idx", MAIN, num(0)), prev)), tree2(("op", "*", ("idx", MAIN, num(0)), pi_)))
                    rng = r[1] == num(2) and (r[2] == lin_add(N, num(1)) and not r[3] or r[2] == N and r[3]) and not r[4]
                    tail = dt["body"].get("expr")
                    ret = tail is not None and ctx.term(tail) == cur
                    ok = bool(one and okf1 and okr and order and rng and ret)
                    det = "rolling pair: prev=one:%s cur=main[0]*prev:%s recurrence:%s next formed before the shift:%s j in 2..=n:%s returns cur:%s" % (one, okf1, okr, order, rng, ret)
        rep.add("det-recurrence", rule, ok, dt["body"], det, where=loc(dt["body"]), proof=True)
    # ---- operators
    n_ops = 0
    for fn in pdb.local_fns():
        tr = fn.get("impl_trait")
        from .common import involves_adt
        if not (fn["file"] == "src/tridiagonal.rs" or involves_adt(fn, "tridiagonal::Tridiagonal")) or tr not in OP_OF_TRAIT:
            continue
        args = fn.get("impl_trait_args", [])
        rhs = args[1] if len(args) > 1 else None
        if rhs is not None and "Vector" in rhs:
            continue
        ctx = Ctx.for_fn(pdb, fn)
        want = OP_OF_TRAIT[tr]
        key = "operators/%s" % fn["path"]
        rule = "the operator applies the trait's own operator to each of the three diagonals, pairing like with like, and keeps n"
        n_ops += 1
        scalar_left = fn["impl_self"] == "f64"
        tri = P(1) if scalar_left else P(0)
        other = P(0) if scalar_left else P(1)
        if tr.endswith("Assign"):
            effs = [x for x in effects(pdb, ctx) if x.kind == "assignop"]
            got = {e.target: (e.op.rstrip("="), e.value) for e in effs}
            ok = len(effs) == 3 and all(got.get(F(P(0), d)) == (want, P(1)) for d in ("sub", "main", "sup"))
            rep.add(key, rule, ok, fn["body"], "", where=loc(fn["body"]))
            continue
        summ = ctor_summary(pdb, fn)
        ok = summ is not None and summ.get("n") == F(tri, "n")
        det = ""
        if ok:
            for d in ("sub", "main", "sup"):
                c = summ.get(d)
                if want == "neg":
                    g = c == ("neg", F(tri, d))
                elif rhs is not None and "Tridiagonal" in rhs and not scalar_left:
                    g = c == ("op", want, F(P(0), d), F(P(1), d))
                elif scalar_left:
                    g = c in (("op", want, other, F(tri, d)), ("op", want, F(tri, d), other))
                else:
                    g = c == ("op", want, F(P(0), d), P(1))
                ok = ok and g
                det += "%s:=%s " % (d, show(c, ctx) if c else None)
        rep.add(key, rule, ok, fn["body"], det, where=loc(fn["body"]))
    rep.floor("storage-map/", 3)
    rep.floor("convert/", 8)
    rep.floor("stencil/", 8)
    rep.floor("bounds/", 24)
    rep.floor("invariant/", 5)
    rep.floor("refuse/", 3)
    rep.floor("operators/", 10)
    rep.assumptions += ["the property's domain n >= 1 (Tridiagonal::new(0) underflows and is outside it)",
                        "struct invariant len(main)=n, len(sub)=len(sup)=n-1 (established by the four constructors and resize, checked by invariant/*)",
                        "exactness of solve when no zero pivot occurs and backward stability are numerical and not decided statically"]
    return {"operator_impls": n_ops, "bounds_obligations": n_b}
