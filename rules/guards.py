"""G — guard environment, L — single-fact linear prover.

facts(ctx, node) returns the atomic comparisons known to hold when `node` is evaluated:
enclosing `if`/`else` branches, preceding `if c { <diverges> }` statements in every enclosing
block, `for` ranges, `while` conditions.  A branch "diverges" iff rustc typed it `!`
(panic!, return, break, continue).  Facts are ('cmp', op, lhs_term, rhs_term) with op in
== != < <=  (> and >= are flipped), or ('or', [alternatives...]) for undecomposable disjunctions.
Facts that mention a mutable local are dropped if that local is (re)assigned anywhere after the
fact's origin and before the node (conservatively: anywhere in the function outside its
initialiser, unless the assignment is textually after the node).
"""
from fractions import Fraction

from .pdb import ancestors, children, walk, strip, parent
from .terms import Ctx, lin_sub, lin_add, lin_parts, mk_lin, num, is_num, const_of, base_ty, ty_of, INT_TYS

FLIP = {"<": ">", ">": "<", "<=": ">=", ">=": "<=", "==": "==", "!=": "!="}
NEG = {"<": ">=", ">": "<=", "<=": ">", ">=": "<", "==": "!=", "!=": "=="}


def diverges(n):
    """True iff evaluating n never falls through (rustc gave it type `!`)."""
    n = strip(n)
    if n.get("ty") == "!":
        return True
    if n.get("k") in ("Ret", "Break", "Continue"):
        return True
    if n.get("k") == "Block":
        for s in n.get("stmts", []):
            e = s.get("e") or s.get("init")
            if e is not None and diverges(e):
                return True
        if n.get("expr") is not None:
            return diverges(n["expr"])
    return False


def cond_atoms(ctx, c, pol=True, subst=None):
    """Normalise condition node c (taken with polarity pol) into a list of facts (conjunction)."""
    c = strip(c)
    k = c.get("k")
    if k == "Unary" and c.get("op") == "!":
        return cond_atoms(ctx, c["e"], not pol, subst)
    if k == "Binary":
        op = c["op"]
        if op == "&&":
            if pol:
                return cond_atoms(ctx, c["l"], True, subst) + cond_atoms(ctx, c["r"], True, subst)
            alts = [cond_atoms(ctx, c["l"], False, subst), cond_atoms(ctx, c["r"], False, subst)]
            return [("or", alts)]
        if op == "||":
            if not pol:
                return cond_atoms(ctx, c["l"], False, subst) + cond_atoms(ctx, c["r"], False, subst)
            alts = [cond_atoms(ctx, c["l"], True, subst), cond_atoms(ctx, c["r"], True, subst)]
            return [("or", alts)]
        if op in ("==", "!="):
            # tuple equality is the element-wise conjunction: `(&a, &b) == (&c, &d)` is `a == c && b == d`
            l0, r0 = strip(c["l"]), strip(c["r"])
            while l0.get("k") == "AddrOf":
                l0 = strip(l0["e"])
            while r0.get("k") == "AddrOf":
                r0 = strip(r0["e"])
            if l0.get("k") == "Tup" and r0.get("k") == "Tup" and len(l0.get("es", [])) == len(r0.get("es", [])) >= 1:
                want_eq = (op == "==") == bool(pol)
                parts = []
                for x_, y_ in zip(l0["es"], r0["es"]):
                    xa, ya = x_, y_
                    while strip(xa).get("k") == "AddrOf":
                        xa = strip(xa)["e"]
                    while strip(ya).get("k") == "AddrOf":
                        ya = strip(ya)["e"]
                    parts.append(norm_cmp("==" if want_eq else "!=", ctx.term(xa, subst), ctx.term(ya, subst), overloaded=c.get("fn")))
                if want_eq:
                    return parts
                return [("or", [[p_] for p_ in parts])]
        if op in NEG:
            a = ctx.term(c["l"], subst)
            b = ctx.term(c["r"], subst)
            if not pol:
                # not(a < b) is `a >= b` only for totally ordered operands.  For floats (NaN) and for a generic
                # PartialOrd element type the negation of an ORDERED comparison is kept as such ('ncmp'): it must
                # not be mistaken for the flipped comparison.  == / != negate exactly for every type.
                lt = base_ty(ty_of(c["l"]))
                if op in ("<", "<=", ">", ">=") and lt not in INT_TYS and lt not in ("bool", "char"):
                    if op in (">", ">="):
                        op, a, b = FLIP[op], b, a
                    return [("ncmp", op, a, b)]
                op = NEG[op]
            return [norm_cmp(op, a, b, overloaded=c.get("fn"))]
    if k == "MethodCall" and c.get("name") == "is_empty" and not c.get("args"):
        # v.is_empty() on a Vec / slice / str is len(v) == 0
        p_ = str(c.get("impl") or c.get("fn") or "")
        if p_.startswith("std::vec::Vec") or p_.startswith("[T]::") or "slice" in p_:
            return [norm_cmp("==" if pol else "!=", ("len", ctx.term(c["recv"], subst)), num(0))]
    if k == "MethodCall" and c.get("name") in ("is_err", "is_ok") and not c.get("args") and subst is None:
        # X.f().is_err() with f a local `if c { Err } else { Ok }` function is c (in the caller's terms)
        from .terms import err_condition
        r_ = strip(c["recv"])
        if r_.get("k") in ("MethodCall", "Call"):
            p_ = (r_.get("impl") or r_.get("fn")) if r_.get("k") == "MethodCall" else ((r_["f"].get("impl") or r_["f"].get("fn")) if r_["f"].get("k") == "Def" else None)
            cf = ctx.pdb.fn(p_) if p_ else None
            ec = err_condition(ctx.pdb, cf) if cf is not None else None
            if ec is not None:
                args = ([r_["recv"]] + list(r_.get("args", []))) if r_.get("k") == "MethodCall" else list(r_.get("args", []))
                sub = {("param", i): ctx.term(a) for i, a in enumerate(args)}
                cc = Ctx.for_fn(ctx.pdb, cf)
                want_err = (c.get("name") == "is_err") == bool(pol)
                return cond_atoms(cc, ec, want_err, sub)
    if k == "Local" and subst is None:
        # a named condition: `let bad = a || b; if bad {..}`  (immutable, nothing it reads changes in between)
        b = ctx.binds.get(c["v"])
        if b is not None and b.kind == "let" and not b.mut and b.init is not None and not b.proj and b.v not in ctx.addr_mut:
            if ctx._let_inlinable(b, ctx.term(b.init), c):
                return cond_atoms(ctx, b.init, pol, subst)
    if k in ("MethodCall", "Call"):
        # a predicate method that is one pure comparison (`x.is_zero()` = `*self == Self::zero()`): the comparison itself
        from .terms import is_simple_fn
        p_ = (c.get("impl") or c.get("fn")) if k == "MethodCall" else ((c["f"].get("impl") or c["f"].get("fn")) if c.get("f", {}).get("k") == "Def" else None)
        cf = ctx.pdb.fn(p_) if p_ else None
        if cf is not None and is_simple_fn(ctx.pdb, cf) and str(cf.get("output")) == "bool":
            body = strip(cf["body"])
            while body.get("k") == "Block" and not body.get("stmts") and body.get("expr") is not None:
                body = strip(body["expr"])
            if body.get("k") in ("Binary", "Unary"):
                args = ([c["recv"]] + list(c.get("args", []))) if k == "MethodCall" else list(c.get("args", []))
                sub = {("param", i): ctx.term(a, subst) for i, a in enumerate(args)}
                return cond_atoms(Ctx.for_fn(ctx.pdb, cf), body, pol, sub)
    t = ctx.term(c, subst)
    return [("bool", t, pol)]


def norm_cmp(op, a, b, overloaded=None):
    if op in (">", ">="):
        op, a, b = FLIP[op], b, a
    if op in ("==", "!="):
        if repr(a) > repr(b):
            a, b = b, a
    return ("cmp", op, a, b) if not overloaded else ("cmp", op, a, b, overloaded)


def _origin_block_facts(ctx, block, upto):
    """Facts established by statements of `block` that precede child `upto`."""
    out = []
    for s in block.get("stmts", []):
        if s is upto:
            break
        e = s.get("e")
        if e is None:
            e = s.get("init") if s.get("k") == "Let" else None
            if e is None:
                continue
        e = strip(e)
        if e.get("k") == "If":
            out.extend(_if_stmt_facts(ctx, e))
        else:
            out.extend(_result_guard_facts(ctx, e, s))
    return out


def _result_guard_facts(ctx, e, origin):
    """`match X.f() { Ok(v) => .., Err(_) => <diverges> }` / `X.f()?` as (part of) a statement: past it the call did
    not return Err, so the negation of f's Err condition holds (f a local fn of the form `if c { Err } else { Ok }`)."""
    from .terms import err_condition
    out = []
    calls = []
    if e.get("k") == "Match" and len(e.get("arms", [])) == 2:
        arms = e["arms"]
        for a, b in ((arms[0], arms[1]), (arms[1], arms[0])):
            pa = a["pat"]
            if pa.get("k") in ("TupleStruct", "Struct") and str(pa.get("path", "")).endswith("Err") and diverges(a["body"]) and not diverges(b["body"]):
                calls.append(strip(e["scrut"]))
    elif e.get("k") == "Try":
        calls.append(strip(e["e"]))
    for c in calls:
        if c.get("k") not in ("MethodCall", "Call"):
            continue
        p = (c.get("impl") or c.get("fn")) if c.get("k") == "MethodCall" else ((c["f"].get("impl") or c["f"].get("fn")) if c["f"].get("k") == "Def" else None)
        cf = ctx.pdb.fn(p) if p else None
        if cf is None:
            continue
        cond = err_condition(ctx.pdb, cf)
        if cond is None:
            continue
        args = ([c["recv"]] + list(c.get("args", []))) if c.get("k") == "MethodCall" else list(c.get("args", []))
        sub = {("param", i): ctx.term(a) for i, a in enumerate(args)}
        cc = Ctx.for_fn(ctx.pdb, cf)
        out.extend((f, origin) for f in cond_atoms(cc, cond, False, sub))
    return out


def _if_stmt_facts(ctx, e):
    """`if c {diverge}` => !c ;  `if a {..} else if b {..} else {diverge}` => a || b."""
    out = []
    then, els = e["then"], e.get("else")
    if diverges(then) and (els is None or not diverges(els)):
        out.extend((f, e) for f in cond_atoms(ctx, e["cond"], False))
        return out
    # chain of non-diverging arms closed by a diverging else: one of the arm conditions held
    alts = []
    cur = e
    while True:
        if diverges(cur["then"]):
            return out
        alts.append(cond_atoms(ctx, cur["cond"], True))
        nxt = cur.get("else")
        if nxt is None:
            return out
        nxt = strip(nxt)
        if nxt.get("k") == "If":
            cur = nxt
            continue
        if diverges(nxt):
            break
        return out
    if len(alts) == 1:
        out.extend((f, e) for f in alts[0])
    else:
        out.append((("or", alts), e))
    return out


def facts(ctx, node, with_origin=False):
    """All facts known at `node` (a list of fact tuples; with origins if requested)."""
    out = []
    child = node
    for p in ancestors(node):
        k = p.get("k")
        if k == "If":
            if child is p.get("then"):
                out.extend((f, p) for f in cond_atoms(ctx, p["cond"], True))
            elif child is p.get("else"):
                out.extend((f, p) for f in cond_atoms(ctx, p["cond"], False))
        elif k == "Block":
            out.extend(_origin_block_facts(ctx, p, child))
        elif k == "For" and child is p.get("body"):
            out.extend((f, p) for f in for_facts(ctx, p))
        elif k == "While" and child is p.get("body"):
            out.extend((f, p) for f in cond_atoms(ctx, p["cond"], True))
        elif k in ("Semi", "Expr", "Let"):
            pass
        child = p
    out = [(f, o) for (f, o) in out if _stable(ctx, f, o, node)]
    if with_origin:
        return out
    return [f for f, _ in out]


def for_range(ctx, fornode):
    """(var_term, lo_term, hi_term, inclusive, reversed) of `for v in lo..hi` (or None)."""
    if fornode.get("k") != "For" or fornode.get("iter") is None:
        return None
    it = strip(fornode["iter"])
    rev = False
    while it.get("k") == "MethodCall" and it.get("name") == "rev":
        rev = not rev
        it = strip(it["recv"])
    if it.get("k") != "Range":
        return None
    pat = fornode["pat"]
    hi = _known_len(ctx, _collapse_min(ctx, ctx.term(it["hi"]), fornode))
    if pat.get("k") == "Wild":
        return (("wild", fornode.get("id")), ctx.term(it["lo"]), hi, bool(it.get("incl")), rev)
    if pat.get("k") != "Bind":
        return None
    return (("var", pat["v"]), ctx.term(it["lo"]), hi, bool(it.get("incl")), rev)


_cm_busy = set()


def _known_len(ctx, t):
    """len(v) for a local `let [mut] v = vec![x; n]` that is only ever written element-wise is n."""
    if t[0] == "len" and t[1][0] == "field" and t[1][1][0] == "var":
        # len(v.<field>) for a local struct v built by a constructor whose summary gives the field as vec![x; n]
        b = ctx.binds.get(t[1][1][1])
        if b is not None and b.kind == "let" and b.init is not None and not b.proj:
            it = ctx.term(b.init)
            if it[0] == "call" and all(mode == "elem" for (path_, mode), _ in ctx.mutations.get(t[1][1], [])):
                try:
                    from .common import ctor_summary, subst_term
                    cf = ctx.pdb.fn(it[1])
                    summ = ctor_summary(ctx.pdb, cf) if cf is not None else None
                    fv = summ.get(t[1][2]) if summ else None
                    if fv is not None:
                        fv = subst_term(fv, {("param", i): a for i, a in enumerate(it[2:])})
                        if fv[0] == "call" and str(fv[1]).endswith("from_elem") and len(fv) == 4:
                            return fv[3]
                except Exception:
                    pass
    if t[0] == "len" and t[1][0] == "var":
        b = ctx.binds.get(t[1][1])
        if b is not None and b.kind == "let" and b.init is not None and not b.proj:
            it = ctx.term(b.init)
            if it[0] == "call" and str(it[1]).endswith("from_elem") and len(it) == 4:
                if all(kind == ((), "elem") for kind, _ in ctx.mutations.get(t[1], [])):
                    return it[3]
    return t


def _collapse_min(ctx, hi, fornode):
    """min(a, b) is a when a guard in force at the loop establishes a == b (zip of two equally long containers)."""
    if not (hi[0] == "call" and str(hi[1]).endswith("::min") and len(hi) == 4):
        return hi
    key = id(fornode)
    if key in _cm_busy:
        return hi
    _cm_busy.add(key)
    try:
        a, b = _collapse_min(ctx, hi[2], fornode), _collapse_min(ctx, hi[3], fornode)
        if a == b:
            return a
        # constant difference (lengths of locals built by vec![x; n] and only written element-wise are n)
        ra, rb = _known_len(ctx, a), _known_len(ctx, b)
        dc, da = lin_parts(lin_sub(ra, rb))
        if not da:
            return a if dc <= 0 else b
        for f in facts(ctx, fornode):
            if f[0] == "cmp" and f[1] == "==" and {f[2], f[3]} == {a, b}:
                return a
        return ("call", hi[1], a, b)
    finally:
        _cm_busy.discard(key)


def for_facts(ctx, fornode):
    r = for_range(ctx, fornode)
    if r is None:
        return []
    v, lo, hi, incl, _ = r
    out = []
    for l in _max_parts(lo):
        out.append(norm_cmp("<=", l, v))
    for h in _min_parts(hi):
        out.append(norm_cmp("<=" if incl else "<", v, h))
    return out


def _min_parts(t):
    """hi = min(a, b)  =>  v < a and v < b"""
    if t[0] == "call" and str(t[1]).endswith("::min") and len(t) == 4:
        return _min_parts(t[2]) + _min_parts(t[3])
    return [t]


def _max_parts(t):
    if t[0] == "call" and str(t[1]).endswith("::max") and len(t) == 4:
        return _max_parts(t[2]) + _max_parts(t[3])
    return [t]


def term_vars(t, acc=None):
    if acc is None:
        acc = set()
    if isinstance(t, tuple):
        if t and t[0] == "var":
            acc.add(t[1])
        else:
            for x in t:
                if isinstance(x, tuple):
                    term_vars(x, acc)
    return acc


def fact_terms(f):
    if f[0] in ("cmp", "ncmp"):
        return [f[2], f[3]]
    if f[0] == "bool":
        return [f[1]]
    if f[0] == "or":
        out = []
        for alt in f[1]:
            for g in alt:
                out.extend(fact_terms(g))
        return out
    return []


def _pos(n):
    sp = n.get("sp")
    return (sp[0], sp[1]) if sp else (0, 0)


def term_roots(t, acc=None):
    if acc is None:
        acc = set()
    if isinstance(t, tuple):
        if t and t[0] in ("var", "param") and len(t) == 2:
            acc.add(t)
        else:
            for x in t:
                if isinstance(x, tuple):
                    term_roots(x, acc)
    return acc


def _mentions(t, pred):
    if not isinstance(t, tuple):
        return False
    if pred(t):
        return True
    return any(_mentions(x, pred) for x in t if isinstance(x, tuple))


def _affected(f, root, kind):
    """Can a mutation `kind` = (field path, 'elem'|'replace') on `root` change the value of a term in f?
    An element write below place root.path changes only element reads idx(B, _) whose base B is that place, a
    prefix of it (the object itself, read through its Index impl) or lies below it; a replacement also changes
    every term that mentions the place."""
    from .terms import project
    path, mode = kind
    ts = fact_terms(f)
    place = project(root, path) if path else root

    def elem_hit(x):
        if x[0] != "idx" or root not in term_roots(x[1]):
            return False
        B = x[1]
        if not path:
            return True
        return B == place or _is_prefix_place(B, place) or _mentions(B, lambda y: y == place)
    reads_elem = any(_mentions(t, elem_hit) for t in ts)
    if mode == "elem":
        return reads_elem
    if not path:
        return True
    return reads_elem or any(_mentions(t, lambda x: x == place) for t in ts)


def _is_prefix_place(B, place):
    """B is the root or an ancestor place of `place`."""
    p = place
    while p[0] == "field":
        p = p[1]
        if p == B:
            return True
    return False


def _affected_term(t, root, kind):
    """Like _affected, for a single term."""
    return _affected(("bool", t, True), root, kind)


def _stable(ctx, f, origin, node):
    """Drop a fact if a value it mentions may change on some path from the fact's origin to the node:
    a mutation textually between them, or one inside a loop that contains the node but not the origin
    (then the origin is not re-evaluated after it).  Mutations elsewhere flow through the origin again."""
    roots = set()
    for t in fact_terms(f):
        term_roots(t, roots)
    op, np_ = _pos(origin), _pos(node)
    origin_anc = None
    for root in roots:
        if root[0] == "var":
            b = ctx.binds.get(root[1])
            if b is not None and b.kind == "loopvar":
                continue
        for kind, a in ctx.mutations.get(root, []):
            if not _affected(f, root, kind):
                continue
            if ctx.disjoint_write(fact_terms(f), root, a):
                continue
            if _in_exiting_branch(a, node):
                continue
            ap = _pos(a)
            own_rhs = a.get("k") in ("Assign", "AssignOp") and _is_ancestor(a, node)
            if op <= ap < np_ and not own_rhs:
                return False
            if own_rhs and op <= ap:
                continue
            # loops around the node that do not contain the origin
            if origin_anc is None:
                origin_anc = set(id(x) for x in ancestors(origin)) | {id(origin)}
            a_anc = None
            for L in ancestors(node):
                if L.get("k") in ("For", "While", "Loop") and id(L) not in origin_anc:
                    if a_anc is None:
                        a_anc = set(id(x) for x in ancestors(a))
                    if id(L) in a_anc:
                        return False
    return True


def leaves_function(blk):
    """The block never falls through and never continues the enclosing loop: it ends in `return` or a panic."""
    if not diverges(blk):
        return False
    stack = [blk]
    while stack:
        x = stack.pop()
        k = x.get("k")
        if k in ("Break", "Continue"):
            return False
        if k in ("Closure", "For", "While", "Loop"):
            continue
        stack.extend(children(x))
    return True


def _in_exiting_branch(a, node):
    """Mutation a sits in an if-branch that leaves the function and does not contain `node`: it is on no path to node."""
    child = a
    for p in ancestors(a):
        if p.get("k") == "If" and (child is p.get("then") or child is p.get("else")):
            if leaves_function(child) and not _is_ancestor(child, node) and child is not node:
                return True
        child = p
    return False


def _is_ancestor(p, n):
    for a in ancestors(n):
        if a is p:
            return True
    return False


def _in_common_loop(a, b):
    la = [p for p in ancestors(a) if p.get("k") in ("For", "While", "Loop")]
    lb = set(id(p) for p in ancestors(b) if p.get("k") in ("For", "While", "Loop"))
    return any(id(p) in lb for p in la)


# ---------------------------------------------------------------- L: linear prover

def fact_lins(f):
    """Translate a cmp fact into linear forms known to be >= 0."""
    if f[0] != "cmp":
        return []
    op, a, b = f[1], f[2], f[3]
    if op == "<":
        return [lin_add(lin_sub(b, a), num(-1))]
    if op == "<=":
        return [lin_sub(b, a)]
    if op == "==":
        return [lin_sub(b, a), lin_sub(a, b)]
    return []


def prove_ge0(goal, fs, nonneg_atoms=True):
    """goal (a linear term) >= 0 from a single fact (or from atom non-negativity alone)."""
    c, atoms = lin_parts(goal)
    if not atoms:
        return c >= 0
    if nonneg_atoms and c >= 0 and all(k >= 0 for k in atoms.values()):
        return True
    for f in fs:
        for L in fact_lins(f):
            d = lin_sub(goal, L)
            dc, da = lin_parts(d)
            if not da and dc >= 0:
                return True
            if nonneg_atoms and dc >= 0 and all(k >= 0 for k in da.values()):
                return True
    return False


def prove_lt(a, b, fs):
    """a < b"""
    return prove_ge0(lin_add(lin_sub(b, a), num(-1)), fs)


def prove_le(a, b, fs):
    return prove_ge0(lin_sub(b, a), fs)


def upper_bounds(v, fs):
    """Terms D with a fact v < D (strict), and terms E with v <= E."""
    strict, weak = [], []
    for f in fs:
        if f[0] != "cmp":
            continue
        op, a, b = f[1], f[2], f[3]
        if op == "<" and a == v:
            strict.append(b)
        elif op == "<=" and a == v:
            weak.append(b)
        elif op in ("<", "<="):
            # v + c < D  etc: handle `lin` on the left with v coefficient 1
            ca, aa = lin_parts(a)
            if aa.get(v) == 1 and len(aa) == 1:
                rhs = lin_add(b, num(-ca))
                (strict if op == "<" else weak).append(rhs)
            else:
                # D - 1 >= v  written as  v <= D - 1
                pass
    # v <= D - 1  is  v < D
    for e in list(weak):
        strict.append(lin_add(e, num(1)))
    return strict


def equalities(fs):
    out = []
    for f in fs:
        if f[0] == "cmp" and f[1] == "==":
            out.append((f[2], f[3]))
    return out
