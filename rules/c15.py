"""C15 — vector arithmetic, reductions, norms, edits match their definitions."""
from .pdb import strip, walk, loc, ancestors
from .terms import Ctx, num, show, lin_add, lin_sub
from .common import (P, F, LEN, SIZE, GT, GE, NE, effects, callee_path, callee_generic, call_args, in_macro, forwards_to, is_zero_term, OP_OF_TRAIT,
                     rule_elementwise, effective_guards, find_argmax, is_abs_term, _resolve, rule_index_kinds, single_expr_body, is_call_like)
from .common import rule_empty_safe, return_paths
from .guards import facts, cond_atoms, norm_cmp, prove_lt, prove_le
from .guards import for_range as raw_for_range
from .common import for_range_total as for_range
from .algebra import SymExec

LEVEL = "other"
V = "vector::Vector<T>"
VEC0, VEC1 = F(P(0), "vec"), F(P(1), "vec")
N0 = LEN(VEC0)

EDITS = {
    # method: (std callee suffix, expected argument terms after the receiver `self.vec`)
    "push": ("::push", [P(1)]),
    "push_front": ("::insert", [num(0), P(1)]),
    "insert": ("::insert", [P(1), P(2)]),
    "swap": ("::swap", [P(1), P(2)]),
    "clear": ("::clear", []),
    "resize": ("::resize_with", [P(1), None]),
    "sort": ("::sort_unstable", []),
    "sort_by": ("::sort_unstable_by", [P(1)]),
}


def check_norm_inf(rep, pdb, path, key):
    fn = pdb.fn(path)
    rule = ("norm_inf is an arg-max fold over |v_i| covering every element (from |v_0| over 1..size, or from 0.0 over 0..size) and a NaN component is never "
            "skipped: the running maximum is also replaced when |v_i| is NaN (`best < NaN` is false, so a bare `<` test ignores it)")
    if fn is None:
        rep.missing(key, rule, "not found")
        return
    ctx = Ctx.for_fn(pdb, fn)
    lps = [n for n in walk(fn["body"]) if n.get("k") == "For"]
    am = find_argmax(pdb, ctx, lps[0]) if len(lps) == 1 else None
    ok = am is not None
    det = am.detail if am else "no (total) arg-max loop"
    if ok:
        cur = _resolve(ctx, am.cur)
        bb = ctx.binds.get(am.best[1])
        init = ctx.term(bb.init) if bb is not None and bb.init is not None else None
        from_first = am.lo == num(1) and init is not None and is_abs_term(init) and init[2] == ("idx", VEC0, num(0))
        from_zero = am.lo == num(0) and init == num(0)
        cover = am.orient_ok and am.best_gets_cur and am.magnitude_ok and is_abs_term(cur) and cur[2] == ("idx", VEC0, am.var) and am.hi == N0 and \
            (from_first or from_zero) and ctx.term(fn["body"]["expr"]) == am.best
        ok = cover and bool(am.nan)
        det += "; every element covered=%s; NaN candidate replaces the maximum=%s" % (cover, bool(am.nan))
    rep.add(key, rule, ok, fn["body"], det, where=loc(fn["body"]))


def check_dot(rep, pdb, key):
    """the sequential dot product (also the reference of C16's threaded one)"""
    fn = pdb.fn("%s::dot" % V)
    rule = "dot: size guard, accumulator from zero(), += self[i]*w[i] for i in 0..size"
    if fn is None:
        rep.missing(key, rule, "not found")
    else:
        ctx = Ctx.for_fn(pdb, fn)
        es = [e for e in effects(pdb, ctx) if e.kind == "assignop"]
        ok = len(es) == 1 and NE(N0, LEN(VEC1)) in effective_guards(pdb, fn)
        if ok:
            e = es[0]
            r = for_range(ctx, e.loops[0])
            i = r[0]
            acc = ctx.binds.get(e.target[1])
            ok = e.op == "+=" and e.value in (("op", "*", ("idx", VEC0, i), ("idx", VEC1, i)), ("op", "*", ("idx", VEC1, i), ("idx", VEC0, i))) and \
                r[1:5] == (num(0), N0, False, False) and acc is not None and is_zero_term(ctx.term(acc.init)) and ctx.term(fn["body"]["expr"]) == e.target
        rep.add(key, rule, ok, fn["body"], "", where=loc(fn["body"]))


def run(rep, pdb, tier):
    n_el = 0
    for fn in pdb.local_fns():
        from .common import involves_adt
        if (fn["file"] == "src/vector/arithmetic.rs" or (involves_adt(fn, "vector::Vector") and not any("Matrix" in str(a_) or "Tridiagonal" in str(a_) or "Banded" in str(a_) for a_ in [fn.get("impl_self")] + list(fn.get("impl_trait_args", []) or [])))) \
                and fn.get("impl_trait") in OP_OF_TRAIT and forwards_to(pdb, fn) is None:
            rule_elementwise(rep, pdb, fn)
            n_el += 1
    from .c03 import rule_delegation
    n_del = rule_delegation(rep, pdb, ("src/vector/arithmetic.rs",))
    # ---- editing methods are single forwarding calls to the Vec method that defines them
    for name, (suffix, want) in EDITS.items():
        from .common import self_adt
        cands = [f for f in pdb.find(name=name) if f["file"] in ("src/vector/operations.rs", "src/vector/functions.rs") or (self_adt(f) == "vector::Vector" and not f.get("impl_trait"))]
        key = "edit/%s" % name
        rule = "the editing method is one forwarding call to the std Vec/slice method that defines it, on self.vec, with the arguments in order"
        if len(cands) != 1:
            rep.missing(key, rule, "method not found (%d candidates)" % len(cands))
            continue
        fn = cands[0]
        ctx = Ctx.for_fn(pdb, fn)
        e = single_expr_body(fn)
        ok = e is not None and e.get("k") == "MethodCall" and not e.get("fn_local") and str(callee_path(e)).endswith(suffix) and ctx.term(e["recv"]) == VEC0
        if ok:
            args = [ctx.term(a) for a in e.get("args", [])]
            ok = len(args) == len(want) and all(w is None or a == w for a, w in zip(args, want))
            if name == "resize":
                ok = ok and str(args[1]).find("Default::default") >= 0
        rep.add(key, rule, ok, fn["body"], "forwards to %s" % (callee_path(e) if e is not None and e.get("k") == "MethodCall" else None), where=loc(fn["body"]))
    fn = pdb.fn("%s::pop" % V)
    rule = "pop forwards to Vec::pop on self.vec and unwraps the result"
    if fn is None:
        rep.missing("edit/pop", rule, "not found")
    else:
        ctx = Ctx.for_fn(pdb, fn)
        tail = fn["body"].get("expr")
        t = ctx.term(tail) if tail is not None else None
        inner = t[2] if t is not None and t[0] == "call" and len(t) in (3, 4) else None      # unwrap() or expect("..")
        if inner is not None and inner[0] == "var" and ctx.def_term(inner) is not None:
            inner = ctx.def_term(inner)
        ok = t is not None and t[0] == "call" and str(t[1]).endswith(("::unwrap", "::expect")) and inner is not None and inner[0] == "call" and str(inner[1]).endswith("::pop") and inner[2] == VEC0
        rep.add("edit/pop", rule, ok, fn["body"], "", where=loc(fn["body"]))
    # ---- dot
    check_dot(rep, pdb, "dot")
    # ---- slices
    for name, op, start_off in (("sum_slice", "+=", 0), ("product_slice", "*=", 1)):
        fn = pdb.fn("%s::%s" % (V, name))
        rule = ("the three guards give start <= end < size; sum_slice folds start..=end from zero(); product_slice starts from vec[start] and folds start+1..=end "
                "(the initial index and the loop range tile [start, end])")
        if fn is None:
            rep.missing("slices/%s" % name, rule, "not found")
            continue
        ctx = Ctx.for_fn(pdb, fn)
        eff = effective_guards(pdb, fn)
        g = GT(P(1), P(2)) in eff and GE(P(1), N0) in eff and GE(P(2), N0) in eff
        es = [e for e in effects(pdb, ctx) if e.kind == "assignop"]
        ok = g and len(es) == 1
        if ok:
            e = es[0]
            r = for_range(ctx, e.loops[0])
            acc = ctx.binds.get(e.target[1]) if e.target[0] == "var" else None
            init = ctx.term(acc.init) if acc is not None and acc.init is not None else None
            okinit = is_zero_term(init) if start_off == 0 else init == ("idx", VEC0, P(1))
            # the range ends after `end`: `start..=end` or `start..end+1`
            end_excl = (lin_add(r[2], num(1)) if r[3] else r[2]) if r is not None else None
            ok = r is not None and e.op == op and e.value == ("idx", VEC0, r[0]) and r[1] == lin_add(P(1), num(start_off)) and end_excl == lin_add(P(2), num(1)) and not r[4] and okinit and \
                fn["body"].get("expr") is not None and ctx.term(fn["body"]["expr"]) == e.target
        rep.add("slices/%s" % name, rule, ok, fn["body"], "guards=%s" % g, where=loc(fn["body"]))
    for name, callee in (("sum", "sum_slice"), ("product", "product_slice")):
        fn = pdb.fn("%s::%s" % (V, name))
        rule = "%s is %s(0, size-1)" % (name, callee)
        if fn is None:
            rep.missing("slices/%s" % name, rule, "not found")
            continue
        ctx = Ctx.for_fn(pdb, fn)
        # every way of returning: the identity element when the vector is empty, the whole-range slice reduction otherwise
        from .common import return_paths
        want = ("call", "%s::%s" % (V, callee), P(0), num(0), lin_add(N0, num(-1)))
        paths = return_paths(ctx, fn)
        n_full, okp = 0, bool(paths)
        for fs_, val_, node_ in paths:
            empty_ = any(f_[0] == "cmp" and f_[1] == "==" and {f_[2], f_[3]} == {N0, num(0)} for f_ in fs_)
            ident_ = val_[0] == "call" and str(val_[1]).endswith("::zero" if name == "sum" else "::one") and len(val_) == 2
            if val_ == want:
                n_full += 1
            elif not (empty_ and ident_):
                okp = False
        rep.add("slices/%s" % name, rule + " (an empty vector may return the identity element first)", okp and n_full == 1, fn["body"], "return paths: %d" % len(paths), where=loc(fn["body"]))
    # ---- abs and norms
    fn = pdb.fn("%s::abs" % V)
    rule = "abs maps Signed::abs over the full range into a fresh vector of the same length"
    if fn is None:
        rep.missing("abs-norms/abs", rule, "not found")
    else:
        ctx = Ctx.for_fn(pdb, fn)
        from .common import fresh_map
        fm = fresh_map(pdb, ctx)
        no_ret = not any(n_.get("k") == "Ret" for n_ in walk(fn["body"]))
        ok = fm is not None and is_abs_term(fm["value"]) and fm["value"][2] == ("idx", VEC0, fm["i"]) and fm["lo"] == num(0) and fm["hi"] in (N0, LEN(VEC0)) and no_ret
        rep.add("abs-norms/abs", rule, ok, fn["body"], "built by %s" % (fm["kind"] if fm else None), where=loc(fn["body"]))
    fn = pdb.fn("%s::norm_1" % V)
    rule = "norm_1 sums |v_i| over the full range from zero()"
    if fn is None:
        rep.missing("abs-norms/norm_1", rule, "not found")
    else:
        ctx = Ctx.for_fn(pdb, fn)
        es = [e for e in effects(pdb, ctx) if e.kind == "assignop"]
        ok = len(es) == 1
        if ok:
            e = es[0]
            r = for_range(ctx, e.loops[0])
            acc = ctx.binds.get(e.target[1])
            ok = e.op == "+=" and is_abs_term(e.value) and e.value[2] == ("idx", VEC0, r[0]) and r[1:5] == (num(0), N0, False, False) and is_zero_term(ctx.term(acc.init))
        rep.add("abs-norms/norm_1", rule, ok, fn["body"], "", where=loc(fn["body"]))
    V64 = "vector::Vector<f64>"
    # the exponent domain p in [1, 8] is not narrowed: no panic guard of norm_p can fire for an exponent in that interval
    fnp = pdb.fn("%s::norm_p" % V64)
    if fnp is not None:
        from .common import entry_guards as _eg
        from fractions import Fraction as _Fr
        cx = Ctx.for_fn(pdb, fnp)

        def _val(t_, p_):
            if t_ == P(1):
                return p_
            if t_[0] == "num":
                return t_[1]
            return None

        def _holds(at, p_):
            if at[0] not in ("cmp", "ncmp"):
                return None
            a_, b_ = _val(at[2], p_), _val(at[3], p_)
            if a_ is None or b_ is None:
                return None
            r_ = {"<": a_ < b_, "<=": a_ <= b_, ">": a_ > b_, ">=": a_ >= b_, "==": a_ == b_, "!=": a_ != b_}[at[1]]
            return (not r_) if at[0] == "ncmp" else r_
        badg = []
        for g in _eg(pdb, cx):
            if g.kind != "panic":
                continue
            for alt in g.alts:
                if not any(P(1) in (a_[2:4] if len(a_) >= 4 else ()) for a_ in alt):
                    continue
                for p_ in (_Fr(1), _Fr(3, 2), _Fr(2), _Fr(8)):
                    vals = [_holds(a_, p_) for a_ in alt]
                    if all(v_ is True for v_ in vals):
                        badg.append((g, p_))
                        break
        rep.add("abs-norms/norm_p/domain", "no panic guard of norm_p fires for an exponent in [1, 8] (p = 1 is the 1-norm and belongs to the domain)", not badg,
                badg[0][0].node if badg else fnp["body"], "guards that reject an admissible exponent: %s" % [("p = %s" % float(p_)) for _, p_ in badg], where=loc(badg[0][0].node) if badg else loc(fnp["body"]))
    for name, outer in (("norm_2", "sqrt"), ("norm_p", "powf")):
        fn = pdb.fn("%s::%s" % (V64, name))
        rule = "norm_2 = sqrt(sum powf(|v_i|, 2)); norm_p = powf(sum powf(|v_i|, p), 1/p) (or the same with |v_i| scaled by the inf-norm and the result scaled back); full range, accumulator from 0"
        if fn is None:
            rep.missing("abs-norms/%s" % name, rule, "not found")
            continue
        ctx = Ctx.for_fn(pdb, fn)
        es = [e for e in effects(pdb, ctx) if e.kind == "assignop"]
        ok = len(es) == 1
        scaled = False
        if ok:
            e = es[0]
            r = for_range(ctx, e.loops[0])
            pw = num(2) if name == "norm_2" else P(1)
            acc = ctx.binds.get(e.target[1])
            v = e.value
            NI = ("call", "%s::norm_inf" % V64, P(0))
            res = lambda t_: (ctx.def_term(t_) if t_[0] == "var" and ctx.def_term(t_) is not None else t_)
            elem = v[2] if v[0] == "call" and str(v[1]).endswith("powf") and len(v) == 4 else None
            plain = elem is not None and is_abs_term(elem) and elem[2] == ("idx", VEC0, r[0])
            # scaled form: powf(|v_i| / S, p) with S = self.norm_inf(), result S * root(sum)
            S = None
            if elem is not None and elem[0] == "op" and elem[1] == "/" and is_abs_term(elem[2]) and elem[2][2] == ("idx", VEC0, r[0]) and res(elem[3]) == NI:
                S = elem[3]
            ok = e.op == "+=" and elem is not None and (plain or S is not None) and v[3] == pw and r[1:5] == (num(0), N0, False, False) and ctx.term(acc.init) == num(0)
            paths = return_paths(ctx)
            root = ("call", None)
            good_tail = False
            for fs_, t, node_ in paths:
                if name == "norm_2":
                    isroot = lambda x: x[0] == "call" and str(x[1]).endswith("sqrt") and x[2] == e.target
                else:
                    isroot = lambda x: x[0] == "call" and str(x[1]).endswith("powf") and x[2] == e.target and x[3] == ("op", "/", num(1), P(1))
                if S is None and isroot(t):
                    good_tail = True
                elif S is not None and t[0] == "op" and t[1] == "*" and ((t[2] == S and isroot(t[3])) or (t[3] == S and isroot(t[2]))):
                    good_tail = True
                elif S is not None and t in (S, num(0)):
                    pass            # early return of the scale itself when it is 0 (or not finite)
                else:
                    good_tail = good_tail and False
            ok = ok and good_tail
            scaled = ok and S is not None
        rep.add("abs-norms/%s" % name, rule, ok, fn["body"], "scaled by the inf-norm: %s" % scaled, where=loc(fn["body"]))
        rep.add("abs-norms/%s/range" % name, "the p-th powers are taken of |v_i| / norm_inf (each term <= 1), so the sum cannot overflow to inf or underflow to 0 for finite data: "
                "the norms keep inf-norm <= 2-norm <= 1-norm and homogeneity `for all data`, not only for |v_i| within about 1e+-154 (p = 2)",
                scaled, fn["body"], "unscaled sum of powf(|v_i|, p)" if not scaled else "scaled", where=loc(fn["body"]))
    for path in ("%s::norm_inf" % V64, "vector::Vector<complex::Complex<f64>>::norm_inf"):
        check_norm_inf(rep, pdb, path, "abs-norms/norm_inf/%s" % ("f64" if "Complex" not in path else "Cmplx"))
    # ---- find
    fn = pdb.find(name="find")
    from .common import self_adt as _sa
    fn = [f for f in fn if f["file"] == "src/vector/functions.rs" or (_sa(f) == "vector::Vector" and not f.get("impl_trait"))]
    rule = "find returns the position of the FIRST match (Iterator::position with ==) and size-1 (saturating at 0 for the empty vector) otherwise"
    if len(fn) != 1:
        rep.missing("find", rule, "not found")
    else:
        fn = fn[0]
        ctx = Ctx.for_fn(pdb, fn)
        pos = [n for n in walk(fn["body"]) if n.get("k") == "MethodCall" and n.get("name") == "position" and str(callee_generic(n)).endswith("Iterator::position")]
        ok = len(pos) == 1
        if ok:
            p_ = pos[0]
            it = ctx.term(p_["recv"])
            cl = strip(p_["args"][0])
            okc = cl.get("k") == "Closure" and len(cl["params"]) == 1
            if okc:
                x = ("var", cl["params"][0]["v"])
                body = ctx.term(cl["body"])
                okc = body in (("op", "==", x, P(1)), ("op", "==", P(1), x))
            ok = okc and it[0] == "call" and str(it[1]).endswith("::iter") and it[2] == VEC0
            # the match: Some(i) => i, None => size-1
            ms = [n for n in walk(fn["body"]) if n.get("k") == "Match"]
            okm = len(ms) == 1
            iflets = [n for n in walk(fn["body"]) if n.get("k") == "If" and isinstance(n.get("cond"), dict) and n["cond"].get("k") == "LetCond" and strip(n["cond"]["init"]) is p_]
            notfound = lambda nt: nt == lin_add(N0, num(-1)) or (nt[0] == "call" and str(nt[1]).endswith("::saturating_sub") and nt[2:] == (N0, num(1)))
            unw = [n for n in walk(fn["body"]) if n.get("k") == "MethodCall" and n.get("name") in ("unwrap_or", "unwrap_or_else") and strip(n["recv"]) is p_ and len(n.get("args", [])) == 1]
            if not ms and not iflets and len(unw) == 1:
                # `position(..).unwrap_or(<not-found value>)` as the value of the function
                a0 = strip(unw[0]["args"][0])
                if unw[0]["name"] == "unwrap_or_else" and a0.get("k") == "Closure" and not a0.get("params"):
                    a0 = a0["body"]
                tail = fn["body"].get("expr")
                okm = tail is not None and strip(tail) is unw[0] and notfound(ctx.term(a0))
            elif not ms and len(iflets) == 1:
                # `if let Some(i) = position(..) { return i; }  <not-found value>`
                il = iflets[0]
                pk = il["cond"]["pat"]
                inner = (pk.get("ps") or [f["pat"] for f in pk.get("fields", [])]) if str(pk.get("path", "")).endswith("Some") else []
                rets = [x_ for x_ in walk(il["then"]) if x_.get("k") == "Ret"]
                tail = fn["body"].get("expr")
                okm = len(inner) == 1 and inner[0].get("k") == "Bind" and len(rets) == 1 and ctx.term(rets[0]["e"]) == ("var", inner[0]["v"]) and \
                    il.get("else") is None and tail is not None and notfound(ctx.term(tail))
            elif okm:
                arms = ms[0]["arms"]
                vals = {}
                for a in arms:
                    pk = a["pat"]
                    nm = str(pk.get("path", ""))
                    if nm.endswith("Some"):
                        inner = (pk.get("ps") or [f["pat"] for f in pk.get("fields", [])])[0]
                        rets = [x_ for x_ in walk(a["body"]) if x_.get("k") == "Ret"]
                        tv = ctx.term(rets[0]["e"]) if rets else ctx.term(a["body"])
                        vals["some"] = tv == ("var", inner["v"])
                    elif nm.endswith("None"):
                        nt = ctx.term(a["body"])
                        vals["none"] = nt == lin_add(N0, num(-1)) or (nt[0] == "call" and str(nt[1]).endswith("::saturating_sub") and nt[2:] == (N0, num(1)))
                okm = vals.get("some") and vals.get("none")
            ok = ok and bool(okm)
        rep.add("find", rule, ok, fn["body"], "", where=loc(fn["body"]))
    # ---- assign / conj / real
    for path, key, want in (("%s::assign" % V, "assign", "elem"),
                            ("vector::Vector<complex::Complex<T>>::conj", "conj", "conj"),
                            ("vector::Vector<complex::Complex<T>>::real", "real", "real")):
        fn = pdb.fn(path)
        rule = "assign / conj / real cover the full range and write the index they read"
        if fn is None:
            rep.missing("assign-conj-real/%s" % key, rule, "not found")
            continue
        ctx = Ctx.for_fn(pdb, fn)
        es = [e for e in effects(pdb, ctx) if e.kind == "set"]
        ok = len(es) == 1
        if not ok and want in ("conj", "real"):
            # `self.vec.iter().map(|z| z.conj()).collect()`: a fresh vector built element by element
            from .common import fresh_map
            fm = fresh_map(pdb, ctx)
            if fm is not None:
                src = ("idx", VEC0, fm["i"])
                okv = fm["value"] == (("call", "complex::Complex<T>::conj", src) if want == "conj" else ("field", src, "real"))
                rep.add("assign-conj-real/%s" % key, rule, okv and fm["lo"] == num(0) and fm["hi"] in (N0, LEN(VEC0)) and not any(n_.get("k") == "Ret" for n_ in walk(fn["body"])),
                        fn["body"], "built by %s" % fm["kind"], where=loc(fn["body"]))
                continue
        if ok:
            e = es[0]
            r = for_range(ctx, e.loops[0])
            src = ("idx", VEC0, r[0])
            if want == "elem":
                okv = e.value == P(1) and e.target == VEC0
            elif want == "conj":
                okv = e.value == ("call", "complex::Complex<T>::conj", src)
            else:
                okv = e.value == ("field", src, "real")
            ok = okv and e.index == r[0] and r[1:5] == (num(0), N0, False, False)
        rep.add("assign-conj-real/%s" % key, rule, ok, fn["body"], "", where=loc(fn["body"]))
    # ---- spacing
    for name in ("linspace", "powspace"):
        fn = pdb.fn("%s::%s" % (V64, name))
        rule = ("linspace: vec[i] = a + h*i with h = (b-a)/(size-1); powspace: vec[i] = a + (b-a)*powf(i/(size-1), p); i over 0..size; substituting i := 0 gives a exactly, "
                "i := size-1 gives a + (b-a)*1")
        if fn is None:
            rep.missing("spacing/%s" % name, rule, "not found")
            continue
        ctx = Ctx.for_fn(pdb, fn)
        from .common import fresh_map
        fm = fresh_map(pdb, ctx)
        ok = fm is not None
        if ok:
            i = fm["i"]
            fi = ("tofloat", i)
            sm1 = ("op", "-", ("tofloat", P(2)), num(1))
            A, B = P(0), P(1)
            if name == "linspace":
                h = ("op", "/", ("op", "-", B, A), sm1)
                want = ("op", "+", A, ("op", "*", h, fi))
            else:
                want = ("op", "+", A, ("op", "*", ("op", "-", B, A), ("call", None, ("op", "/", fi, sm1), P(3))))
            v = fm["value"]
            if name == "powspace" and v[0] == "op" and v[1] == "+" and v[3][0] == "op" and v[3][3][0] == "call" and str(v[3][3][1]).endswith("powf"):
                want = ("op", "+", A, ("op", "*", ("op", "-", B, A), ("call", v[3][3][1], ("op", "/", fi, sm1), P(3))))
            ok = v == want and fm["lo"] == num(0) and fm["hi"] == P(2) and not any(n_.get("k") == "Ret" for n_ in walk(fn["body"]))
        rep.add("spacing/%s" % name, rule, ok, fn["body"], "", where=loc(fn["body"]))
    fns = [f for f in pdb.local_fns() if f["file"].startswith("src/vector/")]
    n_sites = rule_index_kinds(rep, pdb, fns)
    # ---- length 0 is inside the quantifier: nothing is certain to panic on the empty vector
    n_es = 0
    for f_ in pdb.local_fns():
        if f_.get("file", "").startswith("src/vector/") and f_.get("impl_trait") not in ("std::fmt::Display", "std::fmt::Debug", "std::ops::Index", "std::ops::IndexMut") \
                and f_.get("name") not in ("pop", "pop_front", "back", "front", "last", "first", "swap", "insert", "remove"):
            n_es += rule_empty_safe(rep, pdb, f_, "empty-safe", [N0, LEN(VEC0)], "vector")
    rep.floor("empty-safe/", 40)
    rep.floor("elementwise-polarity/", 12)
    rep.floor("elementwise-coindex/", 12)
    rep.floor("elementwise-fullrange/", 12)
    rep.floor("delegation/", 4)
    rep.floor("edit/", 9)
    rep.floor("slices/", 4)
    rep.floor("abs-norms/", 6)
    rep.floor("assign-conj-real/", 3)
    rep.floor("spacing/", 2)
    rep.assumptions += ["because every edit is a single forwarding call, the vector IS its Vec under any history (delegation to std)",
                        "sum, product, find and both norm_inf panic on an empty vector (size()-1 underflow / vec[0]): they fail loudly; definitions at length 0 are not reported",
                        "norm axioms, monotonicity and end-point accuracy of the generated sequences beyond the algebraic end-point identity are not decided statically"]
    return {"elementwise_impls": n_el, "delegating_impls": n_del, "index_sites": n_sites}
